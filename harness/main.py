"""Entry point: ./check <Cxx> [--tier quick|thorough] [--replay file]"""
import argparse
import importlib
import json
import os
import random
import sys
import traceback

sys.path.insert(0, os.path.dirname(os.path.abspath(__file__)))
sys.path.insert(0, os.path.join(os.path.dirname(os.path.dirname(os.path.abspath(__file__))), "translate"))
import common  # noqa: E402


TZ_BY_SEED = ["NST3:30NDT,M3.2.0,M11.1.0", "IST-5:30", "EST5EDT,M3.2.0,M11.1.0", "<+1245>-12:45", "UTC", "PST8PDT,M3.2.0,M11.1.0"]


def main():
    ap = argparse.ArgumentParser()
    ap.add_argument("prop")
    ap.add_argument("--tier", default=os.environ.get("VERIF_TIER", "quick"), choices=["quick", "thorough"])
    ap.add_argument("--replay")
    a = ap.parse_args()
    tier = os.environ.get("VERIF_TIER") or a.tier
    if tier not in ("quick", "thorough"):
        tier = "quick"
    seed = int(os.environ.get("VERIF_SEED", "0") or 0)
    prop = a.prop.upper()
    # Every property speaks about UTC names and times; none may depend on the time zone of the
    # process.  All checks therefore run in a zone with a non-integer offset and daylight saving
    # (override with DRF_TZ); individual checks rotate further zones where names are rendered.
    import time
    os.environ["TZ"] = os.environ.get("DRF_TZ") or TZ_BY_SEED[seed % len(TZ_BY_SEED)]
    time.tzset()
    res = common.Result(prop, tier, seed)
    res.rng = random.Random(seed * 1000003 + int(prop[1:]))
    res.extra["process_tz"] = os.environ["TZ"]
    try:
        mod = importlib.import_module("props.%s" % prop.lower())
    except ImportError as e:
        print("no check module for %s: %s" % (prop, e))
        return 2
    try:
        common.build_impl()
    except common.Broken as e:
        print("ERROR: " + str(e))
        return 2
    if a.replay:
        rp = json.load(open(a.replay))
        return mod.replay(res, rp)
    # 1. regenerate the translated models, 2. proofs
    try:
        if hasattr(mod, "regenerate"):
            mod.regenerate(res)
        common.regenerate_state_sites(res)
        extra = getattr(mod, "EXTRA_TARGETS", ())
        res.proof = common.check_property_file(prop, extra)
        if res.proof["discharged"] != res.proof["obligations"]:
            bad = [t for t, ax in res.proof["axioms"].items()
                   if not all(x in common.ALLOWED_AXIOMS for x in ax)]
            res.broken.append({"what": "theorems depend on axioms outside the allowed list", "theorems": bad})
        if tier == "thorough" and res.proof:
            ok, summary = common.coqchk_property(prop)
            res.extra["coqchk"] = summary
            if not ok:
                res.broken.append({"what": "coqchk rejects the compiled development of %s" % prop, "log": summary})
    except common.Broken as e:
        res.broken.append({"what": "proof obligations of %s no longer check" % prop, "log": str(e)[-4000:]})
        common.log(str(e)[-3000:])
    # 3. correspondence + property oracle on the implementation (doubles as the failing-input search).
    #    Runs in a child process: an abort()/segfault inside the freshly built C library must not
    #    take the check down without a verdict.
    import pickle
    import signal
    common.scratch_root()
    rfile = os.path.join(common.scratch_root(), "result.pickle")
    sys.stdout.flush()
    sys.stderr.flush()
    pid = os.fork()
    if pid == 0:
        code = 0
        try:
            import atexit
            import resource
            atexit._clear()
            os.setsid()                     # own process group: the watchdog below can kill helpers too
            try:                            # if the parent (the watchdog) is killed from outside, e.g. by `timeout`, die too
                import ctypes
                ctypes.CDLL("libc.so.6", use_errno=True).prctl(1, signal.SIGKILL)   # PR_SET_PDEATHSIG
                if os.getppid() == 1:
                    os._exit(3)
            except Exception:  # noqa
                pass
            gb = int(os.environ.get("DRF_CHILD_MEM_GB", "32"))
            try:                            # a runaway allocation must end the case, not the machine
                resource.setrlimit(resource.RLIMIT_AS, (gb << 30, gb << 30))
            except (ValueError, OSError):
                pass
            try:
                mod.run(res)
            except common.Broken as e:
                res.broken.append({"what": "correspondence machinery failed", "log": str(e)[-4000:]})
                common.log(str(e)[-3000:])
            except Exception:
                tb = traceback.format_exc()
                cur = common.get_current()
                if cur is not None:
                    res.violation("implementation-raised-unexpectedly", "the implementation raised where the property requires success",
                                  cur, "no exception", tb[-1500:])
                else:
                    res.broken.append({"what": "check crashed", "log": tb[-4000:]})
                common.log(tb)
            with open(rfile, "wb") as f:
                pickle.dump(res, f)
        except BaseException:
            traceback.print_exc()
            code = 3
        sys.stdout.flush()
        sys.stderr.flush()
        os._exit(code)
    # watchdog: a case that never returns is a verdict too (replay = the case that was running)
    import time as _time
    limit = int(os.environ.get("DRF_CHILD_TIMEOUT", "3000" if tier == "quick" else "28000"))
    t_start = _time.time()
    hung = False
    while True:
        wp, status = os.waitpid(pid, os.WNOHANG)
        if wp == pid:
            break
        if _time.time() - t_start > limit:
            hung = True
            try:
                os.killpg(pid, signal.SIGKILL)
            except OSError:
                os.kill(pid, signal.SIGKILL)
            _, status = os.waitpid(pid, 0)
            break
        _time.sleep(0.2)
    if hung:
        cur = common.get_current()
        what = "the check's implementation run did not finish within %d s" % limit
        if cur is not None:
            res.violation("implementation-hangs", what + " while running this case", cur, "return", "no return")
        else:
            res.broken.append({"what": what})
        return common.finish(res, level=getattr(mod, "LEVEL", "proof"))
    if os.path.exists(rfile) and os.WIFEXITED(status) and os.WEXITSTATUS(status) == 0:
        child = pickle.load(open(rfile, "rb"))
        child.proof = res.proof
        child.t0 = res.t0
        res = child
    else:
        sig = os.WTERMSIG(status) if os.WIFSIGNALED(status) else None
        cur = common.get_current()
        what = "the check's implementation run died (%s)" % (("signal %d" % sig) if sig else "exit status %r" % status)
        if cur is not None:
            res.violation("implementation-crashed", what + " while running this case", cur, "normal return", what)
        else:
            res.broken.append({"what": what})
    return common.finish(res, level=getattr(mod, "LEVEL", "proof"))


if __name__ == "__main__":
    sys.exit(main())
