"""Fingerprints of the hand-modelled functions (DESIGN 2.3): a normalised hash of each function's
source text (comments and whitespace dropped).  A changed fingerprint is NOT a violation; it only
makes the check run its thorough-size correspondence even in the quick tier, because the hand model
may have gone stale exactly there.   usage: fingerprint.py --update   (rewrites fingerprints.json)"""
import ast
import hashlib
import json
import os
import re
import sys

HERE = os.path.dirname(os.path.abspath(__file__))
STORE = os.path.join(HERE, "fingerprints.json")

C_FUNCS = {
    "c/lib/rf_write_hdf5.c": [
        "digital_rf_write_hdf5", "digital_rf_write_blocks_hdf5", "digital_rf_write_samples_to_file",
        "digital_rf_create_hdf5_file", "digital_rf_close_hdf5_file", "digital_rf_close_write_hdf5",
        "digital_rf_create_new_directory", "digital_rf_create_rf_data_index", "digital_rf_write_rf_data_index",
        "digital_rf_get_global_sample", "digital_rf_extend_dataset", "digital_rf_set_fill_value",
        "digital_rf_handle_metadata", "digital_rf_write_metadata"],
    "python/lib/py_rf_write_hdf5.c": ["_py_rf_write_hdf5_rf_write", "_py_rf_write_hdf5_rf_block_write"],
}
PY_FUNCS = {
    "python/digital_rf/digital_rf_hdf5.py": ["DigitalRFWriter.rf_write", "DigitalRFWriter.rf_write_blocks",
                                             "DigitalRFWriter.close", "DigitalRFWriter.__init__", "recreate_properties_file"],
}


def _c_function_text(src, name):
    # definition = "name(" at the start of a declarator followed (after the parameter list) by "{"
    m = re.search(r"(?m)^[A-Za-z_][^;{}()]*\b%s\s*\(" % re.escape(name), src)
    while m:
        i = src.index("(", m.start())
        depth, j = 0, i
        while True:
            if src[j] == "(":
                depth += 1
            elif src[j] == ")":
                depth -= 1
                if depth == 0:
                    break
            j += 1
        k = j + 1
        # skip the K&R-style comment block between ")" and "{"
        rest = re.match(r"(\s|/\*.*?\*/|//[^\n]*\n)*", src[k:], re.S)
        k += rest.end()
        if k < len(src) and src[k] == "{":
            depth, e = 0, k
            while True:
                if src[e] == "{":
                    depth += 1
                elif src[e] == "}":
                    depth -= 1
                    if depth == 0:
                        return src[m.start():e + 1]
                e += 1
        m = re.search(r"(?m)^[A-Za-z_][^;{}()]*\b%s\s*\(" % re.escape(name), src[m.end():])
        if m:
            return None
    return None


def _norm_c(text):
    text = re.sub(r"/\*.*?\*/", " ", text, flags=re.S)
    text = re.sub(r"//[^\n]*", " ", text)
    return re.sub(r"\s+", " ", text).strip()


def compute(repo):
    out = {}
    for rel, names in C_FUNCS.items():
        try:
            src = open(os.path.join(repo, rel)).read()
        except OSError:
            continue
        for nm in names:
            t = _c_function_text(src, nm)
            out["%s:%s" % (rel, nm)] = hashlib.sha1(_norm_c(t).encode()).hexdigest()[:16] if t else "missing"
    for rel, names in PY_FUNCS.items():
        try:
            tree = ast.parse(open(os.path.join(repo, rel)).read())
        except (OSError, SyntaxError):
            continue
        defs = {}
        for node in tree.body:
            if isinstance(node, ast.FunctionDef):
                defs[node.name] = node
            elif isinstance(node, ast.ClassDef):
                for sub in node.body:
                    if isinstance(sub, ast.FunctionDef):
                        defs["%s.%s" % (node.name, sub.name)] = sub
        for nm in names:
            node = defs.get(nm)
            if node is not None:
                # drop the docstring
                body = node.body[1:] if (node.body and isinstance(node.body[0], ast.Expr)
                                         and isinstance(getattr(node.body[0], "value", None), ast.Constant)
                                         and isinstance(node.body[0].value.value, str)) else node.body
                txt = ast.dump(ast.Module(body=body, type_ignores=[]))
                out["%s:%s" % (rel, nm)] = hashlib.sha1(txt.encode()).hexdigest()[:16]
            else:
                out["%s:%s" % (rel, nm)] = "missing"
    return out


def changed(repo):
    """names of hand-modelled functions whose text differs from the committed fingerprints"""
    try:
        ref = json.load(open(STORE))
    except (OSError, ValueError):
        return ["<no fingerprints.json>"]
    cur = compute(repo)
    return sorted(k for k in set(ref) | set(cur) if ref.get(k) != cur.get(k))


if __name__ == "__main__":
    repo = os.environ.get("DRF_REPO", "/repo")
    if "--update" in sys.argv:
        json.dump(compute(repo), open(STORE, "w"), indent=1, sort_keys=True)
    print(json.dumps(changed(repo)))
