"""Shared machinery of the writer-protocol checks C02 / C09 / C10.

* builds harness/cdriver/fsshim.c (LD_PRELOAD interposer) into a scratch directory;
* runs harness/cdriver/proto_writer.py under it (log / snapshot / kill / fault / single-step);
* maps the logged system calls to the operations of coq/Base/Fs.v and rebuilds, from the
  recording parameters (file arithmetic done here, exactly) and the call-stack labels of the log,
  the abstract recording that coq/Model/WriterProto.v takes;
* independent oracles: raw h5py reading of a data file, a DigitalRFReader pass, lsdrf.
"""
import calendar
import json
import os
import re
import shutil
import subprocess
import time

import common

CDRIVER = os.path.join(common.VERIF, "harness", "cdriver")
CH = "ch0"
_shim = None

CLOSE_APIS = {"H5Dclose", "H5Fclose", "H5Sclose", "H5Pclose", "H5Tclose", "H5Aclose", "H5Gclose"}
KINDS = {"mkdir": 1, "probe": 2, "create_excl": 3, "create_trunc": 4, "write": 5, "truncate": 6, "close": 7,
         "rename": 8, "unlink": 9}
KIND_NAMES = {v: k for k, v in KINDS.items()}
ENOSPC, EIO = 28, 5


def build_shim():
    global _shim
    if _shim:
        return _shim
    d = common.scratch_dir("fsshim-")
    so = os.path.join(d, "fsshim.so")
    p = subprocess.run(["gcc", "-O1", "-g", "-shared", "-fPIC", "-w", "-o", so, os.path.join(CDRIVER, "fsshim.c"),
                        "-ldl"], capture_output=True, text=True)
    if p.returncode != 0:
        raise common.Broken("fsshim.c does not compile:\n" + p.stderr[-2000:])
    _shim = so
    return so


# --------------------------------------------------------------------------- recordings

def spec(writes, dtype="i2", srn=100, srd=1, file_cadence_ms=1000, subdir_cadence=2, start_sec=1500000000,
         continuous=0, nsub=1, is_complex=0, compression=0, checksum=0, name="", deep=0):
    """deep=1: the recording is made under a channel directory whose path is more than 300 characters long
    (well inside the library's 1024-character limit)"""
    return {"name": name, "deep": deep, "dtype": dtype, "srn": srn, "srd": srd, "file_cadence_ms": file_cadence_ms,
            "subdir_cadence": subdir_cadence, "start": -(-start_sec * srn // srd), "continuous": continuous,
            "nsub": nsub, "is_complex": is_complex, "compression": compression, "checksum": checksum,
            "writes": [list(w) for w in writes]}


def val(g, dtype="i2"):
    """sample value at channel-relative index g (same formula as cdriver/proto_writer.py)"""
    if dtype[-2] == "f":
        return (g % 1000003) + 0.5
    return (g * 7 + 3) % 30000 + 1


def file_of(sp, g):
    """(sub-directory second, file millisecond) of relative sample g -- exact integer arithmetic"""
    a = sp["start"] + g
    ms = a * sp["srd"] * 1000 // sp["srn"]
    fms = ms // sp["file_cadence_ms"] * sp["file_cadence_ms"]
    sec = a * sp["srd"] // sp["srn"]
    return sec // sp["subdir_cadence"] * sp["subdir_cadence"], fms


def next_file_start(sp, fms):
    """relative index of the first sample of the file after fms"""
    nxt = fms + sp["file_cadence_ms"]
    a = -(-nxt * sp["srn"] // (1000 * sp["srd"]))
    return a - sp["start"]


def parts_of(sp):
    """list of calls, each a list of pieces {d, k, g0, g1, tag}; tag = g1 (one past the last sample)"""
    calls = []
    for g0, n in sp["writes"]:
        ps = []
        g = g0
        while g < g0 + n:
            d, k = file_of(sp, g)
            g1 = min(g0 + n, next_file_start(sp, k))
            ps.append({"d": d, "k": k, "g0": g, "g1": g1, "tag": g1})
            g = g1
        calls.append(ps)
    return calls


class Samples:
    """a finite map relative sample index -> value, as two numpy arrays sorted by index"""

    def __init__(self, g=None, v=None):
        import numpy as np
        g = np.asarray(g if g is not None else [], dtype=np.int64)
        v = np.asarray(v if v is not None else [], dtype=np.float64)
        o = np.argsort(g, kind="stable")
        self.g, self.v = g[o], v[o]

    def __len__(self):
        return int(self.g.shape[0])

    def __eq__(self, other):
        import numpy as np
        return np.array_equal(self.g, other.g) and np.array_equal(self.v, other.v)

    def subset_of(self, other):
        import numpy as np
        if len(self) == 0:
            return True
        if len(other) == 0:
            return False
        i = np.searchsorted(other.g, self.g)
        i[i >= len(other)] = len(other) - 1
        return bool(np.all(other.g[i] == self.g) and np.all(other.v[i] == self.v))

    def union(self, other):
        import numpy as np
        return Samples(np.concatenate([self.g, other.g]), np.concatenate([self.v, other.v]))

    def has_dup(self):
        import numpy as np
        return bool(np.any(self.g[1:] == self.g[:-1]))

    def brief(self):
        if len(self) == 0:
            return "{}"
        return "{%d samples, index %d..%d, first values %s}" % (len(self), self.g[0], self.g[-1],
                                                               [float(x) for x in self.v[:3]])


def vals(g, dtype):
    import numpy as np
    g = np.asarray(g, dtype=np.int64)
    if dtype[-2] == "f":
        return (g % 1000003) + 0.5
    return ((g * 7 + 3) % 30000 + 1).astype(np.float64)


def content_of(sp, k, tag):
    """expected samples of file k holding the image tagged [tag]"""
    import numpy as np
    gs = []
    for call in parts_of(sp):
        for p in call:
            if p["k"] == k and p["g1"] <= tag:
                gs.append(np.arange(p["g0"], p["g1"], dtype=np.int64))
    g = np.concatenate(gs) if gs else np.zeros(0, dtype=np.int64)
    return Samples(g, vals(g, sp["dtype"]))


def written(sp, ncalls=None):
    """every sample of the first ncalls write calls"""
    import numpy as np
    ws = sp["writes"] if ncalls is None else sp["writes"][:ncalls]
    gs = [np.arange(g0, g0 + n, dtype=np.int64) for g0, n in ws]
    g = np.concatenate(gs) if gs else np.zeros(0, dtype=np.int64)
    return Samples(g, vals(g, sp["dtype"]))


# --------------------------------------------------------------------------- running the writer

def run_writer(sp, top, log=None, fail_at=0, errno=ENOSPC, persist=0, kill_at=0, snap_dir=None, step=None,
               timeout=120, popen=False, chan=None):
    """run one recording into <top>/<chan or ch0> (created here).  Returns (outcomes, returncode, stderr)."""
    chan = chan or CH
    os.makedirs(os.path.join(top, chan), exist_ok=True)
    env = common.impl_env()
    env["LD_PRELOAD"] = build_shim()
    env["FSSHIM_ROOT"] = top
    if log:
        env["FSSHIM_LOG"] = log
    if fail_at:
        env.update(FSSHIM_FAIL_AT=str(fail_at), FSSHIM_ERRNO=str(errno), FSSHIM_PERSIST=str(int(persist)))
    if kill_at:
        env["FSSHIM_KILL_AT"] = str(kill_at)
    if snap_dir:
        env.update(FSSHIM_SNAP_DIR=snap_dir, FSSHIM_SNAP_END="1")
    if step:
        env.update(FSSHIM_STEP_OUT=step[0], FSSHIM_STEP_IN=step[1])
    s2 = dict(sp)
    s2["chan"] = os.path.join(top, chan)
    cmd = [common.PYTHON, os.path.join(CDRIVER, "proto_writer.py"), json.dumps(s2)]
    if popen:
        return subprocess.Popen(cmd, env=env, stdout=subprocess.PIPE, stderr=subprocess.PIPE, text=True)
    p = subprocess.run(cmd, env=env, capture_output=True, text=True, timeout=timeout)
    return parse_outcomes(p.stdout), p.returncode, p.stderr


def parse_outcomes(stdout):
    out = []
    for ln in stdout.splitlines():
        try:
            out.append(json.loads(ln))
        except ValueError:
            pass
    return out


def parse_log(path, top):
    evs = []
    call = None
    if not os.path.exists(path):
        return evs
    for ln in open(path).read().splitlines():
        f = ln.split(" ")
        if len(f) < 11:
            continue
        e = {"n": int(f[0]), "kind": f[1], "ret": int(f[2]), "errno": int(f[3]), "inj": int(f[4]), "flags": int(f[5]),
             "nbytes": int(f[6]), "off": int(f[7]), "ctx": f[8], "api": f[9], "path": f[10],
             "path2": f[11] if len(f) > 11 else None}
        if e["kind"] == "mark":
            m = e["path"]
            if m.startswith("begin-"):
                call = m[6:]
            elif m.startswith("end-"):
                call = None
            continue
        e["call"] = call
        for key in ("path", "path2"):
            if e[key] and e[key].startswith(top):
                e[key] = os.path.relpath(e[key], top)
        evs.append(e)
    return evs


# --------------------------------------------------------------------------- real trace -> model operations

RE_DATA = re.compile(r"^(tmp\.)?rf@([0-9]+)\.([0-9]{3})\.h5$")
RE_SUB = re.compile(r"^([0-9]{4})-([0-9]{2})-([0-9]{2})T([0-9]{2})-([0-9]{2})-([0-9]{2})$")


def enc_path(rel):
    """path relative to the top directory -> the 4 integers of the model, or None"""
    if rel is None:
        return None
    comps = rel.split("/")
    if comps[0] != CH:
        return None
    comps = comps[1:]
    if comps == ["drf_properties.h5"]:
        return [0, 0, 0, 0]
    if comps == ["tmp.drf_properties.h5"]:
        return [0, 0, 1, 0]
    if len(comps) in (1, 2):
        m = RE_SUB.match(comps[0])
        if not m:
            return None
        d = calendar.timegm(tuple(int(x) for x in m.groups()) + (0, 0, 0))
        if len(comps) == 1:
            return [1, d, 0, 0]
        m = RE_DATA.match(comps[1])
        if not m:
            return None
        return [2, d, 1 if m.group(1) else 0, int(m.group(2)) * 1000 + int(m.group(3))]
    return None


def sub_name(d):
    t = time.gmtime(d)
    return "%04d-%02d-%02dT%02d-%02d-%02d" % (t.tm_year, t.tm_mon, t.tm_mday, t.tm_hour, t.tm_min, t.tm_sec)


def dec_path(p):
    """the 4 integers -> path relative to the top directory"""
    if p[0] == 0:
        return CH + "/" + ("tmp." if p[2] else "") + "drf_properties.h5"
    if p[0] == 1:
        return CH + "/" + sub_name(p[1])
    return "%s/%s/%srf@%d.%03d.h5" % (CH, sub_name(p[1]), "tmp." if p[2] else "", p[3] // 1000, p[3] % 1000)


O_ACCMODE, O_CREAT, O_EXCL, O_TRUNC = 3, 0o100, 0o200, 0o1000


def op_kind(e):
    k = e["kind"]
    if k == "open":
        fl = e["flags"]
        if fl & O_CREAT and fl & O_EXCL:
            return KINDS["create_excl"]
        if fl & (O_CREAT | O_TRUNC):
            return KINDS["create_trunc"]
        return KINDS["probe"]
    return {"mkdir": 1, "write": 5, "pwrite": 5, "ftruncate": 6, "close": 7, "rename": 8, "unlink": 9}.get(k)


def numbered(evs):
    return [e for e in evs if e["n"] > 0 and e["kind"] != "KILL"]


def real_ops(sp, evs):
    """numbered events -> list of (op as 10 ints, result) ; raises Unmapped for anything foreign"""
    last_tag = {}
    for call in parts_of(sp):
        for p in call:
            last_tag[p["k"]] = p["tag"]
    done_calls = call_order(sp)
    out = []
    for e in numbered(evs):
        kind = op_kind(e)
        a = enc_path(e["path"])
        b = enc_path(e["path2"]) if e["path2"] else [0, 0, 0, 0]
        if kind is None or a is None or b is None:
            raise Unmapped("operation outside the protocol vocabulary: %s %s %s" % (e["kind"], e["path"], e["path2"]))
        tag = 0
        if kind == 7 and a[0] == 2:
            tag = close_tag(sp, a[3], e["call"], done_calls)
        res = 0 if e["ret"] >= 0 else (-1 if e["inj"] else e["errno"])
        out.append(([kind] + a + b + [tag], res))
    return out


class Unmapped(Exception):
    pass


def call_order(sp):
    return ["write%d" % i for i in range(len(sp["writes"]))] + ["close"]


def close_tag(sp, k, call, order):
    """image a close(2) of the file k completes when it happens during [call]: every piece of
    k from calls up to and including that one"""
    upto = order.index(call) if call in order else len(order)
    tag = 0
    for j, c in enumerate(parts_of(sp)):
        if j <= upto:
            for p in c:
                if p["k"] == k:
                    tag = p["tag"]
    return tag


def phase_of(e):
    if e["api"] == "H5Fcreate":
        return 0
    if e["api"] == "H5Dwrite":
        return 3 if e["ctx"] == "digital_rf_write_rf_data_index" else 2
    if e["api"] in CLOSE_APIS:
        return None
    return 1


def recording_of(sp, evs):
    """abstract recording (the integer list of Extract/ProtoRunner.v) from the parameters and
    the labels of a fault-free log"""
    pc, pl = [], []
    pre = {}
    close = {}
    calls = parts_of(sp)
    for e in numbered(evs):
        kind = op_kind(e)
        if kind not in (5, 6):
            continue
        a = enc_path(e["path"])
        low = 0 if kind == 5 else 1
        if a is None:
            continue
        if a[0] == 0:
            (pc if e["api"] == "H5Fcreate" else pl).append(low)
        elif a[0] == 2:
            ph = phase_of(e)
            if ph is None:
                close.setdefault(a[3], []).append(low)
            else:
                pre.setdefault((e["call"], a[3]), []).append((low, ph))
    out = [len(pc)] + pc + [len(pl)] + pl + [len(calls)]
    for j, c in enumerate(calls):
        out.append(len(c))
        for p in c:
            pr = pre.get(("write%d" % j, p["k"]), [])
            cl = close.get(p["k"], [])
            out += [p["d"], p["k"], p["tag"], len(pr)]
            for low, ph in pr:
                out += [low, ph]
            out += [len(cl)] + cl
    return out


def model_run(vp, vc, fault_at, persist, rec):
    """-> dict(init, outs, hf, ud, events=[(op10, res, node_src, node_dst)])"""
    r = common.run_model("proto", [[1, vp, vc, fault_at, int(persist)] + rec])[0]
    return decode_run(r)


def decode_run(r):
    init = r[0]
    n = r[1]
    outs = r[2:2 + n]
    hf, ud, ne = r[2 + n:5 + n]
    evs = []
    base = 5 + n
    for i in range(ne):
        c = r[base + 15 * i: base + 15 * (i + 1)]
        evs.append((c[:10], c[10], c[11:13], c[13:15]))
    return {"init": init, "outs": outs, "hf": hf, "ud": ud, "events": evs}


def final_nodes(mr):
    """final model state on every path the run touched: {relative path: (code, tag)}"""
    st = {}
    for op, _res, nsrc, ndst in mr["events"]:
        st[dec_path(op[1:5])] = tuple(nsrc)
        if op[0] == 8:
            st[dec_path(op[5:9])] = tuple(ndst)
    return st


def show_op(op):
    s = "%s %s" % (KIND_NAMES.get(op[0], op[0]), dec_path(op[1:5]))
    if op[0] == 8:
        s += " -> " + dec_path(op[5:9])
    if op[0] == 7:
        s += " [image %d]" % op[9]
    return s


# --------------------------------------------------------------------------- oracles on a tree

def not_fill(col, dtype):
    import numpy as np
    if dtype[-2] == "f":
        return ~np.isnan(col)
    return col != np.iinfo(np.dtype(dtype)).min


def read_raw(path, sp):
    """samples stored in one data file, through h5py only (fill values of continuous mode skipped)"""
    import h5py
    import numpy as np
    with h5py.File(path, "r") as f:
        data = f["rf_data"][...]
        idx = f["rf_data_index"][...]
    if data.dtype.names:
        data = data["r"]
    n = data.shape[0]
    col = data[:, 0] if data.ndim > 1 else data
    if idx.ndim != 2 or idx.shape[0] < 1:
        raise ValueError("empty rf_data_index")
    gs, vs = [], []
    for i in range(idx.shape[0]):
        g_abs, off = int(idx[i, 0]), int(idx[i, 1])
        stop = int(idx[i + 1, 1]) if i + 1 < idx.shape[0] else n
        if not (0 <= off <= stop <= n):
            raise ValueError("rf_data_index row %d out of range" % i)
        c = col[off:stop]
        keep = not_fill(c, sp["dtype"])
        gs.append((np.arange(off, stop, dtype=np.int64) - off + g_abs - sp["start"])[keep])
        vs.append(c[keep].astype(np.float64))
    return Samples(np.concatenate(gs), np.concatenate(vs))


def reader_pass(top, sp, reader=None, planned=False):
    """(reader, samples) through DigitalRFReader: bounds, then read of the whole span.  planned=True: the
    reader does not ask for the bounds but reads the whole planned span of the recording (first to last
    sample of all write calls), i.e. also where nothing exists yet"""
    import digital_rf
    import numpy as np
    r = reader or digital_rf.DigitalRFReader(top)
    if planned:
        b = (sp["start"] + min(g0 for g0, _n in sp["writes"]), sp["start"] + max(g0 + n for g0, n in sp["writes"]) - 1)
    else:
        b = r.get_bounds(CH)
    if b[0] is None or b[1] is None:
        return r, Samples()
    blocks = r.read(b[0], b[1], CH)
    gs, vs = [], []
    for s0, arr in blocks.items():
        col = arr[:, 0] if arr.ndim > 1 else arr
        if col.dtype.names:
            col = col["r"]
        if np.iscomplexobj(col):
            col = col.real
        keep = not_fill(col, sp["dtype"])
        gs.append((np.arange(col.shape[0], dtype=np.int64) + int(s0) - sp["start"])[keep])
        vs.append(col[keep].astype(np.float64))
    out = Samples(np.concatenate(gs), np.concatenate(vs)) if gs else Samples()
    if reader is not None and not planned and gs:
        # a monitor's poll: properties at the newest sample, then the same read again -- a long-lived reader must
        # return the same thing (its cached file handle is its own business)
        r.get_properties(CH, sample=int(b[1]))
        again = r.read(b[0], b[1], CH)
        if sorted(int(k) for k in again) != sorted(int(k) for k in blocks) or \
                any(len(again[k]) != len(blocks[k]) for k in blocks):
            raise IOError("the same read repeated after get_properties(sample=...) returned different blocks")
    return r, out


def tree_files(top):
    out = []
    for root, dirs, files in os.walk(top):
        for f in files:
            out.append(os.path.relpath(os.path.join(root, f), top))
    return sorted(out)


def tree_dirs(top):
    out = []
    for root, dirs, files in os.walk(top):
        for d in dirs:
            out.append(os.path.relpath(os.path.join(root, d), top))
    return sorted(out)


def is_final_data(rel):
    b = os.path.basename(rel)
    return bool(RE_DATA.match(b)) and not b.startswith("tmp.")


def grammar_check(res, names_tmp, names_final):
    """the model's fact `a name is ignored iff it starts with "tmp."`, against the real regexes"""
    from digital_rf import list_drf
    base_regs = [list_drf._RE_DRFFILE, list_drf._RE_FILE, list_drf._RE_DMDFILE, list_drf._RE_DRFPROPFILE,
                 list_drf._RE_PROPFILE]
    path_regs = [re.compile(list_drf.RE_DRF), re.compile(list_drf.RE_DRFPROP), re.compile(list_drf.RE_DRFDMD),
                 re.compile(list_drf.RE_DRFDMDPROP), re.compile(list_drf.RE_DMD)]
    for nm in sorted(names_tmp):
        hits = [(nm, rg) for rg in base_regs if rg.match(nm)]
        for full in ("/x/ch/" + nm, "/x/ch/2017-07-14T02-40-00/" + nm):
            hits += [(full, rg) for rg in path_regs if rg.match(full)]
        for full, rg in hits:
            res.violation("tmp-name-matches-grammar", "a tmp.-prefixed name is accepted by a listing/reader regex",
                          {"name": full, "regex": rg.pattern}, "no match", "match")
    for nm in sorted(names_final):
        if not list_drf._RE_DRFFILE.match(nm):
            res.disagree("final data name not accepted by _RE_DRFFILE", nm, "match", "no match")
    res.count("grammar_names_checked", len(names_tmp) + len(names_final))


def basename_tie(res, rels):
    """model's printing of file names (vm_compute inside Coq) vs the names the real writer used"""
    rels = sorted(r for r in set(rels) if r and enc_path(r) and enc_path(r)[0] != 1)
    if not rels:
        return

    def term(p):
        if p[0] == 0:
            return "codes (basename (PProps %s))" % ("true" if p[2] else "false")
        return "codes (basename (PData (%d) %s (%d)))" % (p[1], "true" if p[2] else "false", p[3])
    out = common.run_model_vm("From DRF Require Import Base.Dec Base.Fs.", [term(enc_path(r)) for r in rels])
    for r, codes in zip(rels, out):
        name = "".join(chr(c) for c in codes)
        if name != os.path.basename(r):
            res.disagree("model basename differs from the writer's", r, name, os.path.basename(r))
    res.count("basenames_compared", len(rels))


# --------------------------------------------------------------------------- fault-free baseline + trace tie

class Baseline:
    pass


def enc_ops(ops):
    out = [len(ops)]
    for o in ops:
        out += o
    return out


def baseline(res, sp, snapshots=False):
    """fault-free run of one recording; ties the logged trace to the model (trace equality under
    exactly one properties-file variant, acceptance by the protocol acceptor, names)."""
    b = Baseline()
    b.sp = sp
    b.work = common.scratch_dir("proto-")
    b.top = os.path.join(b.work, "top")
    if sp.get("deep"):
        b.top = os.path.join(b.work, "d" * 100, "e" * 100, "f" * 70, "top")
        os.makedirs(os.path.dirname(b.top))
    b.log = os.path.join(b.work, "log.txt")
    b.snap = os.path.join(b.work, "snap") if snapshots else None
    if b.snap:
        os.makedirs(b.snap)
    b.outcomes, rc, err = run_writer(sp, b.top, log=b.log, snap_dir=b.snap)
    b.evs = parse_log(b.log, b.top)
    b.n = len(numbered(b.evs))
    bad = [o for o in b.outcomes if not o["ok"]]
    if rc != 0 or bad or not b.outcomes or b.outcomes[-1]["call"] != "end":
        res.disagree("fault-free recording did not complete", sp, None, {"rc": rc, "outcomes": b.outcomes,
                                                                       "stderr": err[-500:]})
    try:
        b.ops = real_ops(sp, b.evs)
    except Unmapped as e:
        res.disagree("writer trace leaves the protocol vocabulary", sp["name"], None, str(e))
        b.ops = None
        return b
    b.rec = recording_of(sp, b.evs)
    # which properties-file variant does the code implement?  exactly one must reproduce the trace
    agree = []
    b.diffs = {}
    for vp in (0, 1):
        mr = model_run(vp, 0, 0, 0, b.rec)
        mt = [(op, r) for op, r, _a, _b in mr["events"]]
        if mt == b.ops and mr["init"] == 1 and all(mr["outs"]):
            agree.append(vp)
            b.model = mr
        else:
            i = 0
            while i < min(len(mt), len(b.ops)) and mt[i] == b.ops[i]:
                i += 1
            b.diffs[vp] = {"first_difference_at_op": i + 1,
                           "model": show_op(mt[i][0]) + " -> %d" % mt[i][1] if i < len(mt) else None,
                           "impl": show_op(b.ops[i][0]) + " -> %d" % b.ops[i][1] if i < len(b.ops) else None,
                           "model_len": len(mt), "impl_len": len(b.ops)}
    b.vp = agree[0] if len(agree) == 1 else None
    if b.vp is None:
        res.disagree("logged trace equals the model trace under no properties-file variant (Direct/Staged)",
                     sp["name"], b.diffs, [show_op(o) + " -> %d" % r for o, r in b.ops][:80])
    res.count("variant_props_" + {0: "Direct", 1: "Staged", None: "none"}[b.vp])
    # the protocol acceptor (extracted) on the REAL trace, under the variant found (else both)
    b.accepted = {}
    for vp in ((b.vp,) if b.vp is not None else (0, 1)):
        acc, n = common.run_model("proto", [[2, vp] + enc_ops([o for o, _ in b.ops])])[0]
        b.accepted[vp] = acc
    if all(a < len(b.ops) for a in b.accepted.values()):
        a = max(b.accepted.values())
        res.disagree("logged trace is rejected by the publication protocol (proto_ok)", sp["name"],
                     "accepted", {"rejected_at_op": a + 1, "op": show_op(b.ops[a][0])})
        b.rejected_at = a + 1
    else:
        b.rejected_at = None
    # the existence test of the final name must precede the creation of each tmp data file
    seen_access = set()
    for e in b.evs:
        if e["kind"] == "access":
            seen_access.add(e["path"])
        if e["n"] > 0 and op_kind(e) in (3, 4):
            p = enc_path(e["path"])
            if p and p[0] == 2:
                fin = dec_path([2, p[1], 0, p[3]])
                if fin not in seen_access:
                    res.disagree("data file created without testing that the final name is free", sp["name"],
                                 "access(%s) before create" % fin, "none")
    if not res.extra.get("vm_checked") and b.vp is not None:
        # guard the extraction: the same model run evaluated by vm_compute inside Coq
        args = [1, b.vp, 0, 0, 0] + b.rec
        vm = common.run_model_vm("From DRF Require Import Extract.ProtoRunner.",
                                 ["DRF.Extract.ProtoRunner.run 1 [%s]" % "; ".join(str(x) for x in args[1:])])
        ex = common.run_model("proto", [args])
        res.count("vm_compute_crosscheck")
        res.extra["vm_checked"] = True
        if vm != ex:
            res.disagree("extracted OCaml vs vm_compute (model run of %s)" % sp["name"], None, None, None)
    basename_tie(res, [e["path"] for e in numbered(b.evs)] + [e["path2"] for e in numbered(b.evs) if e["path2"]])
    res.extra["traces_validated_against_impl"] = res.extra.get("traces_validated_against_impl", 0) + 1
    res.count("trace_ops", b.n)
    return b


def model_states(b):
    """model crash states: list over i = 0..n of {relative path: (code, tag)}"""
    ops = [o for o, _ in b.ops]
    paths = []
    for o in ops:
        for p in (o[1:5], o[5:9]) if o[0] == 8 else (o[1:5],):
            if p not in paths:
                paths.append(p)
    flat = common.run_model("proto", [[3] + enc_ops(ops) + [len(paths)] + [x for p in paths for x in p]])[0]
    per = 2 * len(paths)
    out = []
    for i in range(len(ops) + 1):
        row = flat[i * per:(i + 1) * per]
        out.append({dec_path(p): (row[2 * j], row[2 * j + 1]) for j, p in enumerate(paths)})
    return out


def tree_digest(top):
    import hashlib
    out = {}
    for f in tree_files(top):
        out[f] = hashlib.sha1(open(os.path.join(top, f), "rb").read()).hexdigest()
    for d in tree_dirs(top):
        out[d + "/"] = "dir"
    return out


def tree_shape(top):
    """names and sizes (HDF5 files carry time stamps, so bytes differ from run to run)"""
    out = {f: os.path.getsize(os.path.join(top, f)) for f in tree_files(top)}
    for d in tree_dirs(top):
        out[d + "/"] = "dir"
    return out


# --------------------------------------------------------------------------- restart after a kill (C02 / C09)

def merged(a, b):
    """union of two sample maps that agree where they overlap, without duplicates"""
    import numpy as np
    u = a.union(b)
    if len(u) == 0:
        return u
    keep = np.concatenate([[True], u.g[1:] != u.g[:-1]])
    return Samples(u.g[keep], u.v[keep])


def stale_tmp_points(b):
    """[(operation number i, tmp data file)]: a kill before operation i leaves that tmp.rf@X.h5 behind"""
    states = model_states(b)
    out = []
    for i in range(1, b.n + 1):
        tmps = sorted(p for p, (c, _t) in states[i - 1].items()
                      if c in (2, 3, 4) and (enc_path(p) or [0])[0] == 2 and enc_path(p)[2] == 1)
        if tmps:
            out.append((i, tmps[0]))
    return out


def restart_spec(sp, tmp_rel, later):
    """the recording of a restarted writer (same parameters): its first write starts in the file period of
    the leftover tmp file; with [later] a second write goes into a free period after everything recorded"""
    k = enc_path(tmp_rel)[3]
    pieces = [p for c in parts_of(sp) for p in c if p["k"] == k]
    g0 = pieces[0]["g0"]
    writes = [[g0, max(1, min(pieces[0]["g1"] - g0, 20))]]
    if later:
        lastk = max(p["k"] for c in parts_of(sp) for p in c)
        writes.append([next_file_start(sp, lastk + sp["file_cadence_ms"]), 30])
    s2 = dict(sp)
    s2.pop("apis", None)
    s2["writes"] = writes
    s2["name"] = sp["name"] + ("-restart-then-later-period" if later else "-restart")
    return s2


def restart_after_kill(res, sp, i, tmp_rel, later, concurrent, verbose=False):
    """The recorder of [sp] is killed before its operation i (leaving tmp_rel); a NEW writer subprocess with the
    same parameters is started on the same channel directory, its first write falling into the file period of the
    leftover tmp file; it is closed (variant [later]: after one more write into a later, free period).
    Oracles: every final-named data file is a whole file holding only written samples; the bytes of the files
    finalized before the restart are unchanged; a fresh reader (and, with [concurrent], a reader opened before
    the restart, both polled before every file-system operation of the restarted writer) never fails and returns
    exactly the finalized samples; nothing readable disappears; lsdrf lists no tmp. file; an accepted write is
    readable after close.  The model's prediction (Properties/C02.v, C02_restart_over_stale_tmp: every write of the
    restarted session is refused, no final name changes, the stale file is removed by close) is compared too."""
    import digital_rf
    from digital_rf import list_drf
    work = common.scratch_dir("restart-")
    top = os.path.join(work, "top")
    outc, rc, err = run_writer(sp, top, kill_at=i)
    sp2 = restart_spec(sp, tmp_rel, later)
    variant = "refused-write-then-later-period-then-close" if later else "refused-write-then-close"
    inp = {"recording": sp["name"], "spec": sp, "kill_before_op": i, "stale_tmp": tmp_rel, "restart_spec": sp2,
           "variant": variant, "concurrent_readers": bool(concurrent), "label": "restart-after-kill"}
    if rc != 137 or not os.path.exists(os.path.join(top, tmp_rel)):
        res.disagree("kill point does not leave the tmp data file the model predicts", inp, tmp_rel,
                     {"rc": rc, "files": tree_files(top)})
        return
    allw = merged(written(sp), written(sp2))
    files_before = tree_files(top)
    digest_before = {f: h for f, h in tree_digest(top).items() if is_final_data(f)}
    stale_final = dec_path([2, enc_path(tmp_rel)[1], 0, enc_path(tmp_rel)[3]])
    fin_before = Samples()
    for f in files_before:
        if is_final_data(f):
            try:
                fin_before = fin_before.union(read_raw(os.path.join(top, f), sp))
            except Exception:  # noqa  (reported by the crash-point oracle of C02)
                pass
    readers = {"fresh": None}
    prev = {"fresh": fin_before}
    if concurrent:
        try:
            readers["long-lived"], prev["long-lived"] = reader_pass(top, sp)
        except Exception as e:  # noqa
            res.violation("reader-fails-after-kill", "DigitalRFReader fails on the tree a kill leaves", inp,
                          "the finalized samples", repr(e)[:200])
            prev["long-lived"] = fin_before

    def poll(stage):
        inp2 = dict(inp, stage=stage)
        finals, bad = Samples(), []
        for f in tree_files(top):
            if is_final_data(f):
                try:
                    finals = finals.union(read_raw(os.path.join(top, f), sp))
                except Exception as e:  # noqa
                    bad.append(f)
                    stale = (f == stale_final and f not in files_before)
                    res.violation("stale-tmp-published-by-restart" if stale else "final-data-file-unreadable",
                                  ("the in-progress file a killed recorder left behind (%s) was renamed to its final name by "
                                   "the restarted writer although nobody completed it" % tmp_rel) if stale else
                                  "a data file under a final name is not a valid file after a restart", inp2,
                                  "every final-named file is a whole file", {"file": f, "error": repr(e)[:200]})
        if not finals.subset_of(allw) or finals.has_dup():
            res.violation("final-data-file-foreign-samples", "after a restart a final data file holds samples that were not "
                          "written", inp2, "subset of the written samples", finals.brief())
        for kind in list(readers):
            try:
                r, seen = reader_pass(top, sp, reader=readers[kind])
                if kind == "fresh":
                    r.close()
            except Exception as e:  # noqa
                res.violation("reader-fails-after-restart", "a %s DigitalRFReader fails on the channel after a killed "
                              "recorder was restarted%s" % (kind, " (an incomplete file is under a final name)" if bad else ""),
                              inp2, "the finalized samples", repr(e)[:300])
                if kind != "fresh":
                    readers[kind] = None
                continue
            if not seen.subset_of(allw) or seen.has_dup():
                res.violation("reader-sees-unwritten", "after a restart a %s reader returned a value that was not written at "
                              "that index" % kind, inp2, "subset of written samples", seen.brief())
            if not bad and not (seen == finals):
                res.violation("reader-not-exactly-finalized", "after a restart a %s reader does not see exactly the finalized "
                              "files" % kind, inp2, finals.brief(), seen.brief())
            if not prev[kind].subset_of(seen):
                res.violation("visibility-shrinks", "samples readable before the restart are no longer readable or changed "
                              "(%s reader)" % kind, inp2, prev[kind].brief(), seen.brief())
            prev[kind] = seen
            res.count("restart_reader_passes")
        return finals, bad

    if concurrent:
        fo, fi = os.path.join(work, "out.fifo"), os.path.join(work, "in.fifo")
        os.mkfifo(fo)
        os.mkfifo(fi)
        proc = run_writer(sp2, top, step=(fo, fi), popen=True)
        rd = open(fo, "r")
        wr = open(fi, "w")
        try:
            while True:
                ln = rd.readline()
                if not ln:
                    break
                poll("before operation %d of the restarted writer" % int(ln))
                wr.write("x")
                wr.flush()
        finally:
            try:
                wr.close()
            except Exception:  # noqa
                pass
            rd.close()
            out, err2 = proc.communicate(timeout=60)
        outc2, rc2 = parse_outcomes(out), proc.returncode
    else:
        outc2, rc2, err2 = run_writer(sp2, top)
    oc = {o["call"]: o for o in outc2}
    if "end" not in oc or not oc.get("init", {}).get("ok"):
        res.disagree("restarted writer did not run to its end", inp, "init ok ... end", {"rc": rc2, "outcomes": outc2,
                                                                                       "stderr": err2[-300:]})
    finals, bad = poll("after the restarted writer was closed")
    wouts = [oc.get("write%d" % j, {}).get("ok") for j in range(len(sp2["writes"]))]
    # finalized files: bytes unchanged
    after = tree_digest(top)
    changed = sorted(f for f, h in digest_before.items() if after.get(f) != h)
    if changed:
        res.violation("finalized-file-modified", "a data file finalized before the kill was modified or replaced by the "
                      "restarted writer", inp, "bytes unchanged", changed)
    # accepted => readable
    import numpy as np
    for j, ok in enumerate(wouts):
        if ok:
            g = np.arange(sp2["writes"][j][0], sp2["writes"][j][0] + sp2["writes"][j][1], dtype=np.int64)
            if not Samples(g, vals(g, sp["dtype"])).subset_of(prev["fresh"]):
                res.violation("restart-accepted-write-not-readable", "a write the restarted writer accepted is not readable "
                              "after close", inp, "readable", {"write": sp2["writes"][j], "seen": prev["fresh"].brief()})
    # listing
    try:
        listed = sorted(os.path.relpath(x, top) for x in list_drf.lsdrf(top, include_dmd=False))
        want = sorted(f for f in tree_files(top) if not os.path.basename(f).startswith("tmp."))
        if [x for x in listed if os.path.basename(x).startswith("tmp.")]:
            res.violation("listing-shows-tmp", "lsdrf lists a tmp. file after a restart", inp, want, listed)
        elif listed != want:
            res.violation("listing-misses-final", "lsdrf does not list exactly the final-named files after a restart", inp,
                          want, listed)
    except Exception as e:  # noqa
        res.violation("listing-fails-after-kill", "lsdrf raises on the tree after a restart", inp, "a listing", repr(e)[:200])
    # the model's prediction for the code as it is (theorem C02_restart_over_stale_tmp)
    files_after = tree_files(top)
    predicted = sorted(f for f in files_before if f != tmp_rel)
    if any(wouts) or files_after != predicted:
        res.disagree("restart over a leftover tmp file: outcome differs from the model (every write refused, no final "
                     "name appears or changes, the leftover file is removed by close)", inp,
                     {"writes": [False] * len(wouts), "files": predicted}, {"writes": wouts, "files": files_after})
    res.count("restart_sessions")
    res.count("restart_" + variant)
    res.case(("restart-after-kill", sp["name"], i, variant, bool(concurrent)), nontrivial=True)
    if verbose:
        print("recorder killed before its operation %d, leaving %s" % (i, tmp_rel))
        print("restarted writer (%s): %s" % (variant, [(o["call"], o["ok"], o.get("exc", "")[:80]) for o in outc2]))
        for f in files_after:
            print("   %s %d%s" % (f, os.path.getsize(os.path.join(top, f)),
                                  "   <-- NOT A VALID FILE" if f in bad else ""))
    shutil.rmtree(work, True)


def replay_restart(res, rp):
    inp = rp["input"]
    restart_after_kill(res, inp["spec"], inp["kill_before_op"], inp["stale_tmp"], "later" in inp["variant"],
                       inp.get("concurrent_readers"), verbose=True)
    for v in res.violations:
        print("VIOLATED now: [%s] %s | observed: %s" % (v["signature"], v["title"], str(v["observed"])[:300]))
    for d in res.broken:
        print("differs from the model now:", str(d)[:400])
    print("expected:", rp.get("expected"), "| observed then:", rp.get("observed"))
    return 0


def restart_points(res, b, n):
    """n kill points inside data files: the first (just created), the last before a rename, random ones between"""
    pts = stale_tmp_points(b)
    if res.tier != "quick" or len(pts) <= n:
        return pts
    mid = pts[1:-1]
    res.rng.shuffle(mid)
    return sorted([pts[0], pts[-1]] + mid[:max(0, n - 2)])
