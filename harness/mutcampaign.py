"""Mutation campaign: systematic small mutants of named functions of /repo, each run through the
listed checks in an isolated scratch worktree (never in /repo).  Measures how sensitive the checks are
and points at blind spots; the outcome is stored in seeded/own/campaign_<name>.json.

usage: mutcampaign.py <name> <file> <function>[,<function>...] <props comma list> [--max N] [--jobs J] [--seed S]

Mutation operators (token level, comments and string literals skipped):
  relational  <  <->  <=,  >  <->  >=,  ==  <->  !=
  logical     &&  <->  ||            (C)      and <-> or (Python)
  arithmetic  + 1 / - 1 dropped, + <-> - between identifiers/numbers
A mutant that does not compile (gcc / py_compile) is discarded.  Equivalent mutants are possible;
survivors are listed for inspection.
"""
import argparse
import json
import os
import random
import re
import shutil
import subprocess
import sys
import tempfile
from concurrent.futures import ThreadPoolExecutor

V = os.path.dirname(os.path.dirname(os.path.abspath(__file__)))


def sh(cmd, **kw):
    return subprocess.run(cmd, shell=True, capture_output=True, text=True, **kw)


def func_range(lines, fname, is_py):
    if is_py:
        start = None
        for i, ln in enumerate(lines):
            m = re.match(r"^(\s*)def %s\(" % re.escape(fname), ln)
            if m:
                start, ind = i, len(m.group(1))
                break
        if start is None:
            raise SystemExit("function %s not found" % fname)
        end = len(lines)
        for j in range(start + 1, len(lines)):
            if lines[j].strip() and (len(lines[j]) - len(lines[j].lstrip())) <= ind and not lines[j].lstrip().startswith(("#", ")")):
                end = j
                break
        return start, end
    start = None
    for i, ln in enumerate(lines):
        if re.match(r"^[A-Za-z_][\w\s\*]*\b%s\s*\(" % re.escape(fname), ln) and not ln.rstrip().endswith(";"):
            start = i
            break
    if start is None:
        raise SystemExit("function %s not found" % fname)
    for j in range(start + 1, len(lines)):
        if lines[j].startswith("}"):
            return start, j + 1
    raise SystemExit("end of %s not found" % fname)


def code_spans(line, is_py, state):
    """yield (start, end) spans of the line that are code (not comment / string); state['c'] tracks /* */"""
    out, i, n = [], 0, len(line)
    cur = None
    while i < n:
        if state.get("c"):
            j = line.find("*/", i)
            if j < 0:
                i = n
            else:
                state["c"] = False
                i = j + 2
            continue
        ch = line[i]
        two = line[i:i + 2]
        if not is_py and two == "/*":
            if cur is not None:
                out.append((cur, i))
                cur = None
            state["c"] = True
            i += 2
            continue
        if (not is_py and two == "//") or (is_py and ch == "#"):
            break
        if ch in "\"'":
            if cur is not None:
                out.append((cur, i))
                cur = None
            q = ch
            i += 1
            while i < n and line[i] != q:
                i += 2 if line[i] == "\\" else 1
            i += 1
            continue
        if cur is None:
            cur = i
        i += 1
    else:
        i = n
    if cur is not None:
        out.append((cur, min(i, n)))
    return out


C_OPS = [(r"(?<![<>=!\-])<=(?!=)", "<"), (r"(?<![<>=!\-])>=(?!=)", ">"), (r"(?<![<\-])<(?![<=])", "<="), (r"(?<![>\-])>(?![>=])", ">="),
         (r"==", "!="), (r"!=", "=="), (r"&&", "||"), (r"\|\|", "&&"),
         (r"(?<=[\w\)\]])\s*\+\s*1\b(?!\s*[\.\d])", ""), (r"(?<=[\w\)\]])\s*-\s*1\b(?!\s*[\.\d])", ""),
         (r"(?<=[\w\)\]])\s\+\s(?=[\w\(])", " - "), (r"(?<=[\w\)\]])\s-\s(?=[\w\(])", " + ")]
PY_OPS = [(r"(?<![<>=!])<=(?!=)", "<"), (r"(?<![<>=!])>=(?!=)", ">"), (r"(?<![<])<(?![<=])", "<="), (r"(?<![>\-])>(?![>=])", ">="),
          (r"==", "!="), (r"!=", "=="), (r"\band\b", "or"), (r"\bor\b", "and"),
          (r"(?<=[\w\)\]])\s*\+\s*1\b(?!\s*[\.\d])", ""), (r"(?<=[\w\)\]])\s*-\s*1\b(?!\s*[\.\d])", ""),
          (r"(?<=[\w\)\]])\s\+\s(?=[\w\(])", " - "), (r"(?<=[\w\)\]])\s-\s(?=[\w\(])", " + ")]


def mutants_of(path, funcs, is_py):
    lines = open(path).read().split("\n")
    out = []
    for fn in funcs:
        a, b = func_range(lines, fn, is_py)
        state = {}
        in_doc = False
        for li in range(a, b):
            ln = lines[li]
            if is_py:
                q = ln.count('"""') + ln.count("'''")
                if in_doc or q:
                    if q % 2 == 1:
                        in_doc = not in_doc
                    continue
            if not is_py and ("fprintf" in ln or "snprintf" in ln or "error_str" in ln):
                code_spans(ln, is_py, state)
                continue
            for (s, e) in code_spans(ln, is_py, state):
                seg = ln[s:e]
                for pat, rep in (PY_OPS if is_py else C_OPS):
                    for m in re.finditer(pat, seg):
                        new = ln[:s + m.start()] + rep + ln[s + m.end():]
                        if new != ln:
                            out.append(dict(func=fn, line=li + 1, old=ln.strip(), new=new.strip(), _new=new))
    return out


def run_one(idx, mut, relfile, props, is_py):
    wt = "/tmp/mutcamp_%d_%d" % (os.getpid(), idx)
    sh("git -C /repo worktree remove --force %s; rm -rf %s; git -C /repo worktree add -q %s HEAD" % (wt, wt, wt))
    res = {k: mut[k] for k in ("func", "line", "old", "new")}
    try:
        f = os.path.join(wt, relfile)
        lines = open(f).read().split("\n")
        lines[mut["line"] - 1] = mut["_new"]
        open(f, "w").write("\n".join(lines))
        if is_py:
            c = sh("/venv/bin/python -m py_compile %s" % f)
        else:
            c = sh("gcc -fsyntax-only -w -I%s/c/include -I/usr/include/hdf5/serial -I/root/.pyenv/versions/3.12.1/include/python3.12 "
                   "-I/venv/lib/python3.12/site-packages/numpy/_core/include %s" % (wt, f))
        if c.returncode != 0:
            res["discarded"] = "does not compile"
            return res
        priv = tempfile.mkdtemp(prefix="mutpriv-")
        sh("cp -r %s/coq %s/coq" % (V, priv))
        os.makedirs(os.path.join(priv, "build"))
        os.makedirs(os.path.join(priv, "evidence"))
        res["checks"] = {}
        for p in props:
            env = dict(os.environ, DRF_REPO=wt, DRF_COQ=os.path.join(priv, "coq"), DRF_BUILD=os.path.join(priv, "build"),
                       DRF_EVIDENCE=os.path.join(priv, "evidence"))
            try:
                c = subprocess.run(["bash", "-c", "ulimit -v 24000000; exec timeout -k 10 900 ./check %s --tier quick" % p],
                                   capture_output=True, text=True, env=env, cwd=V)
                lines_ = [ln for ln in c.stdout.splitlines() if ln.startswith(("VIOLATION", "OK ", "KNOWN-FINDING"))]
                sig = [re.sub(r".*replay/", "", ln.split("replay=")[1]) for ln in lines_ if "replay=" in ln][:2]
                res["checks"][p] = {"exit": c.returncode, "first": sig}
            except Exception as e:  # noqa
                res["checks"][p] = {"exit": -9, "first": [repr(e)[:100]]}
            if res["checks"][p]["exit"] == 1:
                break                                   # killed: no need to run the other checks
        res["killed"] = any(v["exit"] == 1 for v in res["checks"].values())
        shutil.rmtree(priv, True)
    finally:
        sh("git -C /repo worktree remove --force %s; rm -rf %s" % (wt, wt))
    return res


def main():
    ap = argparse.ArgumentParser()
    ap.add_argument("name")
    ap.add_argument("file")
    ap.add_argument("funcs")
    ap.add_argument("props")
    ap.add_argument("--max", type=int, default=30)
    ap.add_argument("--jobs", type=int, default=4)
    ap.add_argument("--seed", type=int, default=1)
    a = ap.parse_args()
    is_py = a.file.endswith(".py")
    muts = mutants_of(os.path.join("/repo", a.file), a.funcs.split(","), is_py)
    rng = random.Random(a.seed)
    rng.shuffle(muts)
    muts = muts[:a.max]
    props = a.props.split(",")
    with ThreadPoolExecutor(max_workers=a.jobs) as ex:
        results = list(ex.map(lambda im: run_one(im[0], im[1], a.file, props, is_py), enumerate(muts)))
    valid = [r for r in results if "discarded" not in r]
    killed = [r for r in valid if r.get("killed")]
    out = {"file": a.file, "functions": a.funcs.split(","), "props": props, "repo_head": sh("git -C /repo rev-parse --short HEAD").stdout.strip(),
           "generated": len(results), "compiled": len(valid), "killed": len(killed),
           "survivors": [r for r in valid if not r.get("killed")], "killed_list": killed}
    json.dump(out, open(os.path.join(V, "seeded", "own", "campaign_%s.json" % a.name), "w"), indent=1)
    print("%s: %d mutants, %d compile, %d killed, %d survive" % (a.name, len(results), len(valid), len(killed), len(valid) - len(killed)))
    for r in out["survivors"]:
        print("  SURVIVOR %s:%d  %s   ==>   %s" % (r["func"], r["line"], r["old"][:90], r["new"][:90]))


if __name__ == "__main__":
    main()
