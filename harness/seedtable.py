"""Print the markdown table of seeded changes from seeded/*/meta.json (for DESIGN.md section 0.4)."""
import glob
import json
import os

V = os.path.dirname(os.path.dirname(os.path.abspath(__file__)))
rows = []
for d in sorted(glob.glob(os.path.join(V, "seeded", "C*"))):
    mp = os.path.join(d, "meta.json")
    if not os.path.exists(mp):
        continue
    m = json.load(open(mp))
    ver = m.get("verification", {})
    hist = m.get("verification_history", [])
    first = (m.get("first_evaluation") or {}).get("checks") or (hist[0].get("checks") if hist else None) or ver.get("checks", {})
    now = ver.get("checks", {})

    def verdict(ch):
        out = []
        for p, r in ch.items():
            lines = r.get("lines", [])
            if r.get("exit") == 0:
                out.append("%s missed" % p)
            elif any("no-failing-input-found" in ln for ln in lines) and not any(("VIOLATION" in ln and "no-failing" not in ln) for ln in lines):
                out.append("%s alarm (no input)" % p)
            elif r.get("exit") == 1:
                out.append("%s concrete" % p)
            else:
                out.append("%s exit %s" % (p, r.get("exit")))
        return ", ".join(out)
    summ = str(m.get("summary", "")).replace("\n", " ").replace("|", "/")
    rows.append("| %s | %s | %s | %s | %s |" % (os.path.basename(d), summ[:170], "yes" if ver.get("confirmed") else "NO",
                                           verdict(first), verdict(now)))
print("| Seed | Change (the agent's own summary, truncated) | Confirmed | First evaluation | Final evaluation |")
print("|---|---|---|---|---|")
print("\n".join(rows))
