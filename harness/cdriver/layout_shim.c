/* Compiled on every run together with /repo/c/lib/rf_write_hdf5.c (textually included by the
   build command via -include), so that digital_rf_get_subdir_file can be called on a struct
   whose layout is the current header's. */
#include <string.h>
#include "digital_rf.h"

int shim_subdir_file(uint64_t start, uint64_t n, uint64_t d, uint64_t sc, uint64_t fc, uint64_t k,
                     char *subdir, char *basename, uint64_t *left, uint64_t *maxs)
{
	Digital_rf_write_object o;
	memset(&o, 0, sizeof(o));
	o.global_start_sample = start;
	o.sample_rate_numerator = n;
	o.sample_rate_denominator = d;
	o.sample_rate = (long double)n / (long double)d;
	o.subdir_cadence_secs = sc;
	o.file_cadence_millisecs = fc;
	return digital_rf_get_subdir_file(&o, k, subdir, basename, left, maxs);
}
