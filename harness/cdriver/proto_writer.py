"""Writer subprocess of the C02 / C09 / C10 checks (run under LD_PRELOAD=fsshim.so).
argv[1] = JSON spec.  Prints one JSON line per API call: {"call": name, "ok": bool, "exc": str}.
Sample value at channel-relative index g is val(g) (never the fill value, never 0)."""
import json
import os
import sys
import time

import numpy as np
import digital_rf


def val(g, dtype):
    if np.dtype(dtype).kind == "f":
        return (g % 1000003) + 0.5
    return (g * 7 + 3) % 30000 + 1


def main():
    sp = json.loads(sys.argv[1])
    out = sys.stdout

    def mark(text):
        os.access("/FSSHIM_MARK/" + text, os.F_OK)

    def say(name, ok, exc=""):
        mark("end-" + name)
        out.write(json.dumps({"call": name, "ok": ok, "exc": exc}) + "\n")
        out.flush()

    if sp.get("with_style"):
        return with_style(sp, mark, say)
    mark("begin-init")
    try:
        w = digital_rf.DigitalRFWriter(
            sp["chan"], sp["dtype"], sp["subdir_cadence"], sp["file_cadence_ms"], sp["start"],
            sp["srn"], sp["srd"], uuid_str="proto", compression_level=sp.get("compression", 0),
            checksum=bool(sp.get("checksum", 0)), is_complex=bool(sp.get("is_complex", 0)),
            num_subchannels=sp.get("nsub", 1), is_continuous=bool(sp.get("continuous", 0)),
            marching_periods=False)
    except BaseException as e:  # noqa
        say("init", False, repr(e)[:200])
        say("end", True)
        return 0
    say("init", True)
    nsub = sp.get("nsub", 1)
    kept = []           # like a recorder that logs or queues its failures: the exceptions stay alive until after close
    for i, (g0, n) in enumerate(sp["writes"]):
        g = np.arange(g0, g0 + n, dtype=np.int64)
        a = val(g, sp["dtype"]).astype(sp["dtype"])
        if sp.get("is_complex"):
            a = np.stack([a, a], axis=1)          # (n, 2) = real, imaginary parts; nsub is 1 for these
        elif nsub > 1:
            a = np.repeat(a[:, None], nsub, axis=1)
        mark("begin-write%d" % i)
        try:
            if (sp.get("apis") or [])[i:i + 1] == ["blocks"]:
                w.rf_write_blocks(a, [g0], [0])       # block entry point (digital_rf_write_blocks_hdf5)
            else:
                w.rf_write(a, g0)
            say("write%d" % i, True)
            if sp.get("sleep_ms"):
                time.sleep(sp["sleep_ms"] / 1000.0)
        except BaseException as e:  # noqa
            say("write%d" % i, False, repr(e)[:200])
            kept.append(e)
    mark("begin-close")
    try:
        w.close()
        say("close", True)
    except BaseException as e:  # noqa
        say("close", False, repr(e)[:200])
    say("end", True)
    return 0


def with_style(sp, mark, say):
    """the recorder in the documented context-manager form, without a try/except of its own around the calls: whatever
    a call raises leaves the with statement.  with_style == 2: the second call repeats the first (refused: ValueError)"""
    mark("begin-init")
    try:
        with digital_rf.DigitalRFWriter(
                sp["chan"], sp["dtype"], sp["subdir_cadence"], sp["file_cadence_ms"], sp["start"],
                sp["srn"], sp["srd"], uuid_str="proto", compression_level=sp.get("compression", 0),
                checksum=bool(sp.get("checksum", 0)), is_complex=bool(sp.get("is_complex", 0)),
                num_subchannels=sp.get("nsub", 1), is_continuous=bool(sp.get("continuous", 0)),
                marching_periods=False) as w:
            say("init", True)
            nsub = sp.get("nsub", 1)
            for i, (g0, n) in enumerate(sp["writes"]):
                g = np.arange(g0, g0 + n, dtype=np.int64)
                a = val(g, sp["dtype"]).astype(sp["dtype"])
                if sp.get("is_complex"):
                    a = np.stack([a, a], axis=1)
                elif nsub > 1:
                    a = np.repeat(a[:, None], nsub, axis=1)
                mark("begin-write%d" % i)
                w.rf_write(a, g0)
                say("write%d" % i, True)
                if sp["with_style"] == 2 and i == 0:
                    w.rf_write(a, g0)              # the same samples again: refused
                    say("rewrite-accepted", True)
            mark("begin-close")
            say("block-completed", True)
        say("after-with", True)
    except BaseException as e:  # noqa
        say("escaped", True, repr(e)[:200])
    say("end", True)
    return 0


if __name__ == "__main__":
    sys.exit(main())
