/* fsshim.c -- LD_PRELOAD interposer used by the C02 / C09 / C10 checks.
 *
 * Logs every file-system operation of the process that touches a path under FSSHIM_ROOT,
 * numbering the *mutating* operations 1, 2, 3, ... in issue order, and optionally
 *   - fails operation number FSSHIM_FAIL_AT with errno FSSHIM_ERRNO (default ENOSPC) without
 *     performing it (a failing close still releases the descriptor); with FSSHIM_PERSIST=1
 *     every later mutating operation fails as well;
 *   - terminates the process with _exit(137) just before operation number FSSHIM_KILL_AT
 *     (nothing is flushed: the same on-disk state a kill -9 at that point leaves);
 *   - single-steps: before each numbered operation writes "<n>\n" to the FIFO FSSHIM_STEP_OUT and
 *     blocks until a byte arrives on the FIFO FSSHIM_STEP_IN (a reader pass runs in between);
 *   - copies the tree under FSSHIM_ROOT to FSSHIM_SNAP_DIR/<n> just before operation n
 *     (and FSSHIM_SNAP_DIR/end at process exit when FSSHIM_SNAP_END=1).
 *
 * Environment:  FSSHIM_ROOT (required, absolute, no trailing slash), FSSHIM_LOG (file, appended),
 *               FSSHIM_FAIL_AT, FSSHIM_ERRNO, FSSHIM_PERSIST, FSSHIM_KILL_AT, FSSHIM_SNAP_DIR.
 *
 * Log line:  <n> <kind> <ret> <errno> <injected> <flags> <nbytes> <offset> <ctx> <api> <path> [<path2>]
 *   ctx = function of the digital_rf C library issuing the call, api = public HDF5 function it is inside
 *   (from the call stack; '-' when none)
 *   n = 0 for operations that are logged but not numbered (read-only opens, their closes).
 *   kind in: open creat mkdir write pwrite ftruncate close rename unlink rmdir
 * Paths are those the kernel reports for the descriptor at the time of the call
 * (/proc/self/fd), so a write that follows a rename is logged under the new name.
 */
#define _GNU_SOURCE
#include <dlfcn.h>
#include <dirent.h>
#include <errno.h>
#include <execinfo.h>
#include <fcntl.h>
#include <limits.h>
#include <stdarg.h>
#include <stdio.h>
#include <stdlib.h>
#include <string.h>
#include <sys/stat.h>
#include <sys/types.h>
#include <unistd.h>

#define MAXFD 4096

static const char *g_root = NULL;
static size_t g_rootlen = 0;
static int g_log = -1;
static long g_fail_at = 0, g_kill_at = 0;
static int g_errno = ENOSPC, g_persist = 0, g_failing = 0;
/* FSSHIM_PERSIST: 0 = the chosen operation fails once; 1 = it and every later mutating operation fail;
   2 = it and every later operation that needs space (create, write, truncate, mkdir) fail while rename, unlink and
   close keep working -- the shape of a disk that stays full */
static int g_space = 0;   /* set by the wrappers of space-consuming operations before begin_op */
static const char *g_snap = NULL;
static int g_step_out = -1, g_step_in = -1; /* FSSHIM_STEP_OUT / FSSHIM_STEP_IN: FIFOs for single-stepping */
static long g_n = 0;
static int g_init = 0;
static __thread int g_busy = 0;
static unsigned char g_wfd[MAXFD]; /* 1: descriptor opened for writing under root */

static int (*r_open)(const char *, int, ...);
static int (*r_open64)(const char *, int, ...);
static int (*r_openat)(int, const char *, int, ...);
static int (*r_openat64)(int, const char *, int, ...);
static int (*r_creat)(const char *, mode_t);
static int (*r_creat64)(const char *, mode_t);
static ssize_t (*r_write)(int, const void *, size_t);
static ssize_t (*r_pwrite)(int, const void *, size_t, off_t);
static ssize_t (*r_pwrite64)(int, const void *, size_t, off64_t);
static int (*r_ftruncate)(int, off_t);
static int (*r_ftruncate64)(int, off64_t);
static int (*r_close)(int);
static int (*r_rename)(const char *, const char *);
static int (*r_renameat)(int, const char *, int, const char *);
static int (*r_mkdir)(const char *, mode_t);
static int (*r_mkdirat)(int, const char *, mode_t);
static int (*r_unlink)(const char *);
static int (*r_unlinkat)(int, const char *, int);
static int (*r_remove)(const char *);
static int (*r_rmdir)(const char *);

static void shim_init(void)
{
    if (g_init) return;
    g_init = 1;
    r_open = dlsym(RTLD_NEXT, "open");
    r_open64 = dlsym(RTLD_NEXT, "open64");
    r_openat = dlsym(RTLD_NEXT, "openat");
    r_openat64 = dlsym(RTLD_NEXT, "openat64");
    r_creat = dlsym(RTLD_NEXT, "creat");
    r_creat64 = dlsym(RTLD_NEXT, "creat64");
    r_write = dlsym(RTLD_NEXT, "write");
    r_pwrite = dlsym(RTLD_NEXT, "pwrite");
    r_pwrite64 = dlsym(RTLD_NEXT, "pwrite64");
    r_ftruncate = dlsym(RTLD_NEXT, "ftruncate");
    r_ftruncate64 = dlsym(RTLD_NEXT, "ftruncate64");
    r_close = dlsym(RTLD_NEXT, "close");
    r_rename = dlsym(RTLD_NEXT, "rename");
    r_renameat = dlsym(RTLD_NEXT, "renameat");
    r_mkdir = dlsym(RTLD_NEXT, "mkdir");
    r_mkdirat = dlsym(RTLD_NEXT, "mkdirat");
    r_unlink = dlsym(RTLD_NEXT, "unlink");
    r_unlinkat = dlsym(RTLD_NEXT, "unlinkat");
    r_remove = dlsym(RTLD_NEXT, "remove");
    r_rmdir = dlsym(RTLD_NEXT, "rmdir");
    g_root = getenv("FSSHIM_ROOT");
    if (g_root && !*g_root) g_root = NULL;
    if (g_root) g_rootlen = strlen(g_root);
    const char *s;
    if ((s = getenv("FSSHIM_FAIL_AT"))) g_fail_at = atol(s);
    if ((s = getenv("FSSHIM_KILL_AT"))) g_kill_at = atol(s);
    if ((s = getenv("FSSHIM_ERRNO"))) g_errno = atoi(s);
    if ((s = getenv("FSSHIM_PERSIST"))) g_persist = atoi(s);
    g_snap = getenv("FSSHIM_SNAP_DIR");
    if (g_snap && !*g_snap) g_snap = NULL;
    if ((s = getenv("FSSHIM_STEP_OUT")) && *s) g_step_out = r_open(s, O_WRONLY | O_CLOEXEC);
    if ((s = getenv("FSSHIM_STEP_IN")) && *s) g_step_in = r_open(s, O_RDONLY | O_CLOEXEC);
    if ((s = getenv("FSSHIM_LOG")) && *s && g_root)
        g_log = r_open(s, O_WRONLY | O_CREAT | O_APPEND | O_CLOEXEC, 0644);
}

static int under_root(const char *p)
{
    return g_root && p && strncmp(p, g_root, g_rootlen) == 0 && (p[g_rootlen] == '/' || p[g_rootlen] == 0);
}

/* absolute form of a path argument (no symlink resolution; the harness uses real paths) */
static const char *abspath(int dirfd, const char *p, char *buf)
{
    if (!p) return NULL;
    if (p[0] == '/') return p;
    if (dirfd == AT_FDCWD) {
        if (!getcwd(buf, PATH_MAX - 2)) return p;
    } else {
        char lk[64];
        snprintf(lk, sizeof lk, "/proc/self/fd/%d", dirfd);
        ssize_t n = readlink(lk, buf, PATH_MAX - 2);
        if (n < 0) return p;
        buf[n] = 0;
    }
    size_t l = strlen(buf);
    if (l + 1 + strlen(p) + 1 >= PATH_MAX * 2) return p;
    buf[l] = '/';
    strcpy(buf + l + 1, p);
    return buf;
}

static const char *fdpath(int fd, char *buf)
{
    char lk[64];
    snprintf(lk, sizeof lk, "/proc/self/fd/%d", fd);
    ssize_t n = readlink(lk, buf, PATH_MAX - 1);
    if (n < 0) return NULL;
    buf[n] = 0;
    return buf;
}

/* ---- snapshot: plain recursive copy with the real functions */
static void copy_file(const char *src, const char *dst)
{
    int a = r_open(src, O_RDONLY | O_CLOEXEC);
    if (a < 0) return;
    int b = r_open(dst, O_WRONLY | O_CREAT | O_TRUNC | O_CLOEXEC, 0644);
    if (b >= 0) {
        char buf[65536];
        ssize_t n;
        while ((n = read(a, buf, sizeof buf)) > 0) {
            ssize_t o = 0;
            while (o < n) {
                ssize_t w = r_write(b, buf + o, n - o);
                if (w <= 0) break;
                o += w;
            }
        }
        r_close(b);
    }
    r_close(a);
}

static void copy_tree(const char *src, const char *dst)
{
    r_mkdir(dst, 0755);
    DIR *d = opendir(src);
    if (!d) return;
    struct dirent *e;
    while ((e = readdir(d))) {
        if (!strcmp(e->d_name, ".") || !strcmp(e->d_name, "..")) continue;
        char s[PATH_MAX], t[PATH_MAX];
        snprintf(s, sizeof s, "%s/%s", src, e->d_name);
        snprintf(t, sizeof t, "%s/%s", dst, e->d_name);
        struct stat st;
        if (lstat(s, &st)) continue;
        if (S_ISDIR(st.st_mode)) copy_tree(s, t);
        else if (S_ISREG(st.st_mode)) copy_file(s, t);
    }
    closedir(d);
}

static void snapshot(const char *tag)
{
    char t[PATH_MAX];
    snprintf(t, sizeof t, "%s/%s", g_snap, tag);
    copy_tree(g_root, t);
}

__attribute__((destructor)) static void shim_fini(void)
{
    if (g_init && g_snap && g_root && getenv("FSSHIM_SNAP_END")) {
        g_busy = 1;
        snapshot("end");
        g_busy = 0;
    }
}


/* which public HDF5 function and which function of the digital_rf C library enclose this call:
 * outermost frame inside a libhdf5 object -> api; innermost frame inside the extension -> ctx */
static void callers(char *ctx, char *api, size_t len)
{
    void *fr[64];
    int n = backtrace(fr, 64);
    strcpy(ctx, "-");
    strcpy(api, "-");
    for (int i = 0; i < n; i++) {
        Dl_info di;
        if (!dladdr(fr[i], &di) || !di.dli_fname) continue;
        if (strstr(di.dli_fname, "libhdf5")) {
            if (di.dli_sname) { strncpy(api, di.dli_sname, len - 1); api[len - 1] = 0; }
        } else if (strstr(di.dli_fname, "_py_rf_write_hdf5")) {
            if (di.dli_sname && ctx[0] == '-') { strncpy(ctx, di.dli_sname, len - 1); ctx[len - 1] = 0; }
        }
    }
}

static void logline(long n, const char *kind, long ret, int err, int inj, int flags, long nbytes, long off,
                    const char *p1, const char *p2)
{
    if (g_log < 0) return;
    char buf[2 * PATH_MAX + 512], ctx[96], api[96];
    callers(ctx, api, sizeof ctx);
    int l = snprintf(buf, sizeof buf, "%ld %s %ld %d %d %d %ld %ld %s %s %s%s%s\n", n, kind, ret, err, inj, flags, nbytes,
                     off, ctx, api, p1 ? p1 : "?", p2 ? " " : "", p2 ? p2 : "");
    if (l > 0) r_write(g_log, buf, (size_t)l);
}

/* number a mutating operation; snapshot / kill before it; returns 1 when it must fail */
static int begin_op(long *n_out)
{
    long n = ++g_n;
    *n_out = n;
    if (g_snap) {
        char tag[32];
        snprintf(tag, sizeof tag, "%ld", n);
        snapshot(tag);
    }
    if (g_step_out >= 0 && g_step_in >= 0) {
        /* announce the operation about to be issued and wait for the harness to let it go */
        char msg[32], c;
        int l = snprintf(msg, sizeof msg, "%ld\n", n);
        if (r_write(g_step_out, msg, (size_t)l) == l)
            while (read(g_step_in, &c, 1) < 0 && errno == EINTR) {}
    }
    if (g_kill_at && n == g_kill_at) {
        logline(n, "KILL", 0, 0, 0, 0, 0, 0, "-", NULL);
        _exit(137);
    }
    if (g_fail_at && (n == g_fail_at || (g_persist == 1 && n > g_fail_at) || (g_persist == 2 && n > g_fail_at && g_space))) return 1;
    return 0;
}

#define ENTER() int saved_busy = g_busy; shim_init(); g_busy = 1
#define LEAVE() g_busy = saved_busy
#define PASS (saved_busy || !g_root)

static int is_write_open(int flags)
{
    return (flags & O_ACCMODE) != O_RDONLY || (flags & (O_CREAT | O_TRUNC));
}

static int do_open(int which, int dirfd, const char *path, int flags, mode_t mode)
{
    ENTER();
    int ret;
    char buf[PATH_MAX * 2];
    const char *ap = PASS ? NULL : abspath(dirfd, path, buf);
    long n = 0;
    int inj = 0;
    if (ap && under_root(ap) && is_write_open(flags)) { g_space = 1; inj = begin_op(&n); }
    else if (!(ap && under_root(ap))) ap = NULL;
    if (inj) {
        ret = -1;
        errno = g_errno;
    } else {
        switch (which) {
        case 0: ret = r_open(path, flags, mode); break;
        case 1: ret = r_open64(path, flags, mode); break;
        case 2: ret = r_openat(dirfd, path, flags, mode); break;
        default: ret = r_openat64(dirfd, path, flags, mode); break;
        }
    }
    int e = errno;
    if (ap) {
        if (ret >= 0 && ret < MAXFD) g_wfd[ret] = n ? 1 : 2;
        logline(n, "open", ret, ret < 0 ? e : 0, inj, flags, 0, 0, ap, NULL);
    }
    LEAVE();
    errno = e;
    return ret;
}

int open(const char *path, int flags, ...)
{
    mode_t mode = 0;
    if ((flags & O_CREAT) || (flags & O_TMPFILE) == O_TMPFILE) { va_list a; va_start(a, flags); mode = va_arg(a, mode_t); va_end(a); }
    return do_open(0, AT_FDCWD, path, flags, mode);
}
int open64(const char *path, int flags, ...)
{
    mode_t mode = 0;
    if ((flags & O_CREAT) || (flags & O_TMPFILE) == O_TMPFILE) { va_list a; va_start(a, flags); mode = va_arg(a, mode_t); va_end(a); }
    return do_open(1, AT_FDCWD, path, flags, mode);
}
int openat(int dirfd, const char *path, int flags, ...)
{
    mode_t mode = 0;
    if ((flags & O_CREAT) || (flags & O_TMPFILE) == O_TMPFILE) { va_list a; va_start(a, flags); mode = va_arg(a, mode_t); va_end(a); }
    return do_open(2, dirfd, path, flags, mode);
}
int openat64(int dirfd, const char *path, int flags, ...)
{
    mode_t mode = 0;
    if ((flags & O_CREAT) || (flags & O_TMPFILE) == O_TMPFILE) { va_list a; va_start(a, flags); mode = va_arg(a, mode_t); va_end(a); }
    return do_open(3, dirfd, path, flags, mode);
}
int creat(const char *path, mode_t mode) { return do_open(0, AT_FDCWD, path, O_CREAT | O_WRONLY | O_TRUNC, mode); }
int creat64(const char *path, mode_t mode) { return do_open(1, AT_FDCWD, path, O_CREAT | O_WRONLY | O_TRUNC, mode); }

static ssize_t do_write(int which, int fd, const void *b, size_t len, off64_t off)
{
    ENTER();
    ssize_t ret;
    char buf[PATH_MAX];
    const char *p = NULL;
    long n = 0;
    int inj = 0;
    if (!PASS && fd >= 0 && fd < MAXFD && g_wfd[fd] == 1) {
        p = fdpath(fd, buf);
        g_space = 1;
        inj = begin_op(&n);
    }
    if (inj) {
        ret = -1;
        errno = g_errno;
    } else {
        switch (which) {
        case 0: ret = r_write(fd, b, len); break;
        case 1: ret = r_pwrite(fd, b, len, (off_t)off); break;
        default: ret = r_pwrite64(fd, b, len, off); break;
        }
    }
    int e = errno;
    if (n) logline(n, which ? "pwrite" : "write", (long)ret, ret < 0 ? e : 0, inj, 0, (long)len, which ? (long)off : -1, p, NULL);
    LEAVE();
    errno = e;
    return ret;
}
ssize_t write(int fd, const void *b, size_t len) { return do_write(0, fd, b, len, 0); }
ssize_t pwrite(int fd, const void *b, size_t len, off_t off) { return do_write(1, fd, b, len, off); }
ssize_t pwrite64(int fd, const void *b, size_t len, off64_t off) { return do_write(2, fd, b, len, off); }

static int do_ftruncate(int which, int fd, off64_t len)
{
    ENTER();
    int ret;
    char buf[PATH_MAX];
    const char *p = NULL;
    long n = 0;
    int inj = 0;
    if (!PASS && fd >= 0 && fd < MAXFD && g_wfd[fd] == 1) {
        p = fdpath(fd, buf);
        g_space = 1;
        inj = begin_op(&n);
    }
    if (inj) {
        ret = -1;
        errno = g_errno;
    } else
        ret = which ? r_ftruncate64(fd, len) : r_ftruncate(fd, (off_t)len);
    int e = errno;
    if (n) logline(n, "ftruncate", ret, ret < 0 ? e : 0, inj, 0, (long)len, 0, p, NULL);
    LEAVE();
    errno = e;
    return ret;
}
int ftruncate(int fd, off_t len) { return do_ftruncate(0, fd, len); }
int ftruncate64(int fd, off64_t len) { return do_ftruncate(1, fd, len); }

int close(int fd)
{
    ENTER();
    int ret;
    char buf[PATH_MAX];
    const char *p = NULL;
    long n = 0;
    int inj = 0, kind = 0;
    if (!PASS && fd >= 0 && fd < MAXFD && g_wfd[fd]) {
        kind = g_wfd[fd];
        p = fdpath(fd, buf);
        if (kind == 1) { g_space = 0; inj = begin_op(&n); }
        g_wfd[fd] = 0;
    }
    ret = r_close(fd);
    int e = errno;
    if (inj) {
        ret = -1;
        e = g_errno;
    }
    if (kind) logline(n, "close", ret, ret < 0 ? e : 0, inj, 0, 0, 0, p, NULL);
    LEAVE();
    errno = e;
    return ret;
}

static int do_rename(int od, const char *a, int nd, const char *b)
{
    ENTER();
    int ret;
    char b1[PATH_MAX * 2], b2[PATH_MAX * 2];
    const char *pa = PASS ? NULL : abspath(od, a, b1), *pb = PASS ? NULL : abspath(nd, b, b2);
    long n = 0;
    int inj = 0, mine = pa && pb && (under_root(pa) || under_root(pb));
    if (mine) { g_space = 0; inj = begin_op(&n); }
    if (inj) {
        ret = -1;
        errno = g_errno;
    } else
        ret = (od == AT_FDCWD && nd == AT_FDCWD) ? r_rename(a, b) : r_renameat(od, a, nd, b);
    int e = errno;
    if (mine) logline(n, "rename", ret, ret < 0 ? e : 0, inj, 0, 0, 0, pa, pb);
    LEAVE();
    errno = e;
    return ret;
}
int rename(const char *a, const char *b) { return do_rename(AT_FDCWD, a, AT_FDCWD, b); }
int renameat(int od, const char *a, int nd, const char *b) { return do_rename(od, a, nd, b); }

static int do_mkdir(int dirfd, const char *path, mode_t mode)
{
    ENTER();
    int ret;
    char buf[PATH_MAX * 2];
    const char *ap = PASS ? NULL : abspath(dirfd, path, buf);
    long n = 0;
    int inj = 0, mine = ap && under_root(ap);
    if (mine) { g_space = 1; inj = begin_op(&n); }
    if (inj) {
        ret = -1;
        errno = g_errno;
    } else
        ret = dirfd == AT_FDCWD ? r_mkdir(path, mode) : r_mkdirat(dirfd, path, mode);
    int e = errno;
    if (mine) logline(n, "mkdir", ret, ret < 0 ? e : 0, inj, 0, 0, 0, ap, NULL);
    LEAVE();
    errno = e;
    return ret;
}
int mkdir(const char *path, mode_t mode) { return do_mkdir(AT_FDCWD, path, mode); }
int mkdirat(int dirfd, const char *path, mode_t mode) { return do_mkdir(dirfd, path, mode); }

static int do_unlink(int which, int dirfd, const char *path, int flags)
{
    ENTER();
    int ret;
    char buf[PATH_MAX * 2];
    const char *ap = PASS ? NULL : abspath(dirfd, path, buf);
    long n = 0;
    int inj = 0, mine = ap && under_root(ap);
    if (mine) { g_space = 0; inj = begin_op(&n); }
    if (inj) {
        ret = -1;
        errno = g_errno;
    } else {
        switch (which) {
        case 0: ret = r_unlink(path); break;
        case 1: ret = r_unlinkat(dirfd, path, flags); break;
        case 2: ret = r_remove(path); break;
        default: ret = r_rmdir(path); break;
        }
    }
    int e = errno;
    if (mine) logline(n, which == 3 ? "rmdir" : "unlink", ret, ret < 0 ? e : 0, inj, flags, 0, 0, ap, NULL);
    LEAVE();
    errno = e;
    return ret;
}
int unlink(const char *path) { return do_unlink(0, AT_FDCWD, path, 0); }
int unlinkat(int dirfd, const char *path, int flags) { return do_unlink(1, dirfd, path, flags); }
int remove(const char *path) { return do_unlink(2, AT_FDCWD, path, 0); }
int rmdir(const char *path) { return do_unlink(3, AT_FDCWD, path, 0); }

/* access(): not a mutating operation (never numbered, never failed); logged so that the harness
 * can see the existence test of the final name, and used as a marker channel by the writer
 * script: access("/FSSHIM_MARK/<text>") logs a "mark" line. */
static int (*r_access)(const char *, int);
static int (*r_faccessat)(int, const char *, int, int);
static int do_access(int dirfd, const char *path, int mode, int flags, int which)
{
    ENTER();
    if (!r_access) { r_access = dlsym(RTLD_NEXT, "access"); r_faccessat = dlsym(RTLD_NEXT, "faccessat"); }
    int ret = which ? r_faccessat(dirfd, path, mode, flags) : r_access(path, mode);
    int e = errno;
    if (!PASS && path) {
        if (!strncmp(path, "/FSSHIM_MARK/", 13)) logline(0, "mark", 0, 0, 0, 0, 0, 0, path + 13, NULL);
        else {
            char buf[PATH_MAX * 2];
            const char *ap = abspath(dirfd, path, buf);
            if (ap && under_root(ap)) logline(0, "access", ret, ret < 0 ? e : 0, 0, mode, 0, 0, ap, NULL);
        }
    }
    LEAVE();
    errno = e;
    return ret;
}
int access(const char *path, int mode) { return do_access(AT_FDCWD, path, mode, 0, 0); }
int faccessat(int dirfd, const char *path, int mode, int flags) { return do_access(dirfd, path, mode, flags, 1); }
