/* C-API access for the correspondence checks: create a writer of int32 samples with the current
   header's struct layout, read cursor fields, and call the index helper directly. */
#include <string.h>
#include <stdlib.h>
#include "digital_rf.h"

Digital_rf_write_object *shim_create(char *dir, uint64_t sc, uint64_t fc, uint64_t start, uint64_t n, uint64_t d,
                                     int comp, int cksum, int is_continuous)
{
	char dcopy[1024];
	strncpy(dcopy, dir, sizeof(dcopy) - 1);
	dcopy[sizeof(dcopy) - 1] = 0;
	return digital_rf_create_write_hdf5(dcopy, H5T_NATIVE_INT, sc, fc, start, n, d, "verif-uuid", comp, cksum, 0, 1,
	                                    is_continuous, 0);
}

uint64_t shim_global_index(Digital_rf_write_object *o) { return o->global_index; }
int shim_has_failure(Digital_rf_write_object *o) { return o->has_failure; }

/* digital_rf_create_rf_data_index on a synthetic object; returns rows_to_write (-1 on error),
   fills rows_out (2*rows) and *stw */
int shim_index(uint64_t start, uint64_t gi, int chunk, int cont, uint64_t sw, uint64_t left, uint64_t cap,
               uint64_t *G, uint64_t *D, uint64_t nb, uint64_t vlen, uint64_t next, int file_exists,
               uint64_t *rows_out, uint64_t *stw)
{
	Digital_rf_write_object o;
	int rows = 0;
	uint64_t *r;
	memset(&o, 0, sizeof(o));
	o.global_start_sample = start;
	o.global_index = gi;
	o.needs_chunking = chunk;
	o.is_continuous = cont;
	*stw = 0;
	r = digital_rf_create_rf_data_index(&o, sw, left, cap, G, D, nb, vlen, next, &rows, stw, file_exists);
	if (r) {
		memcpy(rows_out, r, sizeof(uint64_t) * 2 * rows);
		free(r);
	}
	return rows;
}

uint64_t shim_global_sample(uint64_t sw, uint64_t *G, uint64_t *D, uint64_t nb)
{
	return digital_rf_get_global_sample(sw, G, D, nb);
}
