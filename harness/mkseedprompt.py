"""Write seeded/prompts/<id>.md (the prompt for a blind seeding sub-agent) and create its scratch
worktree /tmp/seed_<id>.  usage: mkseedprompt.py C02c [C03c ...]"""
import glob
import json
import os
import subprocess
import sys

V = os.path.dirname(os.path.dirname(os.path.abspath(__file__)))
props = {json.loads(l)["id"]: json.loads(l) for l in open(os.path.join(V, "properties.jsonl"))}
tmpl = open(os.path.join(V, "seeded", "PROMPT_TEMPLATE.md")).read()
for sid in sys.argv[1:]:
    pid = sid[:3]
    p = props[pid]
    wt = "/tmp/seed_%s" % sid
    subprocess.run("git -C /repo worktree remove --force %s; rm -rf %s; git -C /repo worktree add -q %s HEAD" % (wt, wt, wt), shell=True,
                   capture_output=True)
    q = p.get("quantifier", {})
    txt = tmpl.replace("{WT}", wt).replace("{ID}", pid).replace("{TITLE}", p["title"]).replace("{STATEMENT}", p["statement"]) \
        .replace("{QUANT}", q.get("text", "") if isinstance(q, dict) else str(q)).replace("{ANCHORS}", json.dumps(p.get("anchors", ""))[:1500])
    prev = []
    for m in sorted(glob.glob(os.path.join(V, "seeded", pid + "?", "meta.json"))):
        try:
            prev.append(json.load(open(m)).get("summary", "")[:420])
        except Exception:  # noqa
            pass
    WAVE_NOTE = ("STYLE FOR THIS ROUND: earlier seeds were mostly a single changed comparison or constant. Prefer something subtler: "
                 "a change spread over TWO sites that each look fine alone, a 'refactoring' or 'optimisation' that is wrong only for a "
                 "rare option combination or input form, state carried over between calls, an error path, or an interaction between "
                 "two features (e.g. restart + block writes, compression + continuous, several subchannels + complex, reversed listing "
                 "+ window). It must still be small, realistic and pass the existing suite.\n\n") if sid[3:] >= "e" else ""
    if sid[3:] >= "g":
        WAVE_NOTE += ("ALSO CONSIDER dimensions of the environment rather than of the data: the form in which a caller passes an argument "
                      "(numpy scalar, float holding an integer, bytes vs str path, relative path, trailing slash, pathlib.Path), several "
                      "objects of the library alive in one process (two writers, a writer and a reader, two readers), process-wide state "
                      "(static variables in C, module-level caches in Python, the current working directory, the locale), the order in "
                      "which public calls are made on one object, resource limits, and what is left on disk by an earlier run.\n\n")
    if sid[3:] >= "h":
        WAVE_NOTE += ("PREFER A PUBLIC ENTRY POINT OR LAYER THAT THE EARLIER SEEDS LISTED BELOW DID NOT TOUCH: convenience methods "
                      "(read_vector, read_vector_1d, read_vector_c81d, read_metadata, read_flatdict, read_dataframe, get_properties, "
                      "get_continuous_blocks, getters of the writer), helpers in digital_rf/util.py that the public calls go through, "
                      "the command-line front ends (drf ls/cp/mv/ln/watch/mirror/ringbuffer: option parsing and defaults), the Python "
                      "wrapper versus the C extension versus the C library, constructor argument validation and normalisation, "
                      "what happens on the second call of something usually called once.\n\n")
    if sid[3:] >= "i":
        WAVE_NOTE += ("THIS ROUND ALSO LOOK AT: constructor arguments and the forms they may take (dtype given as a string, an "
                      "np.dtype, a Python/numpy type or a structured dtype; uuid_str None; marching_periods; every compression level; "
                      "checksum; rdcc_nbytes; several top-level directories given as a list / tuple / generator), options whose "
                      "default is rarely changed, legacy on-disk forms the readers still accept (metadata.h5 as properties file, "
                      "files lacking newer attributes), numeric corner values of the options (0, 1, the largest accepted value), "
                      "and clean-up paths (close called twice, __del__, context managers, KeyboardInterrupt in the middle of a call).\n\n")
    if sid[3:] >= "j":
        WAVE_NOTE += ("THIS ROUND: think about types and magnitudes at the boundaries between layers -- numpy scalars meeting Python "
                      "ints (np.uint64 + int -> float64, np.int64 overflow), C int / long / size_t versus uint64_t, printf formats and "
                      "their widths (file names whose seconds have more or fewer than ten digits, the millisecond part), long double "
                      "versus double, signed versus unsigned comparisons, sort orders (text versus numeric), values exactly at 2**31, "
                      "2**32, 2**53, 2**63, year 2038 / 2106 / 10000 -- and about sequences in which the SAME call is made twice, or "
                      "two calls are made in the other order than usual. Earlier rounds already used: static / class-level caches, "
                      "path spellings (relative, trailing slash, symlinks, long, containing 'tmp.'), float-valued rates, kept "
                      "exceptions, closed writers, leftover tmp files, several writers or readers per process.\n\n")
    if sid[3:] >= "k":
        WAVE_NOTE += ("THIS ROUND: make the failure need a LONGER or RICHER history than a first look would try -- the third "
                      "session of a channel, the fifth file, a gap followed by an exact-fill write, a read that spans three files "
                      "and a subdirectory edge, a metadata read after two writers took turns, a listing of a tree that holds "
                      "nested channels and look-alike names, a mirror or ring buffer that has already expired something -- or a "
                      "COMBINATION of options that are each common (continuous x compression x checksum x several subchannels x "
                      "complex integer types x marching periods; reverse x window x include flags; size + count + duration "
                      "limits at once), or DATA-dependent paths (NaN, -0.0, the most negative integer, big-endian or otherwise "
                      "non-native arrays, bool, zero-length or one-sample writes, unicode / bytes / empty strings and arrays in "
                      "metadata, unsorted or duplicated sample lists). Earlier rounds already used everything listed in the "
                      "previous paragraphs; a change that needs only one of those again is not interesting.\n\n")
    if sid[3:] >= "l":
        WAVE_NOTE += ("THIS ROUND, prefer one of these less-travelled areas: (1) the memory layout and type of the caller's "
                      "arrays (Fortran order, negative strides, read-only, byte-swapped, a float array given to an integer "
                      "writer, a 0-d array, an array of the wrong width) and the reader's conversions on the way back "
                      "(sub_channel selection, read_vector / read_vector_1d / read_vector_c81d for each stored type, "
                      "get_properties with and without sample=, properties cached across calls); (2) what one public call "
                      "leaves behind when it raises half-way (the second block of rf_write_blocks, the third sample of a "
                      "metadata write, a listing interrupted by a vanishing directory) and what the NEXT call on the same "
                      "object then does; (3) things in the tree that are not the library's (foreign files and directories "
                      "with similar names, symbolic links to channels, read-only files or directories, a properties file "
                      "from an older version that lacks an attribute); (4) several threads of one process using the library "
                      "at once; (5) the order in which a tool visits channels, subdirectories and files when names sort "
                      "differently as text and as numbers. As before: small, realistic, passes the suite, and needs "
                      "something specific to show.\n\n")
    txt = txt.replace("DELIVERABLES, all inside", WAVE_NOTE + "DELIVERABLES, all inside", 1) if WAVE_NOTE else txt
    if prev:
        div = ("DIVERSITY: other engineers already seeded these changes for the same property — " + "; ".join('"%s"' % s for s in prev) +
               ". Choose a DIFFERENT mechanism in a different function (and preferably a different source file or layer) than those; "
               "think about rarely exercised configurations and code paths (unusual dtypes or input forms, option combinations, "
               "boundary timestamps, restarts, error paths, the command-line tools versus the library API).\n\n")
        txt = txt.replace("DELIVERABLES, all inside", div + "DELIVERABLES, all inside", 1)
    open(os.path.join(V, "seeded", "prompts", sid + ".md"), "w").write(txt)
    print(sid, wt, len(txt))
