"""Build everything the checks need from files on disk: regenerate Gen/*.v from /repo, make all
.vo files, build every extracted runner."""
import glob
import importlib
import os
import sys

sys.path.insert(0, os.path.dirname(os.path.abspath(__file__)))
sys.path.insert(0, os.path.join(os.path.dirname(os.path.dirname(os.path.abspath(__file__))), "translate"))
import common  # noqa: E402


def main():
    common.build_impl()
    res = common.Result("setup", "quick", 0)
    for f in sorted(glob.glob(os.path.join(common.VERIF, "harness", "props", "c*.py"))):
        mod = importlib.import_module("props." + os.path.basename(f)[:-3])
        if hasattr(mod, "regenerate"):
            mod.regenerate(res)
    if res.broken:
        print("regeneration problems:", res.broken)
    # build every file's closure; a file that does not compile is reported and skipped (the check
    # that needs it will report its own broken obligation) -- setup itself only fails on
    # infrastructure problems
    from concurrent.futures import ThreadPoolExecutor
    failed = []

    def build(rel):
        rc1, out = common.coq_make([rel], timeout=3000)
        return rel, rc1, out
    roots = [f for f in common.coq_files() if f.startswith(("Properties/", "Extract/"))]
    with ThreadPoolExecutor(max_workers=8) as ex:
        for rel, rc1, out in ex.map(build, roots):
            if rc1 != 0:
                failed.append(rel)
                print("SETUP: %s did not build:\n%s" % (rel, out[-1500:]))
    rc = 0
    for f in sorted(glob.glob(os.path.join(common.COQ, "Extract", "*Runner.v"))):
        fam = os.path.basename(f)[:-len("Runner.v")].lower()
        try:
            common.build_runner(fam)
            print("runner", fam, "ok")
        except common.Broken as e:
            print("runner", fam, "FAILED", str(e)[-1000:])
    return rc


if __name__ == "__main__":
    sys.exit(main())
