"""Build everything the checks need from files on disk: regenerate Gen/*.v from /repo, make all
.vo files, build every extracted runner."""
import glob
import importlib
import os
import sys

sys.path.insert(0, os.path.dirname(os.path.abspath(__file__)))
sys.path.insert(0, os.path.join(os.path.dirname(os.path.dirname(os.path.abspath(__file__))), "translate"))
import common  # noqa: E402


def main():
    common.build_impl()
    res = common.Result("setup", "quick", 0)
    for f in sorted(glob.glob(os.path.join(common.VERIF, "harness", "props", "c*.py"))):
        mod = importlib.import_module("props." + os.path.basename(f)[:-3])
        if hasattr(mod, "regenerate"):
            mod.regenerate(res)
    if res.broken:
        print("regeneration problems:", res.broken)
    targets = common.coq_files()
    rc, out = common.coq_make(targets, timeout=3000)
    print(out[-3000:])
    if rc != 0:
        print("SETUP: coq build returned", rc)
    for f in sorted(glob.glob(os.path.join(common.COQ, "Extract", "*Runner.v"))):
        fam = os.path.basename(f)[:-len("Runner.v")].lower()
        try:
            common.build_runner(fam)
            print("runner", fam, "ok")
        except common.Broken as e:
            print("runner", fam, "FAILED", str(e)[-1000:])
            rc = rc or 1
    return rc


if __name__ == "__main__":
    sys.exit(main())
