"""Edit known_findings.json under a lock.
usage: kf.py add <property> <open|fixed> <signature> <title> [--commit HASH] [--witness JSON]"""
import argparse
import fcntl
import json
import os

P = os.path.join(os.path.dirname(os.path.dirname(os.path.abspath(__file__))), "known_findings.json")


def main():
    ap = argparse.ArgumentParser()
    ap.add_argument("cmd", choices=["add"])
    ap.add_argument("property")
    ap.add_argument("status", choices=["open", "fixed"])
    ap.add_argument("signature")
    ap.add_argument("title")
    ap.add_argument("--commit")
    ap.add_argument("--witness")
    a = ap.parse_args()
    with open(P + ".lock", "w") as lk:
        fcntl.flock(lk, fcntl.LOCK_EX)
        d = json.load(open(P))
        d["findings"] = [f for f in d["findings"]
                         if not (f["property"] == a.property and f["signature"] == a.signature)]
        e = {"property": a.property, "status": a.status, "signature": a.signature, "title": a.title}
        if a.commit:
            e["commit"] = a.commit
        if a.witness:
            e["witness"] = json.loads(a.witness)
        if a.status == "fixed":
            e["line"] = "fixed: property=%s %s %s" % (a.property, a.commit or "?", a.title)
        d["findings"].append(e)
        json.dump(d, open(P, "w"), indent=1)
    print("ok")


if __name__ == "__main__":
    main()
