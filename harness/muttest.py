"""Own (non-blind) mutants: seeded/own/<name>.json = {"file", "old", "new", "props", "why"}.
usage: muttest.py <name> [...]   -- applies the textual edit in a scratch worktree of /repo HEAD,
runs the listed checks against it with private coq/build/evidence copies and records the outcome.
(The blind seeds made by sub-agents are handled by seedtest.py; these are for exercising one
specific piece of machinery.)"""
import json
import os
import shutil
import subprocess
import sys
import tempfile

V = os.path.dirname(os.path.dirname(os.path.abspath(__file__)))


def sh(cmd):
    return subprocess.run(cmd, shell=True, capture_output=True, text=True)


def one(name):
    path = os.path.join(V, "seeded", "own", name + ".json")
    m = json.load(open(path))
    wt = "/tmp/mutchk_%s" % name
    sh("git -C /repo worktree remove --force %s" % wt)
    sh("git -C /repo worktree add -q %s HEAD" % wt)
    out = {"repo_head": sh("git -C /repo rev-parse --short HEAD").stdout.strip(), "checks": {}}
    try:
        f = os.path.join(wt, m["file"])
        s = open(f).read()
        if s.count(m["old"]) != 1:
            out["error"] = "old text occurs %d times" % s.count(m["old"])
        else:
            open(f, "w").write(s.replace(m["old"], m["new"]))
            priv = tempfile.mkdtemp(prefix="mutpriv-")
            sh("cp -r %s/coq %s/coq" % (V, priv))
            os.makedirs(os.path.join(priv, "build"))
            os.makedirs(os.path.join(priv, "evidence"))
            for p in m["props"]:
                env = dict(os.environ, DRF_REPO=wt, DRF_COQ=os.path.join(priv, "coq"), DRF_BUILD=os.path.join(priv, "build"),
                           DRF_EVIDENCE=os.path.join(priv, "evidence"))
                c = subprocess.run(["./check", p, "--tier", "quick"], capture_output=True, text=True, env=env, cwd=V)
                lines = [ln for ln in c.stdout.splitlines() if ln.startswith(("VIOLATION", "OK ", "KNOWN-FINDING"))]
                rep = []
                for ln in lines:
                    if "replay=" in ln:
                        rp = ln.split("replay=")[1].split()[0]
                        try:
                            r = json.load(open(rp))
                            rep.append({k: r.get(k) for k in ("signature", "title", "broken", "what") if r.get(k)})
                        except Exception:  # noqa
                            pass
                out["checks"][p] = {"exit": c.returncode, "lines": lines[:4], "replay": rep[:3]}
            shutil.rmtree(priv, True)
    finally:
        sh("git -C /repo worktree remove --force %s" % wt)
    m["result"] = out
    json.dump(m, open(path, "w"), indent=1)
    print(name, json.dumps(out, indent=1)[:1500])


if __name__ == "__main__":
    for n in sys.argv[1:]:
        one(n)
