"""Shared machinery of ./check: build the implementation from /repo's working tree, build the
Coq development (full .vo), compile the property file and parse Print Assumptions, build and
run the extracted model runners, write evidence, decide the outcome."""
import atexit
import fcntl
import glob
import hashlib
import json
import os
import random
import re
import shutil
import subprocess
import sys
import tempfile
import time

VERIF = os.path.dirname(os.path.dirname(os.path.abspath(__file__)))
REPO = os.environ.get("DRF_REPO", "/repo")
# DRF_COQ / DRF_BUILD / DRF_EVIDENCE let seeded-change runs (harness/seedtest.py) work on private copies, so that
# regenerated Gen/*.v, runner binaries and evidence of a patched tree never disturb the real checks
COQ = os.environ.get("DRF_COQ") or os.path.join(VERIF, "coq")
BUILD = os.environ.get("DRF_BUILD") or os.path.join(VERIF, "build")
EVIDENCE = os.environ.get("DRF_EVIDENCE") or os.path.join(VERIF, "evidence")
PYTHON = "/venv/bin/python"
GUARD = "DIGITAL_RF_VERIF"

ALLOWED_AXIOMS = {
    # standard-library axioms that may appear (named in the trusted base when they do)
    "Coq.Logic.FunctionalExtensionality.functional_extensionality_dep",
    "functional_extensionality_dep",
    "Coq.Logic.Classical_Prop.classic", "classic",
    "Coq.Logic.ProofIrrelevance.proof_irrelevance", "proof_irrelevance",
    "Coq.Logic.Eqdep.Eq_rect_eq.eq_rect_eq", "Eq_rect_eq.eq_rect_eq", "eq_rect_eq",
    "Coq.Logic.JMeq.JMeq_eq", "JMeq_eq",
}

FORBIDDEN_RE = re.compile(
    r"\b(Admitted|admit|Axiom|Axioms|Parameter|Parameters|Conjecture|Conjectures|Admit Obligations|"
    r"Unset Guard Checking|Unset Positivity Checking|Unset Universe Checking|bypass_check|"
    r"native_compute|type-in-type|impredicative-set)\b")


class Broken(Exception):
    """a proof obligation, a translator or a build step no longer checks"""


def log(*a):
    print(*a, file=sys.stderr, flush=True)


# --------------------------------------------------------------------------- implementation build

_impl_dir = None


def build_impl():
    """Copy /repo/python/digital_rf and compile the C writer + extension from /repo into a
    scratch directory; returns the directory to put on PYTHONPATH."""
    global _impl_dir
    if _impl_dir:
        return _impl_dir
    d = tempfile.mkdtemp(prefix="drfimpl-")
    atexit.register(shutil.rmtree, d, True)
    pkg = os.path.join(d, "digital_rf")
    shutil.copytree(os.path.join(REPO, "python", "digital_rf"), pkg,
                    ignore=shutil.ignore_patterns("__pycache__", "*.so"))
    ver = os.path.join(pkg, "_version.py")
    if not os.path.exists(ver):
        # generated, untracked file (absent from git worktrees): take /repo's or a stub
        src = "/repo/python/digital_rf/_version.py"
        if os.path.exists(src):
            shutil.copy(src, ver)
        else:
            open(ver, "w").write("__version__ = version = '0.1.dev1'\n__version_tuple__ = version_tuple = (0, 1, 'dev1')\n")
    so = os.path.join(pkg, "_py_rf_write_hdf5.cpython-312-x86_64-linux-gnu.so")
    cmd = ["gcc", "-O1", "-g", "-shared", "-fPIC", "-w", "-D%s=1" % GUARD, "-o", so,
           os.path.join(REPO, "c/lib/rf_write_hdf5.c"),
           os.path.join(REPO, "python/lib/py_rf_write_hdf5.c"),
           "-I" + os.path.join(REPO, "c/include"), "-I/usr/include/hdf5/serial",
           "-I/root/.pyenv/versions/3.12.1/include/python3.12",
           "-I/venv/lib/python3.12/site-packages/numpy/_core/include",
           "-L/usr/lib/x86_64-linux-gnu", "-lhdf5_serial", "-lz", "-lm"]
    p = subprocess.run(cmd, capture_output=True, text=True)
    if p.returncode != 0:
        raise Broken("implementation does not compile:\n" + p.stderr[-3000:])
    _impl_dir = d
    return d


def use_impl():
    """make `import digital_rf` resolve to the scratch build in this process"""
    d = build_impl()
    if d not in sys.path:
        sys.path.insert(0, d)
    os.environ[GUARD] = "1"
    os.environ.setdefault("PYTHONHASHSEED", "0")
    os.environ["HDF5_USE_FILE_LOCKING"] = "FALSE"
    import warnings
    warnings.filterwarnings("ignore")
    import digital_rf  # noqa
    assert digital_rf.__file__.startswith(d), digital_rf.__file__
    return d


def impl_env():
    d = build_impl()
    env = dict(os.environ)
    env["PYTHONPATH"] = d
    env["PYTHONHASHSEED"] = "0"
    env[GUARD] = "1"
    env["HDF5_USE_FILE_LOCKING"] = "FALSE"
    env["PYTHONWARNINGS"] = "ignore"
    return env


def build_cshim(name, sources):
    """compile harness/cdriver/<sources> together with /repo's C writer into <impl>/<name>.so"""
    d = build_impl()
    so = os.path.join(d, name + ".so")
    if os.path.exists(so):
        return so
    cmd = ["gcc", "-O1", "-g", "-shared", "-fPIC", "-w", "-o", so,
           os.path.join(REPO, "c/lib/rf_write_hdf5.c")] + \
          [os.path.join(VERIF, "harness", "cdriver", x) for x in sources] + \
          ["-I" + os.path.join(REPO, "c/include"), "-I/usr/include/hdf5/serial",
           "-L/usr/lib/x86_64-linux-gnu", "-lhdf5_serial", "-lz", "-lm"]
    p = subprocess.run(cmd, capture_output=True, text=True)
    if p.returncode != 0:
        raise Broken("C shim does not compile:\n" + p.stderr[-3000:])
    return so


_scratch_root = None


def scratch_root():
    """one scratch directory per check process tree (created by the parent, removed at its exit)"""
    global _scratch_root
    if _scratch_root is None:
        r = os.environ.get("DRF_SCRATCH_ROOT")
        if r and os.path.isdir(r):
            _scratch_root = r
        else:
            _scratch_root = tempfile.mkdtemp(prefix="drfwork-")
            os.environ["DRF_SCRATCH_ROOT"] = _scratch_root
            atexit.register(shutil.rmtree, _scratch_root, True)
    return _scratch_root


def scratch_dir(prefix="w-"):
    return tempfile.mkdtemp(prefix=prefix, dir=scratch_root())


def set_current(obj):
    """remember the case being run on the implementation, so that a crash of the implementation
    (abort, segfault) or an unexpected exception can be reported with a concrete replay input"""
    try:
        with open(os.path.join(scratch_root(), "current.json"), "w") as f:
            json.dump(obj, f, default=str)
    except OSError:
        pass


def get_current():
    try:
        return json.load(open(os.path.join(scratch_root(), "current.json")))
    except (OSError, ValueError):
        return None


# --------------------------------------------------------------------------- Coq build

class CoqLock:
    """serialises the OCaml link step of a runner"""

    def __enter__(self):
        os.makedirs(BUILD, exist_ok=True)
        self.f = open(os.path.join(BUILD, ".coq.lock"), "w")
        fcntl.flock(self.f, fcntl.LOCK_EX)
        return self

    def __exit__(self, *a):
        fcntl.flock(self.f, fcntl.LOCK_UN)
        self.f.close()


def write_if_changed(path, text):
    try:
        if open(path).read() == text:
            return False
    except OSError:
        pass
    os.makedirs(os.path.dirname(path), exist_ok=True)
    with open(path, "w") as f:
        f.write(text)
    return True


def coq_files():
    out = []
    for sub in ("Base", "Gen", "Model", "Proofs", "Properties", "Extract"):
        out += sorted(glob.glob(os.path.join(COQ, sub, "*.v")))
    return [os.path.relpath(p, COQ) for p in out]


def coq_project():
    """_CoqProject / Makefile.coq are kept for reference and for the thorough tier's coqchk;
    the checks themselves compile exactly the closure they need (coq_make below)."""
    text = "-Q . DRF\n" + "\n".join(coq_files()) + "\n"
    write_if_changed(os.path.join(COQ, "_CoqProject"), text)


REQ_RE = re.compile(r"From\s+DRF\s+Require\s+(?:Import|Export)?\s*([^.]*(?:\.[A-Za-z_][^.\s]*)*)\s*\.(?=\s)", re.S)
COQ_WARN = "-notation-overridden,-deprecated-hint-without-locality,-deprecated-instance-without-locality,-extraction-reserved-identifier,-ambiguous-paths"


def coq_deps(rel):
    """DRF modules required by coq/<rel> (as relative .v paths)"""
    txt = re.sub(r"\(\*.*?\*\)", "", open(os.path.join(COQ, rel)).read(), flags=re.S)
    deps = []
    for m in re.finditer(r"From\s+DRF\s+Require\s+(?:Import\s+|Export\s+)?(.*?)\.\s", txt, re.S):
        for mod in m.group(1).split():
            deps.append(mod.replace(".", "/") + ".v")
    for m in re.finditer(r"Require\s+(?:Import\s+|Export\s+)?((?:DRF\.[A-Za-z0-9_.]+\s*)+)\.\s", txt):
        for mod in m.group(1).split():
            deps.append(mod[4:].replace(".", "/") + ".v")
    return deps


class _FileLock:
    def __init__(self, rel):
        os.makedirs(os.path.join(BUILD, "locks"), exist_ok=True)
        self.path = os.path.join(BUILD, "locks", rel.replace("/", "_") + ".lock")

    def __enter__(self):
        self.f = open(self.path, "w")
        fcntl.flock(self.f, fcntl.LOCK_EX)

    def __exit__(self, *a):
        fcntl.flock(self.f, fcntl.LOCK_UN)
        self.f.close()


def _compile_one(rel, timeout):
    p = subprocess.run(["timeout", str(timeout), "coqc", "-q", "-Q", ".", "DRF", "-w", COQ_WARN, rel],
                       cwd=COQ, capture_output=True, text=True)
    return p.returncode, p.stdout + p.stderr


def coq_make(targets, timeout=1500, force=()):
    """Full .vo build (never -vos) of the closure of the given targets (paths relative to coq/,
    .vo or .v).  A file is recompiled when its .vo is missing or older than its source or than
    the .vo of any dependency.  Returns (rc, log)."""
    coq_project()
    order, seen = [], set()

    def visit(rel, stack=()):
        if rel in seen:
            return
        if rel in stack:
            raise Broken("dependency cycle at " + rel)
        if not os.path.exists(os.path.join(COQ, rel)):
            raise Broken("missing Coq source " + rel)
        for d in coq_deps(rel):
            visit(d, stack + (rel,))
        seen.add(rel)
        order.append(rel)

    try:
        for t in targets:
            visit(t[:-3] + ".v" if t.endswith(".vo") else t)
    except Broken as e:
        return 2, str(e)
    log_ = []
    for rel in order:
        vo = os.path.join(COQ, rel[:-2] + ".vo")
        src = os.path.join(COQ, rel)
        with _FileLock(rel):
            # (re)decide staleness under the lock: another process may just have built it
            stale = (rel in force) or (not os.path.exists(vo)) or os.path.getmtime(vo) < os.path.getmtime(src)
            if not stale:
                for d in coq_deps(rel):
                    dvo = os.path.join(COQ, d[:-2] + ".vo")
                    if (not os.path.exists(dvo)) or os.path.getmtime(dvo) > os.path.getmtime(vo):
                        stale = True
                        break
            if stale:
                rc, out = _compile_one(rel, timeout)
                log_.append("COQC %s\n%s" % (rel, out))
                if rc != 0:
                    try:
                        os.remove(vo)
                    except OSError:
                        pass
                    return rc, "\n".join(log_)
    return 0, "\n".join(log_)


def coq_closure(rel):
    seen, order = set(), []

    def visit(r):
        if r in seen or not os.path.exists(os.path.join(COQ, r)):
            return
        seen.add(r)
        for d in coq_deps(r):
            visit(d)
        order.append(r)
    visit(rel)
    return order


def grep_forbidden(files=None):
    bad = []
    for rel in (files if files is not None else coq_files()):
        txt = open(os.path.join(COQ, rel)).read()
        # strip comments (non-nested approximation is enough: we only want to avoid prose hits)
        txt2 = re.sub(r"\(\*.*?\*\)", "", txt, flags=re.S)
        for m in FORBIDDEN_RE.finditer(txt2):
            bad.append("%s: %s" % (rel, m.group(0)))
    return bad


THEOREM_RE = re.compile(r"^\s*(Theorem|Lemma|Corollary)\s+([A-Za-z0-9_']+)", re.M)


def check_property_file(prop, extra_targets=()):
    """Build the closure of Properties/<prop>.v, then compile the property file itself
    (always) capturing Print Assumptions.  Returns dict(obligations, discharged, theorems,
    axioms, log).  Raises Broken with the log if anything fails."""
    rel = "Properties/%s.v" % prop
    path = os.path.join(COQ, rel)
    if not os.path.exists(path):
        raise Broken("no property file " + rel)
    src = re.sub(r"\(\*.*?\*\)", "", open(path).read(), flags=re.S)
    theorems = [m.group(2) for m in THEOREM_RE.finditer(src)]
    bad = grep_forbidden(coq_closure(rel))
    if bad:
        raise Broken("forbidden constructs in the development: " + "; ".join(bad[:10]))
    rc, out = coq_make([rel] + list(extra_targets), force=(rel,))
    if rc != 0:
        raise Broken("Coq build failed for %s:\n%s" % (prop, out[-6000:]))
    # Print Assumptions output: "Closed under the global context" or "Axioms:\n name : type ..."
    axioms = {}
    chunks = re.split(r"(?m)^(?=Closed under the global context|Axioms:)", out)
    results = []
    for ch in chunks:
        if ch.startswith("Closed under the global context"):
            results.append([])
        elif ch.startswith("Axioms:"):
            names = []
            for line in ch.splitlines()[1:]:
                m = re.match(r"^([A-Za-z_][A-Za-z0-9_.']*)\s*:", line)
                if m:
                    names.append(m.group(1))
                elif line and not line.startswith(" "):
                    break
            results.append(names)
    n_print = len(re.findall(r"Print Assumptions", src))
    if len(results) != n_print or n_print != len(theorems):
        raise Broken("property file %s: %d theorems, %d Print Assumptions, %d results parsed"
                     % (rel, len(theorems), n_print, len(results)))
    discharged = 0
    for th, ax in zip(theorems, results):
        axioms[th] = ax
        if all(a in ALLOWED_AXIOMS for a in ax):
            discharged += 1
    return {"obligations": len(theorems), "discharged": discharged, "theorems": theorems,
            "axioms": axioms, "log": out[-2000:]}


def coqchk_property(prop, timeout=3000):
    """thorough tier: re-check the compiled property file and everything it depends on with the
    independent checker; returns (ok, summary text)"""
    p = subprocess.run(["timeout", str(timeout), "coqchk", "-silent", "-o", "-Q", ".", "DRF", "DRF.Properties.%s" % prop],
                       cwd=COQ, capture_output=True, text=True)
    out = p.stdout + p.stderr
    i = out.find("CONTEXT SUMMARY")
    summary = out[i:] if i >= 0 else out[-1500:]
    return p.returncode == 0, re.sub(r"\s+", " ", summary)[:1500]


# --------------------------------------------------------------------------- extracted runners

def build_runner(fam):
    """compile Extract/<Fam>Runner.v (extracts Extract/<fam>_model.ml) and link with driver.ml"""
    vname = {"timeconv": "TimeConvRunner"}.get(fam, fam.capitalize() + "Runner")
    rc, out = coq_make(["Extract/%s.vo" % vname])
    if rc != 0:
        raise Broken("extraction build failed for %s:\n%s" % (fam, out[-4000:]))
    d = os.path.join(BUILD, fam)
    os.makedirs(d, exist_ok=True)
    ml = os.path.join(COQ, "Extract", "%s_model.ml" % fam)
    runner = os.path.join(d, "runner")
    with CoqLock():
        if (not os.path.exists(runner) or os.path.getmtime(runner) < os.path.getmtime(ml)
                or os.path.getmtime(runner) < os.path.getmtime(os.path.join(COQ, "Extract", "driver.ml"))):
            shutil.copy(ml, os.path.join(d, "model.ml"))
            shutil.copy(ml + "i", os.path.join(d, "model.mli"))
            shutil.copy(os.path.join(COQ, "Extract", "driver.ml"), d)
            p = subprocess.run(["ocamlfind", "ocamlopt", "-O3", "-w", "-a", "model.mli", "model.ml",
                                "driver.ml", "-o", "runner"], cwd=d, capture_output=True, text=True)
            if p.returncode != 0:
                raise Broken("ocaml build failed: " + p.stderr[-2000:])
    return runner


def _big_stack():
    """extracted code recurses structurally over long lists: give the runner the largest stack allowed"""
    import resource
    try:
        soft, hard = resource.getrlimit(resource.RLIMIT_STACK)
        resource.setrlimit(resource.RLIMIT_STACK, (hard, hard))
    except (ValueError, OSError):
        pass


def run_model(fam, cases, chunk=20000):
    """cases: list of lists of ints ([fid, args...]); returns list of lists of ints"""
    runner = build_runner(fam)
    out = []
    for i in range(0, len(cases), chunk):
        inp = "\n".join(" ".join(str(x) for x in c) for c in cases[i:i + chunk]) + "\n"
        p = subprocess.run([runner], input=inp, capture_output=True, text=True, preexec_fn=_big_stack)
        if p.returncode != 0:
            raise Broken("model runner failed: " + p.stderr[-2000:])
        lines = p.stdout.split("\n")
        for ln in lines[:len(cases[i:i + chunk])]:
            out.append([int(t) for t in ln.split()])
    if len(out) != len(cases):
        raise Broken("model runner returned %d lines for %d cases" % (len(out), len(cases)))
    return out


def run_model_vm(requires, expr_lines, timeout=300):
    """Evaluate Coq expressions with vm_compute inside coqc (guards the extraction).
    requires: text of Require lines; expr_lines: list of Coq terms of type list Z.
    Returns list of lists of ints."""
    d = os.path.join(BUILD, "vm")
    os.makedirs(d, exist_ok=True)
    name = "cases_%d_%d" % (os.getpid(), random.randrange(10 ** 9))
    path = os.path.join(d, name + ".v")
    body = requires + "\nFrom Coq Require Import ZArith List.\nImport ListNotations.\nLocal Open Scope Z_scope.\n"
    body += "Definition all_cases : list (list Z) := [\n  " + ";\n  ".join(expr_lines) + "].\n"
    body += "Eval vm_compute in all_cases.\n"
    open(path, "w").write(body)
    try:
        p = subprocess.run(["timeout", str(timeout), "coqc", "-Q", COQ, "DRF", "-w", "-all", path],
                           capture_output=True, text=True, cwd=d)
        if p.returncode != 0:
            raise Broken("vm_compute evaluation failed: " + (p.stdout + p.stderr)[-2000:])
        txt = p.stdout
        m = re.search(r"=\s*(\[.*\])\s*:\s*list \(list Z\)", txt, re.S)
        if not m:
            raise Broken("cannot parse vm_compute output: " + txt[-500:])
        inner = m.group(1)
        rows = re.findall(r"\[([^\[\]]*)\]", inner)
        return [[int(x) for x in re.findall(r"-?\d+", r)] for r in rows]
    finally:
        for ext in (".v", ".vo", ".vok", ".vos", ".glob"):
            try:
                os.remove(os.path.join(d, name + ext))
            except OSError:
                pass
        try:
            os.remove(os.path.join(d, "." + name + ".aux"))
        except OSError:
            pass


# --------------------------------------------------------------------------- findings, evidence

def load_known():
    p = os.path.join(VERIF, "known_findings.json")
    try:
        return json.load(open(p))["findings"]
    except OSError:
        return []


class Result:
    """what one run of a property check established"""

    def __init__(self, prop, tier, seed):
        self.prop, self.tier, self.seed = prop, tier, seed
        self.t0 = time.time()
        self.evaluations = 0
        self.nontrivial = set()
        self.samples = []
        self.violations = []      # dicts: signature, title, input, expected, observed
        self.broken = []          # strings: theorem / correspondence that no longer checks
        self.notes = []
        self.dist = {}
        self.proof = None
        self.extra = {}
        self.assumptions = []
        self.trusted = []
        self.rule = ""

    def count(self, key, n=1):
        self.dist[key] = self.dist.get(key, 0) + n

    def case(self, canon, nontrivial=True):
        self.evaluations += 1
        if nontrivial:
            self.nontrivial.add(hashlib.sha1(repr(canon).encode()).hexdigest()[:16])

    def sample(self, s, limit=6):
        if len(self.samples) < limit:
            self.samples.append(s)

    def violation(self, signature, title, inp, expected, observed):
        self.violations.append({"signature": signature, "title": title, "input": inp,
                                "expected": expected, "observed": observed})

    def disagree(self, what, inp=None, model=None, impl=None):
        self.broken.append({"what": what, "input": inp, "model": model, "impl": impl})


def finish(res, level="proof", checker_cmd=None):
    """write evidence, print KNOWN-FINDING / VIOLATION lines, return exit code"""
    prop = res.prop
    known = [k for k in load_known() if k.get("property") == prop]
    open_sigs = {k["signature"]: k for k in known if k.get("status") == "open"}
    os.makedirs(os.path.join(BUILD, "replay"), exist_ok=True)
    os.makedirs(EVIDENCE, exist_ok=True)
    for old in glob.glob(os.path.join(BUILD, "replay", "%s-*.json" % prop)):
        os.remove(old)
    new_viol = []
    seen_known = {}
    for v in res.violations:
        if v["signature"] in open_sigs:
            seen_known.setdefault(v["signature"], v)
        else:
            new_viol.append(v)
    for sig, v in seen_known.items():
        print("KNOWN-FINDING: property=%s %s [%s] e.g. input=%s" % (
            prop, open_sigs[sig].get("title", sig), sig, json.dumps(v["input"])[:300]))
    for sig, k in open_sigs.items():
        if sig not in seen_known:
            res.notes.append("listed finding %s did not reproduce in this run" % sig)
    code = 0
    lines = []
    if new_viol:
        # one VIOLATION line per distinct signature
        by_sig = {}
        for v in new_viol:
            by_sig.setdefault(v["signature"], v)
        for sig, v in by_sig.items():
            rp = os.path.join(BUILD, "replay", "%s-%s.json" % (prop, re.sub(r"[^A-Za-z0-9_.-]", "_", sig)[:60]))
            json.dump({"property": prop, "kind": "failing-input", "signature": sig, **v,
                       "broken": res.broken[:5], "replay": "./check %s --replay %s" % (prop, rp)},
                      open(rp, "w"), indent=1, default=str)
            lines.append("VIOLATION property=%s replay=%s" % (prop, rp))
        code = 1
    elif res.broken:
        rp = os.path.join(BUILD, "replay", "%s-broken.json" % prop)
        json.dump({"property": prop, "kind": "no-failing-input-found",
                   "no_longer_checks": res.broken[:20],
                   "note": "a proof obligation, a translator or the model/implementation "
                           "correspondence no longer checks; the search over the implementation "
                           "found no input on which the property itself fails"},
                  open(rp, "w"), indent=1, default=str)
        lines.append("VIOLATION property=%s replay=%s no-failing-input-found" % (prop, rp))
        code = 1
    proof = res.proof or {"obligations": 0, "discharged": 0, "theorems": [], "axioms": {}}
    cov = {
        "obligations": proof["obligations"],
        "discharged": proof["discharged"],
        "checker_cmd": checker_cmd or ("make -f Makefile.coq Properties/%s.vo  (coqc 8.16.1, full .vo; "
                                       "Print Assumptions under every theorem)" % prop),
        "trusted_base": ["Coq 8.16.1 kernel + vm_compute (no native_compute)",
                         "OCaml extraction with ExtrOcamlBasic only + Extract/driver.ml",
                         "harness/*.py correspondence generators and canonicalisers"] + res.trusted,
        "theorems": proof["theorems"],
        "axioms_per_theorem": proof["axioms"],
        "evaluations": res.evaluations,
        "distinct_nontrivial": len(res.nontrivial),
        "rule": res.rule,
        "samples": res.samples or ["(none)"],
        "distribution": res.dist,
        "correspondence_disagreements": len(res.broken),
        "known_findings_reproduced": sorted(seen_known),
        "notes": res.notes,
    }
    cov.update(res.extra)
    ev = {"property_id": prop, "tier": res.tier, "seed": res.seed, "level": level, "coverage": cov,
          "assumptions": res.assumptions, "wall_s": round(time.time() - res.t0, 2),
          "violations": len(new_viol) + (1 if (res.broken and not new_viol) else 0)}
    json.dump(ev, open(os.path.join(EVIDENCE, "%s.json" % prop), "w"), indent=1, default=str)
    for ln in lines:
        print(ln)
    if code == 0:
        print("OK property=%s tier=%s obligations=%d discharged=%d evaluations=%d wall=%.1fs" % (
            prop, res.tier, proof["obligations"], proof["discharged"], res.evaluations, time.time() - res.t0))
    sys.stdout.flush()
    return code


def number_form(rng, v):
    """the same integer in the forms a caller may pass it in: int, numpy integer, or a float / numpy float
    holding exactly that integer (accepted by the constructors, which validate `x == int(x)`)"""
    import numpy as np
    forms = ["int", "int", "np.int64", "np.uint64"]
    if float(v) == v and v < 2 ** 53:
        forms += ["float", "np.float64"]
    f = rng.choice(forms)
    return {"int": int, "np.int64": np.int64, "np.uint64": np.uint64, "float": float, "np.float64": np.float64}[f](v)


_PATH_FORM = [0]


PATH_FORM_NAMES = ["absolute", "absolute with a trailing slash", "relative to the working directory", "./relative/ with a trailing slash",
                   "absolute"]


def path_form(path, k=None):
    """the same directory in the spellings a caller may use (rotating; k forces one): absolute, with a trailing
    slash, relative to the current directory, './relative/'.  path_form.last = the spelling chosen"""
    if k is None:
        _PATH_FORM[0] += 1
        k = _PATH_FORM[0] % 5
    path_form.last = k
    if k == 1:
        return path + os.sep
    if k == 2:
        return os.path.relpath(path)
    if k == 3:
        return os.path.join(".", os.path.relpath(path)) + os.sep
    return path


def number_from_form(name, v):
    """inverse of number_form for replays: type name -> the value in that form"""
    import numpy as np
    return {"int": int, "int64": np.int64, "uint64": np.uint64, "float": float, "float64": np.float64}.get(name, int)(v)



def regenerate_with(res, module, gen_file, label):
    """run translator `module` (translate/<module>.py, translate(repo) -> Coq text) into coq/Gen/<gen_file>"""
    d = os.path.join(VERIF, "translate")
    if d not in sys.path:
        sys.path.insert(0, d)
    import importlib
    import c2gallina
    try:
        text = importlib.import_module(module).translate(REPO)
    except c2gallina.Unsupported as e:
        res.broken.append({"what": "%s: the source left the shape the translator accepts" % label, "log": str(e)})
        return
    except Exception as e:  # noqa
        res.broken.append({"what": "%s failed" % label, "log": repr(e)})
        return
    write_if_changed(os.path.join(COQ, "Gen", gen_file), text)
    res.trusted.append("translate/%s.py (%s, from Python's ast, fail-closed)" % (module, label))


def regenerate_state_sites(res):
    """T17 (every property): the places where the sources could keep state outside the modelled objects
    -> coq/Gen/StateSites.v; Proofs/StateSitesProofs.v proves every list empty"""
    d = os.path.join(VERIF, "translate")
    if d not in sys.path:
        sys.path.insert(0, d)
    import c2gallina
    import stateguard
    try:
        text = stateguard.translate(REPO)
    except c2gallina.Unsupported as e:
        res.broken.append({"what": "T17 (stateguard) cannot read the sources", "log": str(e)})
        return
    except Exception as e:  # noqa
        res.broken.append({"what": "T17 (stateguard) failed", "log": repr(e)})
        return
    write_if_changed(os.path.join(COQ, "Gen", "StateSites.v"), text)
    res.trusted.append("translate/stateguard.py (T17): syntactic list of static locals / mutable globals (clang AST) and of "
                       "class-level / module-level containers, `global` statements and cache decorators (Python ast)")
