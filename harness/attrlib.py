"""Attribute tables (C06 / C11): regeneration of coq/Gen/AttrTables.v and the comparison of the
table model (Model/Attrs.v, run through Extract/AttrsRunner.v) with real files."""
import os
import sys

import numpy as np

import common

sys.path.insert(0, os.path.join(common.VERIF, "translate"))


def regenerate(res):
    import attrs2gallina
    import c2gallina
    try:
        text = attrs2gallina.translate(common.REPO)
    except c2gallina.Unsupported as e:
        res.broken.append("translator T3 (attrs2gallina) rejects the current attribute code: %s" % e)
        return False
    common.write_if_changed(os.path.join(common.COQ, "Gen", "AttrTables.v"), text)
    return True


def codes(s):
    b = s.encode("latin-1") if isinstance(s, str) else bytes(s)
    return [len(b)] + list(b)


def dtype_queries(cfg):
    """what HDF5 reports for the element type the writer was created with (the real type: a complex
    channel stores the queries of its component type)"""
    return {"H5Tget_class": 1 if cfg.kind == "f" else 0, "H5Tget_size": cfg.size,
            "H5Tget_order": 1 if cfg.order == ">" else 0, "H5Tget_precision": 8 * cfg.size, "H5Tget_offset": 0}


def env(cfg, seq=0, init_ts=0, uuid="verif-12345678-90ab-cdef-1234-567890abcdef-session-A", clock=0):
    f = {"num_subchannels": cfg.nsub, "is_complex": int(cfg.is_complex), "subdir_cadence_secs": cfg.sc,
         "file_cadence_millisecs": cfg.fc, "is_continuous": int(cfg.cont), "sample_rate_numerator": cfg.n,
         "sample_rate_denominator": cfg.d, "init_utc_timestamp": init_ts, "present_seq": seq}
    out = [len(f)]
    for k, v in f.items():
        out += codes(k) + [int(v)]
    out += [1] + codes("uuid_str") + codes(uuid)
    q = dtype_queries(cfg)
    out += [len(q)]
    for k, v in q.items():
        out += codes(k) + [int(v)]
    out += [int(clock)]
    return out


def decode(l):
    """list of ints printed by put_attrs -> {name: (tag, value)}"""
    out, i = {}, 0
    while i < len(l):
        n = l[i]
        name = bytes(l[i + 1:i + 1 + n]).decode("latin-1")
        i += 1 + n
        tag = l[i]
        if tag == 3:
            m = l[i + 1]
            out[name] = (3, bytes(l[i + 2:i + 2 + m]).decode("latin-1"))
            i += 2 + m
        else:
            out[name] = (tag, l[i + 1])
            i += 2
    return out


def actual(h5obj):
    """attributes of a real HDF5 object in the same form"""
    out = {}
    for k, v in h5obj.attrs.items():
        if isinstance(v, (bytes, str, np.bytes_, np.str_)):
            out[k] = (3, v.decode("latin-1") if isinstance(v, bytes) else str(v))
            continue
        a = np.asarray(v)
        if a.ndim == 1 and a.shape[0] == 1:
            a = a[0]
        if a.dtype.kind in "SU":
            x = a.item()
            out[k] = (3, x.decode("latin-1") if isinstance(x, bytes) else str(x))
        elif a.dtype == np.dtype("int32"):
            out[k] = (0, int(a))
        elif a.dtype == np.dtype("uint64"):
            out[k] = (1, int(a))
        else:
            out[k] = ("dtype " + a.dtype.str, a.tolist())
    return out


def init_timestamp_candidates(cfg):
    """the session start timestamp: whole seconds of the first sample.  The writer computes it in long
    double (start / (n/d)); both the exact floor and the long-double evaluation are admitted"""
    exact = cfg.start * cfg.d // cfg.n
    ld = int(np.longdouble(cfg.start) / (np.longdouble(cfg.n) / np.longdouble(cfg.d)))
    return {exact, ld}


def regenerate_pyfront(res):
    """T6: the integer logic of DigitalRFWriter.rf_write / rf_write_blocks -> coq/Gen/PyFront.v"""
    import c2gallina
    import pyfront2gallina
    try:
        text = pyfront2gallina.translate(common.REPO)
    except c2gallina.Unsupported as e:
        res.broken.append("translator T6 (pyfront2gallina) rejects the current Python front end: %s" % e)
        return False
    common.write_if_changed(os.path.join(common.COQ, "Gen", "PyFront.v"), text)
    return True


def regenerate_wblocks(res):
    """T11: control skeleton of digital_rf_write_blocks_hdf5 -> coq/Gen/WBlocksGen.v"""
    import c2gallina
    import wblocks2gallina
    try:
        text = wblocks2gallina.translate(common.REPO)
    except c2gallina.Unsupported as e:
        res.broken.append("translator T11 (wblocks2gallina) rejects the current digital_rf_write_blocks_hdf5: %s" % e)
        return False
    common.write_if_changed(os.path.join(common.COQ, "Gen", "WBlocksGen.v"), text)
    return True


def regenerate_ggs(res):
    """T12: digital_rf_get_global_sample -> coq/Gen/GgsGen.v"""
    import c2gallina
    import ggs2gallina
    try:
        text = ggs2gallina.translate(common.REPO)
    except c2gallina.Unsupported as e:
        res.broken.append("translator T12 (ggs2gallina) rejects the current digital_rf_get_global_sample: %s" % e)
        return False
    common.write_if_changed(os.path.join(common.COQ, "Gen", "GgsGen.v"), text)
    return True
