"""Confirm a seeded change and run the checks against it.
usage: seedtest.py <seed id, e.g. C04a> <property> [more properties...]
The agent's worktree /tmp/seed_<id>/SEED holds patch.diff, demo.py, meta.json.  We (1) build an
unmodified worktree of /repo HEAD and expect the demo to pass, (2) apply the patch, rebuild and
expect the demo to fail, (3) run ./check for the listed properties with DRF_REPO pointing at the
patched worktree (other work uses /repo concurrently, so the patch is applied to a scratch
worktree of the same commit instead of /repo itself), (4) store everything in seeded/<id>/."""
import json
import os
import shutil
import subprocess
import sys
import tempfile

V = os.path.dirname(os.path.dirname(os.path.abspath(__file__)))


def sh(cmd, **kw):
    return subprocess.run(cmd, shell=True, capture_output=True, text=True, **kw)


def build(wt):
    s = tempfile.mkdtemp(prefix="seedbuild-")
    shutil.copytree(os.path.join(wt, "python/digital_rf"), os.path.join(s, "digital_rf"),
                    ignore=shutil.ignore_patterns("__pycache__", "*.so"))
    if not os.path.exists(os.path.join(s, "digital_rf/_version.py")):
        shutil.copy("/repo/python/digital_rf/_version.py", os.path.join(s, "digital_rf/_version.py"))
    p = sh("gcc -O1 -shared -fPIC -w -o %s/digital_rf/_py_rf_write_hdf5.cpython-312-x86_64-linux-gnu.so "
           "%s/c/lib/rf_write_hdf5.c %s/python/lib/py_rf_write_hdf5.c -I%s/c/include -I/usr/include/hdf5/serial "
           "-I/root/.pyenv/versions/3.12.1/include/python3.12 -I/venv/lib/python3.12/site-packages/numpy/_core/include "
           "-L/usr/lib/x86_64-linux-gnu -lhdf5_serial -lz -lm" % (s, wt, wt, wt))
    return s, p.returncode, p.stderr[-500:]


def run_demo(s, demo, cwd):
    env = dict(os.environ, PYTHONPATH=s, HDF5_USE_FILE_LOCKING="FALSE", PYTHONHASHSEED="0")
    p = subprocess.run(["timeout", "600", "/venv/bin/python", "-W", "ignore", demo], capture_output=True, text=True, env=env, cwd=cwd)
    return p.returncode, (p.stdout + p.stderr)[-800:]


def main():
    sid, props = sys.argv[1], sys.argv[2:]
    src = "/tmp/seed_%s/SEED" % sid
    dst = os.path.join(V, "seeded", sid)
    os.makedirs(dst, exist_ok=True)
    old = {}
    if os.path.exists(os.path.join(dst, "meta.json")):
        try:
            old = json.load(open(os.path.join(dst, "meta.json")))
        except Exception:  # noqa
            old = {}
    if os.path.isdir(src):
        for f in os.listdir(src):
            if os.path.isfile(os.path.join(src, f)):
                shutil.copy(os.path.join(src, f), os.path.join(dst, f))
    meta = json.load(open(os.path.join(dst, "meta.json")))
    for k in ("verification", "verification_history", "first_evaluation"):      # keep the record of earlier evaluations
        if k in old and k not in meta:
            meta[k] = old[k]
    wt = "/tmp/seedchk_%s" % sid
    sh("git -C /repo worktree remove --force %s" % wt)
    r = sh("git -C /repo worktree add -q %s HEAD" % wt)
    res = {"repo_head": sh("git -C /repo rev-parse --short HEAD").stdout.strip()}
    try:
        s0, rc, err = build(wt)
        res["base_build_rc"] = rc
        res["demo_on_unmodified"] = run_demo(s0, os.path.join(dst, "demo.py"), dst)
        shutil.rmtree(s0, True)
        ap = sh("git -C %s apply %s" % (wt, os.path.join(dst, "patch.diff")))
        res["apply_rc"] = ap.returncode
        res["apply_err"] = ap.stderr[-300:]
        s1, rc, err = build(wt)
        res["patched_build_rc"] = rc
        res["demo_on_patched"] = run_demo(s1, os.path.join(dst, "demo.py"), dst)
        shutil.rmtree(s1, True)
        res["confirmed"] = (res["demo_on_unmodified"][0] == 0 and res["demo_on_patched"][0] != 0 and ap.returncode == 0
                            and res["patched_build_rc"] == 0)
        res["checks"] = {}
        priv = tempfile.mkdtemp(prefix="seedpriv-")
        sh("cp -r %s/coq %s/coq" % (V, priv))
        os.makedirs(os.path.join(priv, "build"))
        os.makedirs(os.path.join(priv, "evidence"))
        for p in props:
            env = dict(os.environ, DRF_REPO=wt, DRF_COQ=os.path.join(priv, "coq"), DRF_BUILD=os.path.join(priv, "build"),
                       DRF_EVIDENCE=os.path.join(priv, "evidence"))
            c = subprocess.run(["./check", p, "--tier", "quick"], capture_output=True, text=True, env=env, cwd=V)
            lines = [ln for ln in c.stdout.splitlines() if ln.startswith(("VIOLATION", "OK ", "KNOWN-FINDING"))]
            res["checks"][p] = {"exit": c.returncode, "lines": lines[:6]}
        rp = os.path.join(priv, "build", "replay")
        if os.path.isdir(rp):
            shutil.rmtree(os.path.join(dst, "replay"), True)
            shutil.copytree(rp, os.path.join(dst, "replay"))
        shutil.rmtree(priv, True)
    finally:
        sh("git -C /repo worktree remove --force %s" % wt)
    runs = meta.get("verification_history", [])
    if "verification" in meta:
        runs.append({"checks": meta["verification"].get("checks"), "repo_head": meta["verification"].get("repo_head")})
    meta["verification_history"] = runs[-4:]
    meta["verification"] = res
    if "first_evaluation" not in meta:
        meta["first_evaluation"] = {"checks": (runs[0].get("checks") if runs else res.get("checks")), "repo_head": res.get("repo_head")}
    json.dump(meta, open(os.path.join(dst, "meta.json"), "w"), indent=1)
    print(json.dumps(res, indent=1)[:3000])


if __name__ == "__main__":
    main()
