"""Assemble MANIFEST.json from manifest.d/*.json fragments (one check entry per property)."""
import glob
import json
import os

V = os.path.dirname(os.path.dirname(os.path.abspath(__file__)))
props = [json.loads(l)["id"] for l in open(os.path.join(V, "properties.jsonl"))]
m = json.load(open(os.path.join(V, "MANIFEST.json")))
checks = {}
for f in sorted(glob.glob(os.path.join(V, "manifest.d", "C*.json"))):
    try:
        c = json.load(open(f))
    except ValueError:
        continue
    if not all(k in c for k in ("property_id", "quick_cmd", "evidence_file", "level_claimed", "level_note")):
        print("skipping incomplete fragment", f)
        continue
    if not os.path.exists(os.path.join(V, "harness", "props", c["property_id"].lower() + ".py")):
        print("skipping fragment without a check module", f)
        continue
    checks[c["property_id"]] = c
na_reasons = {}
if os.path.exists(os.path.join(V, "manifest.d", "not_applicable.json")):
    na_reasons = json.load(open(os.path.join(V, "manifest.d", "not_applicable.json")))
m["checks"] = [checks[p] for p in props if p in checks]
m["not_applicable"] = [{"property_id": p, "reason": na_reasons.get(p, "check not yet built in this revision (planned; see DESIGN.md section 8)")}
                       for p in props if p not in checks]
for e in m.get("engines", []):
    e["serves_properties"] = [p for p in props if p in checks]
json.dump(m, open(os.path.join(V, "MANIFEST.json"), "w"), indent=1)
print("checks:", [c["property_id"] for c in m["checks"]])
