"""C19 -- writer bookkeeping matches the recording."""
import os

import common
import writerlib as wl

LEVEL = "proof"


def regenerate(res):
    import attrlib
    attrlib.regenerate_pyfront(res)
    common.regenerate_with(res, "ctxmgr2gallina", "CtxMgrGen.v", "T21: DigitalRFWriter.close / __enter__ / __exit__")


def run(res):
    nh = 150 if res.tier == "quick" else 3000
    res.rule = ("random histories of rf_write / rf_write_blocks / close over all writer modes with 25% rejected "
                "calls interleaved (lengths and gaps chosen around file edges; zero-length writes included); "
                "non-trivial = distinct (config, history); after EVERY call the getters are compared with the Coq "
                "model (Model/PyWriter.v) and with the counters oracle computed from the accepted calls")

    def oracle(cfg, ops, reports, files, chdir, mrep, mfiles, hist):
        written = gap = 0
        high = None        # highest relative index written
        for j, (op, rep) in enumerate(zip(ops, reports)):
            if rep[0] == 0 and op[0] in ("w", "b"):
                if op[0] == "w":
                    ln = op[2]
                    ns = op[1] if op[1] is not None else (high + 1 if high is not None else 0)
                    if ln > 0:
                        high = ns + ln - 1
                else:
                    ln = op[1]
                    G, D = op[3], op[4]
                    high = G[-1] + (ln - D[-1]) - 1
                written += ln
                nxt = 0 if high is None else high + 1
                gap = nxt - written
                if rep[1] != nxt or rep[2] != nxt:
                    res.violation("next-available-wrong", "return value / next available sample is not one past the highest index written",
                                  dict(hist, call=j), nxt, rep[1:3])
                elif rep[3] != written:
                    res.violation("total-written-wrong", "total samples written is not the number of samples accepted",
                                  dict(hist, call=j), written, rep[3])
                elif rep[4] != gap or rep[3] + rep[4] != rep[2]:
                    sig = "gap-count-empty-write" if (op[0] == "w" and op[2] == 0) or any(
                        o[0] == "w" and o[2] == 0 and r[0] == 0 for o, r in zip(ops[:j], reports[:j])) else "gap-count-wrong"
                    res.violation(sig, "total gap samples is not the number of skipped indices (written + gap != next available)",
                                  dict(hist, call=j), gap, rep[4])
            elif rep[0] != 0:
                # rejected: counters must be unchanged
                prev = reports[j - 1][2:5] if j > 0 else [0, 0, 0]
                if rep[2:5] != prev:
                    res.violation("rejected-call-changed-counters", "a rejected call changed the counters",
                                  dict(hist, call=j), prev, rep[2:5])
        # last file / dir written: those containing the most recently written sample, available after close
        if high is not None and ops[-1][0] == "c":
            K = cfg.start + high
            F = wl.F_of(cfg, K)
            want = [f for f in files if f["ms"] == F]
            lastf = files_last = None
        res.count("histories")

    wl.run_histories(res, nh, oracle, invalid_rate=0.25, far=True, after_close=0.3)
    # last file/dir getters on a dedicated set (need the writer object after close)
    check_last_getters(res, 30 if res.tier == "quick" else 300)
    res.assumptions += ["the state after an I/O failure or a refused attempt to enter a finalized file period is not claimed (as the property says)"]
    res.trusted += ["Model/PyWriter.v + Model/WriterCore.v are hand models, tied by this correspondence"]


def check_last_getters(res, n):
    import digital_rf  # noqa
    rng = res.rng
    work = common.scratch_dir()
    earlier = None          # (writer, last file, last dir, history): a writer closed before the current one
    for i in range(n):
        cfg = wl.gen_cfg(rng)
        ops = wl.gen_ops(rng, cfg, rng.randrange(1, 5), blocks=True, close=False)
        # the channel path itself may look like the names the writer manipulates (mktemp -d gives /tmp/tmp.XXXX)
        chdir = os.path.join(work, ["g%d", "tmp.g%d", "rf@%d.000.h5", "tmp.rf@%d.h5"][i % 4] % i, ["ch", "tmp.ch"][(i // 4) % 2])
        if i % 5 == 3:
            # ... or be long (more than 300 characters, well inside the library's 1024)
            chdir = os.path.join(work, "g%d" % i, "d" * 100, "e" * 100, "f" * 70, "ch")
        if i % 3 == 1:
            # subdirectories left by an earlier session (emptied by a ring buffer, or pre-created): the writer moves
            # into directories that exist already
            ms0 = cfg.start * cfg.d * 1000 // cfg.n
            os.makedirs(chdir, exist_ok=True)
            for j in range(0, 8):
                os.makedirs(os.path.join(chdir, wl.expected_subdir(cfg, ms0 + j * cfg.sc * 1000)), exist_ok=True)
            res.count("last_getters_with_preexisting_subdirs")
        reports, w = wl.run_impl(cfg, ops, chdir)
        m = wl.abs_of_history(cfg, ops, reports)
        closing = wl.CLOSINGS[i % len(wl.CLOSINGS)]
        hist = {"cfg": cfg.as_dict(), "ops": [list(op) for op in ops], "closed_by": closing}
        for phase in ("open", "closed"):
            if phase == "closed":
                wl.close_writer(w, closing)
                res.count("closed-by:" + closing)
            lf, ld = w.get_last_file_written(), w.get_last_dir_written()
            res.case(("last", cfg.key(), str(ops), phase), nontrivial=False)
            if not m:
                continue
            # most recently written sample = highest index of the last accepted non-empty call
            K = max(m)
            F = wl.F_of(cfg, K)
            import datetime
            S = cfg.sc * ((K * cfg.d // cfg.n) // cfg.sc)
            dt = datetime.datetime(1970, 1, 1) + datetime.timedelta(seconds=S)
            sub = "%04d-%02d-%02dT%02d-%02d-%02d" % (dt.year, dt.month, dt.day, dt.hour, dt.minute, dt.second)
            wantf = os.path.join(chdir, sub, "rf@%d.%03d.h5" % (F // 1000, F % 1000))
            if os.path.abspath(lf or "x") != os.path.abspath(wantf) or os.path.abspath(ld or "x") != os.path.abspath(os.path.join(chdir, sub)):
                res.violation("last-file-wrong", "get_last_file_written / get_last_dir_written do not name the file of the most recent sample (%s)" % phase,
                              hist, [wantf, os.path.join(chdir, sub)], [lf, ld])
        res.count("last_getters")
        # what a closed writer reports stays what it is when other writers are closed after it
        if earlier is not None:
            w0, lf0, ld0, hist0 = earlier
            now = (w0.get_last_file_written(), w0.get_last_dir_written())
            if now != (lf0, ld0):
                res.violation("last-file-changes-after-another-close", "get_last_file_written / get_last_dir_written of a closed "
                              "writer changed when another writer was closed", dict(hist0, then_closed=hist), [lf0, ld0], list(now))
        earlier = (w, w.get_last_file_written(), w.get_last_dir_written(), hist)


def replay(res, rp):
    return wl.replay(res, rp)
