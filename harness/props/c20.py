"""C20 -- Live metadata visibility and non-destructive reading.
Tie: interleavings, at call granularity, of DigitalMetadataWriter.write and DigitalRFWriter.rf_write
with reader construction and queries on one tree (RF channel ch0 with its ch0/metadata channel):
 * every metadata observation is compared with the extracted Model/MdLive.v (exec) and, directly,
   with the Spec of the writes that have returned (visibility through old and new readers);
 * the whole tree is hashed (names, sizes, contents) before and after every read-only call of
   DigitalMetadataReader, DigitalRFReader and lsdrf/ilsdrf."""
import hashlib
import os

import numpy as np

import common
from props.c12 import spec_answer
from props.c13 import PREFIX, cdiv

RATES = [(10 ** 8, 7), (10 ** 6, 3), (200, 3), (25 * 10 ** 6, 3), (1, 1), (100, 1), (10 ** 9, 7), (10 ** 11, 1001)]
FCS = [1, 3, 60, 3600]
SCS = [3600, 86400]


def tree_hash(top):
    out = {}
    for root, dirs, files in os.walk(top):
        dirs.sort()
        r = os.path.relpath(root, top)
        out[r + "/"] = "dir"
        for f in sorted(files):
            p = os.path.join(root, f)
            h = hashlib.sha1()
            with open(p, "rb") as fh:
                while True:
                    b = fh.read(1 << 20)
                    if not b:
                        break
                    h.update(b)
            out[os.path.join(r, f)] = "%d:%s" % (os.path.getsize(p), h.hexdigest())
    return out


class Scenario:
    def __init__(self, res, n, d, fc, sc, epoch=False, t0=None):
        import digital_rf
        self.drf = digital_rf
        self.res, self.n, self.d, self.fc, self.sc = res, n, d, fc, sc
        self.epoch = epoch
        self.top = common.scratch_dir()
        self.ch = os.path.join(self.top, "ch0")
        self.md = os.path.join(self.ch, "metadata")
        os.makedirs(self.md)
        # epoch scenarios start at index 0, so that indices of different decimal lengths share a file
        self.t0 = 0 if epoch else (t0 if t0 is not None else 1500000000 + res.rng.randrange(0, 86400))
        self.k = cdiv(self.t0 * n, d)               # metadata cursor = RF start sample
        self.rf_next = self.k
        self.rfw = digital_rf.DigitalRFWriter(self.ch, np.int16, 3600, 1000, self.k, n, d, uuid_str="c20",
                                              is_complex=False, num_subchannels=1, is_continuous=True,
                                              marching_periods=False)
        nf = common.number_form
        # the file-name prefix is the caller's choice (anything without '/' and '@'): rotate a few, among them names
        # that are not a plain word
        from props import c13 as _c13
        self.prefix = res.rng.choice(_c13.PREFIXES + ["site-a.meta", "rx-1"])
        self.mdw = digital_rf.DigitalMetadataWriter(self.md, nf(res.rng, sc), nf(res.rng, fc), nf(res.rng, n), nf(res.rng, d), self.prefix)
        self.readers = []
        self.spec = {}
        self.has_opt = {}
        self.tag = 1
        # an RF reader that fetches its metadata reader while the metadata channel is still empty
        try:
            self.rf_early = digital_rf.DigitalRFReader(self.top)
            self.rf_early.read_metadata(self.k, self.k + 10, "ch0")
        except Exception:  # noqa  (no data yet: judged later)
            self.rf_early = getattr(self, "rf_early", None)
        self.rf_first = None
        self.mops = []        # model encoding of the metadata-related ops
        self.iobs = []        # implementation observations, same encoding as the model's output
        self.log = []         # human-readable op log for replays

    def age_files(self):
        """make every metadata file older than the file cadence and keep it writable: the reader's
        deleting branch (_add_metadata, except IOError) is then guarded only by 'the file cannot be
        opened', which is the valid-tree hypothesis of C20_reads_do_not_mutate"""
        import time
        old = time.time() - 2 * self.fc - 100
        for root, _d, files in os.walk(self.md):
            for f in files:
                os.utime(os.path.join(root, f), (old, old))

    def check_valid_tree(self):
        """the hypothesis of the theorem, checked on the real tree: every metadata file opens"""
        import h5py
        for root, _d, files in os.walk(self.md):
            for f in files:
                p = os.path.join(root, f)
                try:
                    with h5py.File(p, "r"):
                        pass
                    self.res.count("valid-tree:file-opens-readable-writable-old",
                                   int(os.access(p, os.R_OK) and os.access(p, os.W_OK)))
                except IOError as e:
                    self.res.disagree("tree is not valid: a metadata file cannot be opened", p, "openable", repr(e))

    # ---- every read-only call goes through here
    def ro(self, what, fn):
        self.age_files()
        h0 = tree_hash(self.top)
        try:
            out = fn()
            err = None
        except Exception as e:  # noqa
            out, err = None, e
        h1 = tree_hash(self.top)
        self.res.count("hashed-read-only-call:" + what.split("(")[0])
        if h0 != h1:
            diff = {k: (h0.get(k), h1.get(k)) for k in set(h0) | set(h1) if h0.get(k) != h1.get(k)}
            self.res.violation("read-mutates-tree", "a read-only call created, modified or deleted something",
                               self.replay_input(what), "tree unchanged", diff)
        return out, err

    def replay_input(self, what):
        return {"n": self.n, "d": self.d, "fc": self.fc, "sc": self.sc, "t0": self.t0, "ops": list(self.log),
                "failing_call": what, "prefix": self.prefix}

    # ---- ops
    def md_write(self):
        rng = self.res.rng
        n, d, fc = self.n, self.d, self.fc
        m = rng.choice([1, 1, 2, 3])
        ks = []
        k = self.k
        for _ in range(m):
            T = ((k * d // n) // fc + 1) * fc           # next file boundary
            b = cdiv(T * n, d)
            if self.epoch:                              # stay inside the file: 8, 9, 10, ... 99, 100, ...
                k = rng.choice([k + 1, k + 1, k + rng.randrange(1, 6), k + rng.randrange(1, 40)])
            else:
                k = rng.choice([k + 1, k + rng.randrange(1, 20), max(k + 1, b - 1), max(k + 1, b), max(k + 1, b + 1)])
            ks.append(k)
        dup = bool(self.spec) and rng.random() < 0.12
        back = False
        if dup:
            ks = [rng.choice(sorted(self.spec))]
        elif self.spec and rng.random() < 0.25:
            # back-fill: indices below everything written so far (an earlier file or the head of the first
            # one); readers that have already answered queries must report them as well
            lo = min(self.spec)
            Tlo = ((lo * d // n) // fc) * fc
            cands = [lo - 1, lo - rng.randrange(1, 20), cdiv(Tlo * n, d) - 1, cdiv((Tlo - fc) * n, d), cdiv((Tlo - 3 * fc) * n, d) + 1]
            cands = [c for c in cands if 0 < c < lo]
            if cands:
                ks = sorted(set(rng.sample(cands, min(len(cands), m))))
                back = True
        tags = list(range(self.tag, self.tag + len(ks)))
        self.tag += len(ks)
        form = rng.choice(["dict", "list"])
        # the field "opt" is written only by some calls, never by the first (heterogeneous samples)
        opt = bool(self.spec) and rng.random() < 0.5
        data = {"tag": tags, "x": [float(t) / 2 for t in tags]} if form == "dict" else \
            [{"tag": t, "x": float(t) / 2} for t in tags]
        if opt and form == "dict":
            data["opt"] = [t * 10 for t in tags]
        elif opt:
            for dd in data:
                dd["opt"] = dd["tag"] * 10
        # a heartbeat: one sample without any field (`write(k, {})`, or `{}` in a list of dicts).  It is a stored
        # sample like any other: inside the bounds, returned (empty) by every read, the latest one if it is the newest
        hb = bool(self.spec) and not dup and len(ks) == 1 and rng.random() < 0.12
        if hb:
            opt = False
            form = rng.choice(["hb-dict", "hb-list"])
            data = {} if form == "hb-dict" else [{}]
            if not hasattr(self, "hb"):
                self.hb = set()
            if ks[0] not in self.spec:
                self.hb.add(ks[0])
        self.log.append(["mdwrite", ks, tags, form, opt])
        try:
            self.mdw.write(ks, data)
            ok = 1
        except IOError:
            ok = 0
        exp_ok = 1
        for kk, t in zip(ks, tags):
            if kk in self.spec:
                exp_ok = 0
                break
            self.spec[kk] = t
            self.has_opt[kk] = opt
        if not dup and not back:
            self.k = ks[-1]
        self.mops += [0, len(ks)] + [x for kk, t in zip(ks, tags) for x in (kk, t)]
        self.iobs += [0, ok]
        self.res.case(("mdwrite", self.n, self.d, self.fc, tuple(ks)))
        self.res.count("op:md-write" + (":duplicate" if dup else ":back-fill" if back else ""))
        if hb:
            self.res.count("op:md-write:heartbeat-sample-without-fields")
        if ok != exp_ok:
            self.res.violation("write-status-wrong", "metadata write accepted a duplicate / refused new indices",
                               self.replay_input("write"), exp_ok, ok)
        # as soon as the call has returned: every reader created earlier and a new one must see it
        if exp_ok and not dup:
            self.new_reader(via_rf=rng.random() < 0.3)
            idx = sorted(set([0, len(self.readers) - 1] + [rng.randrange(len(self.readers)) for _ in range(2)]))
            for r in idx:
                self.query(r, 0, 0, 0, after_write=True)
                self.query(r, 1, ks[-1], ks[-1], after_write=True)
                self.query(r, 3, 0, 0, after_write=True)

    def tag_of(self, k, v):
        """the tag a returned sample carries; a heartbeat sample has no field at all: it stands for the tag the
        history gave it, provided it came back empty"""
        if "tag" in v:
            return int(v["tag"])
        if int(k) in getattr(self, "hb", ()) and len(v) == 0:
            return self.spec[int(k)]
        return -2

    def rf_write(self):
        rng = self.res.rng
        m = rng.choice([1, 5, 40, 200])
        self.log.append(["rfwrite", m])
        self.rfw.rf_write(np.arange(m, dtype=np.int16))
        self.rf_next += m
        self.res.count("op:rf-write")

    def new_reader(self, via_rf=False):
        self.log.append(["newreader", bool(via_rf)])
        if via_rf:
            rd, err = self.ro("DigitalRFReader(top).get_digital_metadata('ch0')",
                              lambda: self.drf.DigitalRFReader(self.top).get_digital_metadata("ch0"))
        else:
            rd, err = self.ro("DigitalMetadataReader(dir)", lambda: self.drf.DigitalMetadataReader(common.path_form(self.md)))
        if err is not None:
            self.res.violation("reader-construction-fails", "cannot construct a metadata reader on a valid tree",
                               self.replay_input("newreader"), "reader", repr(err))
            return
        self.readers.append(rd)
        self.mops += [1]
        self.iobs += [1]
        self.res.count("op:new-md-reader" + (":via-rf-reader" if via_rf else ""))

    def query(self, r, kind, a, b, after_write=False):
        rd = self.readers[r]
        self.log.append(["query", r, kind, a, b])
        q = (kind, a, b, None)
        if kind == 0:
            out, err = self.ro("get_bounds()", rd.get_bounds)
            got = [0, 1, int(out[0]), int(out[1])] if err is None else ([2, 0] if isinstance(err, IOError) else ["exc", repr(err)])
            self.mops += [2, r]
            self.iobs += [2] + got[1:] if got[0] == 0 else [2, 0] if got == [2, 0] else ["exc"]
        else:
            if kind == 1:
                call, name = (lambda: rd.read(a, b)), "read(a,b)"
                self.mops += [3, r, a, b, 0]
            elif kind == 2:
                call, name = (lambda: rd.read(a, b, method="ffill")), "read(a,b,ffill)"
                self.mops += [3, r, a, b, 1]
            else:
                call, name = rd.read_latest, "read_latest()"
                self.mops += [4, r]
            out, err = self.ro(name, call)
            if err is None:
                got = [0, len(out)] + [x for k, v in out.items() for x in (int(k), self.tag_of(k, v))]
                for v in list(out.values()):          # the result is the caller's: taken apart here
                    if isinstance(v, dict):
                        v.clear()
                out.clear()
            elif isinstance(err, ValueError):
                got = [1, 0]
            elif isinstance(err, IOError):
                got = [2, 0]
            else:
                got = ["exc", repr(err)]
            self.iobs += [3] + got
        exp = spec_answer(self.spec, q)
        old = r < len(self.readers) - 1
        self.res.case(("q", self.n, self.d, self.fc, self.sc, len(self.log), r, kind, a, b))
        self.res.count("query:%s:%s-reader%s" % ({0: "get_bounds", 1: "read", 2: "read-ffill", 3: "read_latest"}[kind],
                                                  "older" if old else "newest", ":right-after-write" if after_write else ""))
        if got != exp:
            sig = ("not-visible-after-write:" if after_write else "live-query-wrong:") + \
                {0: "bounds", 1: "read", 2: "ffill", 3: "latest"}[kind]
            self.res.violation(sig, "a reader (created %s) does not report the writes that have returned" %
                               ("earlier" if old else "just now"), self.replay_input("query"), exp, got)

    def column_query(self):
        """reads that name the field 'opt', which some in-range samples lack: the call must either raise
        KeyError or return every sample of the range -- and, like every read, leave the tree alone"""
        rng = self.res.rng
        if not self.readers or not self.spec:
            return
        r = rng.randrange(len(self.readers))
        rd = self.readers[r]
        keys = sorted(self.spec)
        a = rng.choice(keys) - rng.choice([0, 1])
        b = rng.choice([k for k in keys if k >= a]) + rng.choice([0, 1])
        sel = [k for k in keys if a <= k <= b]
        which = rng.choice(["read-list", "read-str", "flatdict", "latest"])
        self.log.append(["colquery", r, which, a, b])
        if which == "read-list":
            out, err = self.ro("read(a,b,columns=['tag','opt'])", lambda: rd.read(a, b, columns=["tag", "opt"]))
            got = None if err is not None else [(int(k), int(v["tag"]), int(v["opt"])) for k, v in out.items()]
        elif which == "read-str":
            out, err = self.ro("read(a,b,columns='opt')", lambda: rd.read(a, b, columns="opt"))
            got = None if err is not None else [(int(k), self.spec[int(k)], int(v)) for k, v in out.items()]
        elif which == "flatdict":
            out, err = self.ro("read_flatdict(a,b,columns=['tag','opt'])",
                               lambda: rd.read_flatdict(a, b, columns=["tag", "opt"]))
            got = None if err is not None else (
                [(int(k), int(t), int(o)) for k, t, o in zip(out["index"], out["tag"], out["opt"])] if len(out["index"]) else [])
        else:
            sel = keys[-1:]
            out, err = self.ro("read_latest(columns='opt')", lambda: rd.read_latest(columns="opt"))
            got = None if err is not None else [(int(k), self.spec[int(k)], int(v)) for k, v in out.items()]
        loaded = sel
        if which == "latest":   # the forward-fill pass converts every sample of the last file before picking the last
            from props.c13 import spec_path
            lastp = spec_path(self.n, self.d, self.fc, self.sc, keys[-1])
            loaded = [k for k in keys if spec_path(self.n, self.d, self.fc, self.sc, k) == lastp]
        missing = any(not self.has_opt[k] for k in loaded)
        exp = "KeyError" if missing else [(k, self.spec[k], self.spec[k] * 10) for k in sel]
        obs = ("KeyError" if isinstance(err, KeyError) else repr(err)) if err is not None else got
        self.res.case(("colq", self.n, self.d, self.fc, len(self.log), which, a, b))
        self.res.count("query:columns-naming-a-field-%s" % ("some-samples-lack" if missing else "all-samples-have"))
        if obs != exp:
            self.res.violation("missing-column-not-reported", "a read naming a field that a sample of the range lacks "
                               "neither raised KeyError nor returned every sample",
                               self.replay_input("colquery"), exp, obs)

    def rf_query(self):
        rng = self.res.rng
        self.log.append(["rfquery"])
        rdr, err = self.ro("DigitalRFReader(top)", lambda: self.drf.DigitalRFReader(self.top))
        if rdr is None:
            return
        self.ro("DigitalRFReader.get_channels()", rdr.get_channels)
        b, err = self.ro("DigitalRFReader.get_bounds('ch0')", lambda: rdr.get_bounds("ch0"))
        self.ro("DigitalRFReader.get_properties('ch0')", lambda: rdr.get_properties("ch0"))
        if b and b[0] is not None:
            s = rng.randrange(int(b[0]), int(b[1]) + 1)
            e = min(int(b[1]), s + rng.randrange(0, 50))
            self.ro("DigitalRFReader.read(s,e,'ch0')", lambda: rdr.read(s, e, "ch0"))
            self.ro("DigitalRFReader.read_vector(s,n,'ch0')", lambda: rdr.read_vector(s, e - s + 1, "ch0"))
            self.ro("DigitalRFReader.read_metadata(s,e,'ch0')", lambda: rdr.read_metadata(s, e, "ch0"))
        # metadata THROUGH RF readers: a fresh one and one created before anything was written (it got its
        # metadata reader while the channel was empty) must both return every sample written so far
        if self.spec:
            ks = sorted(self.spec)
            a = rng.choice(ks)
            bnd = rng.choice([a, ks[-1], rng.choice(ks)])
            a, bnd = min(a, bnd), max(a, bnd)
            want = [k for k in ks if a <= k <= bnd]
            if getattr(self, "rf_first", None) is None:
                self.rf_first, _e = self.ro("DigitalRFReader(top)", lambda: self.drf.DigitalRFReader(self.top))
            for name, r in (("fresh", rdr), ("created before the first metadata write", self.rf_early), ("kept since its first use", self.rf_first)):
                if r is None:
                    continue
                out, err = self.ro("DigitalRFReader.read_metadata(a,b,'ch0',method=None)", lambda: r.read_metadata(a, bnd, "ch0", method=None))
                got = None if out is None else sorted(int(k) for k in out)
                self.res.count("rf-reader-metadata:" + name.split()[0])
                if got != want:
                    self.res.violation("not-visible-through-rf-reader", "DigitalRFReader.read_metadata (%s reader) does not return the "
                                       "metadata samples written in the range" % name,
                                       self.replay_input("read_metadata(%d, %d) through a DigitalRFReader %s" % (a, bnd, name)),
                                       want[:8], got[:8] if got is not None else repr(err)[:200])
        self.res.case(("rfq", self.n, self.d, len(self.log)), nontrivial=False)
        self.res.count("op:rf-reader-queries")

    def listing(self):
        rng = self.res.rng
        self.log.append(["lsdrf"])
        kw = rng.choice([{}, {"include_drf": False}, {"include_dmd": False}, {"reverse": True},
                         {"include_drf_properties": True, "include_dmd_properties": True}])
        self.ro("lsdrf(top)", lambda: self.drf.lsdrf(self.top, **kw))
        self.ro("lsdrf(channel)", lambda: self.drf.lsdrf(self.ch, recursive=rng.random() < 0.5))
        self.res.case(("ls", self.n, self.d, len(self.log)), nontrivial=False)
        self.res.count("op:lsdrf")

    def random_query(self):
        rng = self.res.rng
        if not self.readers:
            self.new_reader()
        r = rng.randrange(len(self.readers))
        keys = sorted(self.spec)
        pts = sorted({max(0, p) for k in keys for p in (k - 1, k, k + 1)} | {self.k + 3, max(0, cdiv(self.t0 * self.n, self.d) - 2)})
        a = rng.choice(pts)
        b = rng.choice([p for p in pts if p >= a] + [a])
        self.query(r, rng.choice([0, 1, 1, 2, 2, 3]), a, b)

    def finish(self):
        try:
            self.rfw.close()
        except Exception:  # noqa
            pass


def raise_stack_limit():
    """the extracted model recurses over candidate-file lists (one element per cadence slot, 86400 per
    day at 1 s cadence); child processes inherit the limit"""
    import resource
    soft, hard = resource.getrlimit(resource.RLIMIT_STACK)
    try:
        resource.setrlimit(resource.RLIMIT_STACK, (hard, hard))
    except (ValueError, OSError):
        pass


def run(res):
    common.use_impl()
    raise_stack_limit()
    rng = res.rng
    quick = res.tier == "quick"
    res.rule = ("interleaved histories on a tree ch0 (RF, int16) + ch0/metadata over rates x file cadences x subdir "
                "cadences: metadata writes (1-3 new indices stepping over file boundaries, dict/list forms, "
                "duplicates), RF writes, metadata reader construction (direct and via DigitalRFReader), metadata "
                "queries on old and new readers (get_bounds, read, read ffill, read_latest; right after every "
                "write through a reader created earlier and a new one), RF reader construction/get_bounds/"
                "get_properties/read/read_vector/read_metadata, lsdrf; the tree is hashed around every read-only "
                "call; non-trivial = distinct (scenario position, reader, query)")
    nscen = 10 if quick else 56
    nops = 28 if quick else 60
    agree = total = 0
    for si in range(nscen):
        n, d = RATES[si % len(RATES)]
        fc = FCS[(si // len(RATES) + si) % len(FCS)]
        sc = SCS[si % 2] if fc > 1 else 3600
        if si % 5 == 1 and fc <= 60:
            # one file per subdirectory: nearly every write opens a new subdirectory, which readers created
            # (and used) earlier must find as well
            sc = fc
            res.count("scenarios:one file per subdirectory")
        epoch = si % 5 == 4
        if epoch:                                    # a file must hold indices 0..>100
            n, d, fc = [(200, 3, 60), (100, 1, 3), (1, 1, 3600), (200, 3, 3600)][(si // 5) % 4]
            res.count("scenarios:epoch (decimal length changes inside a file)")
        t0 = None
        if si % 5 == 2:
            # the names of the files of one subdirectory differ in decimal length (seconds 0, 3, .., 9, 12 or
            # 999999999, 1000000000): their order in time is not their order as strings
            n, d = [(200, 3), (100, 1), (1, 1), (10 ** 6, 3)][(si // 5) % 4]
            fc, sc = [(3, 3600), (60, 3600), (1, 86400), (10, 3600)][(si // 5 + si // 20) % 4]
            t0 = [0, 10 ** 9 - rng.randrange(1, 2 * fc + 1), 10 ** 9 - fc, rng.randrange(0, 10)][(si // 10) % 4 if not quick else rng.randrange(4)]
            res.count("scenarios:file names of different decimal length in one subdirectory")
        sc_ = Scenario(res, n, d, fc, sc, epoch, t0)
        # a reader created before anything was written
        sc_.new_reader()
        sc_.query(0, 0, 0, 0)
        for _ in range(nops):
            op = rng.choice(["mdw", "mdw", "mdw", "rfw", "rfw", "q", "q", "q", "nr", "rfq", "ls", "cq", "cq"])
            if op == "mdw":
                sc_.md_write()
            elif op == "rfw":
                sc_.rf_write()
            elif op == "q":
                sc_.random_query()
            elif op == "nr":
                sc_.new_reader(via_rf=rng.random() < 0.4)
            elif op == "rfq":
                sc_.rf_query()
            elif op == "cq":
                sc_.column_query()
                sc_.random_query()                   # what the next reader call sees afterwards
            else:
                sc_.listing()
        sc_.rf_query()
        sc_.listing()
        sc_.column_query()
        sc_.random_query()
        sc_.check_valid_tree()
        sc_.finish()
        # ---- model
        nmo = sum(1 for x in sc_.log if x[0] in ("mdwrite", "newreader", "query"))   # colquery: oracle only
        out = common.run_model("metadata", [[20, n, d, fc, sc, nmo] + sc_.mops])[0]
        total += 1
        if out == sc_.iobs:
            agree += 1
        else:
            res.disagree("model (MdLive.exec) vs implementation: observations of an interleaved history",
                         sc_.replay_input("model"), out[:60], sc_.iobs[:60])
        res.count("scenarios")
        if si < 2:
            res.sample({"config": [n, d, fc, sc], "ops": sc_.log[:8]})
    res.extra["scenarios_agreeing_with_model"] = "%d/%d" % (agree, total)
    # ---- guard the extraction
    vm = common.run_model_vm("From DRF Require Import Extract.MetadataRunner.",
                             ["run 20 [200;3;3;3600; 6; 1; 2;0; 0;1;100000000001;1; 4;0; 3;0;100000000000;100000000002;1; 0;1;100000000001;5]"])
    ex = common.run_model("metadata", [[20, 200, 3, 3, 3600, 6, 1, 2, 0, 0, 1, 100000000001, 1, 4, 0, 3, 0, 100000000000,
                                         100000000002, 1, 0, 1, 100000000001, 5]])
    res.count("vm_compute_crosscheck", 1)
    if vm != ex:
        res.disagree("extracted OCaml vs vm_compute", None, vm, ex)
    res.extra["traces_validated_against_impl"] = total
    res.assumptions += [
        "call granularity: a reader call never overlaps a write call (one process, sequential); OS-level interleaving "
        "inside a call is C09's concern",
        "valid tree: every metadata file can be opened (checked with h5py on the real tree at the end of every "
        "scenario). Before every read-only call all metadata files are made older than the file cadence (os.utime) and "
        "are writable, so the deleting branch of _add_metadata is guarded only by that hypothesis -- as in the model, "
        "where it is proved unreachable -- and any deletion is seen by the tree hash",
        "reads with columns= naming a field that some sample lacks (KeyError in the current code) are compared with "
        "the oracle only; the model has no field names",
        "RF reads, listings and reader construction are not modelled: they are exercised with the tree hashed "
        "before and after each call",
        "a reader created before the first write keeps get_fields() == None afterwards (not part of the statement)",
    ]
    res.trusted.append("tree hash (sha1 of every file, directory names) as the observer of mutation")


def replay(res, rp):
    common.use_impl()
    import random
    i = rp["input"]
    res.rng = random.Random(0)
    print("config n=%d d=%d file_cadence=%d subdir_cadence=%d; replaying %d ops" % (i["n"], i["d"], i["fc"], i["sc"], len(i["ops"])))
    import digital_rf
    top = common.scratch_dir()
    md = os.path.join(top, "ch0", "metadata")
    os.makedirs(md)
    print("metadata file-name prefix:", repr(i.get("prefix", PREFIX)))
    w = digital_rf.DigitalMetadataWriter(md, i["sc"], i["fc"], i["n"], i["d"], i.get("prefix", PREFIX))
    readers, spec, bad = [], {}, False
    hbs = set()
    for op in i["ops"]:
        if op[0] == "mdwrite":
            ks, tags = op[1], op[2]
            try:
                if str(op[3]).startswith("hb"):
                    print("heartbeat sample (no fields) at", ks)
                    w.write(ks, {} if op[3] == "hb-dict" else [{}])
                    hbs.update(k for k in ks if k not in spec)
                else:
                    w.write(ks, [dict({"tag": t, "x": float(t) / 2}, **({"opt": t * 10} if len(op) > 4 and op[4] else {}))
                                 for t in tags])
            except IOError:
                pass
            for kk, t in zip(ks, tags):
                if kk in spec:
                    break
                spec[kk] = t
        elif op[0] == "newreader":
            readers.append(digital_rf.DigitalMetadataReader(md))
        elif op[0] == "colquery" and op[1] < len(readers):
            import time
            _, r, which, a, b = op
            rd = readers[r]
            old_t = time.time() - 2 * i["fc"] - 100
            for root, _d, files in os.walk(md):
                for f in files:
                    os.utime(os.path.join(root, f), (old_t, old_t))
            h0 = tree_hash(top)
            try:
                if which == "read-list":
                    rd.read(a, b, columns=["tag", "opt"])
                elif which == "read-str":
                    rd.read(a, b, columns="opt")
                elif which == "flatdict":
                    rd.read_flatdict(a, b, columns=["tag", "opt"])
                else:
                    rd.read_latest(columns="opt")
                outcome = "returned"
            except KeyError:
                outcome = "KeyError"
            h1 = tree_hash(top)
            if h0 != h1:
                print(" reader %d %s(%d, %d) naming field 'opt' -> %s; tree changed: %s" %
                      (r, which, a, b, outcome, sorted(k for k in set(h0) | set(h1) if h0.get(k) != h1.get(k))))
                bad = True
        elif op[0] == "query" and op[1] < len(readers):
            _, r, kind, a, b = op
            rd = readers[r]
            h0 = tree_hash(top)
            try:
                if kind == 0:
                    o = rd.get_bounds()
                    got = [0, 1, int(o[0]), int(o[1])]
                else:
                    o = rd.read(a, b) if kind == 1 else (rd.read(a, b, method="ffill") if kind == 2 else rd.read_latest())
                    got = [0, len(o)] + [x for k, v in o.items() for x in
                                         (int(k), int(v["tag"]) if "tag" in v else (spec[int(k)] if int(k) in hbs and not len(v) else -2))]
            except ValueError:
                got = [1, 0]
            except IOError:
                got = [2, 0]
            exp = spec_answer(spec, (kind, a, b, None))
            if got != exp or tree_hash(top) != h0:
                print(" reader %d kind %d a=%d b=%d: required %s observed %s tree-changed=%s" %
                      (r, kind, a, b, exp, got, tree_hash(top) != h0))
                bad = True
    print("REPRODUCED" if bad else "not reproduced (metadata ops only are replayed)")
    return 1 if bad else 0
