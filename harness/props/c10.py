"""C10 -- I/O fault containment in the writer.

Proof: coq/Properties/C10.v over the reactive writer model (Model/WriterProto.v) with a
single-fault oracle.  Tie (this file): every numbered file-system operation of a recording is
made to fail in turn (ENOSPC and EIO, once and persistently) by the LD_PRELOAD interposer; the
exceptions of the writer subprocess and the resulting tree are compared with the model's
prediction for the same fault under each close-path variant (Ignored / Checked: exactly one must
agree everywhere), and with the property's oracle (silent loss, stickiness, bad final file,
earlier files intact).  "Readable" in the silent-loss clause is judged twice: raw h5py of the
final-named files and a DigitalRFReader pass over the tree (a channel whose data files are whole
but which a reader cannot open -- no drf_properties.h5 -- has lost its samples)."""
import os
import shutil
from concurrent.futures import ThreadPoolExecutor

import common
import protolib as P

LEVEL = "proof"


def regenerate(res):
    """T21: the with-statement protocol of DigitalRFWriter -> coq/Gen/CtxMgrGen.v"""
    common.regenerate_with(res, "ctxmgr2gallina", "CtxMgrGen.v", "T21: DigitalRFWriter.close / __enter__ / __exit__")


def mixed_api(sp, apis):
    sp["apis"] = apis
    return sp


def recordings(tier):
    rs = [P.spec([[0, 150], [150, 130]], name="gapped-100-per-file-150+130"),
          P.spec([[0, 300000], [300000, 260000]], srn=200000, continuous=1, name="continuous-200k-per-file"),
          # four calls, one file each, alternately through rf_write and rf_write_blocks (the two C entry
          # points each carry their own has_failure guard): a later call could succeed after an earlier one
          # failed (stickiness)
          mixed_api(P.spec([[0, 100], [100, 100], [200, 100], [300, 100]], name="gapped-4-calls-write-blocks-alternating"),
                    ["write", "blocks", "write", "blocks"])]
    if tier == "thorough":
        rs += [P.spec([[30, 100], [250, 10], [260, 350]], name="gapped-midfile-start-and-gap"),
               P.spec([[0, 64], [64, 64], [128, 64]], srn=64, subdir_cadence=1, nsub=2, dtype="f4",
                      name="f4-2-subchannels-1-file-per-subdir"),
               P.spec([[0, 1000], [1000, 2500]], srn=1000, srd=3, file_cadence_ms=400, subdir_cadence=2,
                      compression=1, checksum=1, name="rational-rate-400ms-compressed"),
               P.spec([[0, 120000], [120000, 120000], [240000, 120000]], srn=100000, name="gapped-100k-per-file-chunked"),
               mixed_api(P.spec([[0, 150], [150, 130], [280, 90]], name="gapped-blocks-only-150+130+90"),
                         ["blocks", "blocks", "blocks"])]
    return rs


def surfaced_in(ev):
    """where the injected failure surfaced, from the call-stack label of the failed operation"""
    if ev is None:
        return "none"
    k = P.op_kind(ev)
    if k == 8:
        return "rename"
    if k == 9:
        return "unlink"
    if k == 1:
        return "mkdir"
    if ev["ctx"] == "digital_rf_handle_metadata":
        return "properties-file"
    if ev["api"] in P.CLOSE_APIS:
        return "hdf5-close"
    if ev["api"] == "H5Fcreate":
        return "hdf5-create"
    if ev["api"] == "H5Dwrite":
        return "hdf5-dwrite"
    return "hdf5-other:" + ev["api"]


def is_props_op(b, n):
    return "drf_properties" in P.show_op(b.ops[n - 1][0])


def with_style_leg(res, b):
    """the recorder written as `with DigitalRFWriter(...) as w:` without a try/except of its own: a call that raises
    inside the block (an injected I/O failure; a refused re-write) abandons the block -- and the exception must
    leave the with statement, or nobody ever learns of it (the writer is closed by then)"""
    sp = b.sp
    cands = [e["n"] for e in P.numbered(b.evs) if str(e.get("call") or "").startswith("write")]
    if not cands:
        return
    step = max(1, len(cands) // (3 if res.tier == "quick" else 12))
    runs = [(dict(sp, with_style=2), None)] + [(dict(sp, with_style=1), n) for n in cands[::step]]
    for spw, n in runs:
        work = os.path.join(b.work, "with_%s" % n)
        os.makedirs(work)
        top = os.path.join(work, "top")
        if n is None:
            outc, rc, err = P.run_writer(spw, top)
        else:
            outc, rc, err = P.run_writer(spw, top, log=os.path.join(work, "log.txt"), fail_at=n, errno=28, persist=0)
        oc = {o["call"]: o for o in outc}
        res.count("with-style-recorder" + ("-under-fault" if n is not None else "-refused-rewrite"))
        res.case(("with-style", sp["name"], n), nontrivial=True)
        if "end" not in oc:
            continue                      # the process died: judged by the main leg
        abandoned = "init" in oc and "block-completed" not in oc
        if abandoned and "escaped" not in oc:
            res.violation("exception-swallowed-by-with-block", "a call raised inside `with DigitalRFWriter(...)` (the block was "
                          "abandoned) but no exception left the with statement: the failure is silent",
                          {"recording": sp["name"], "spec": spw, "fail_op": n, "errno": 28, "persistent": 0, "with_style": spw["with_style"]},
                          "the exception propagates out of the with statement", [o["call"] for o in outc])
            return
        if spw["with_style"] == 2 and "rewrite-accepted" in oc:
            res.violation("exception-swallowed-by-with-block", "writing the same samples again inside the with block was accepted",
                          {"recording": sp["name"], "spec": spw, "fail_op": None, "with_style": 2}, "ValueError", [o["call"] for o in outc])
            return


def one_fault(args):
    b, n, errno, persist = args
    sp = b.sp
    work = os.path.join(b.work, "f%d_%d_%d" % (n, errno, persist))
    top = os.path.join(work, "top")
    log = os.path.join(work, "log.txt")
    os.makedirs(work)
    outc, rc, err = P.run_writer(sp, top, log=log, fail_at=n, errno=errno, persist=persist)
    evs = P.parse_log(log, top)
    return {"n": n, "errno": errno, "persist": persist, "top": top, "work": work, "outcomes": outc, "rc": rc,
            "stderr": err[-600:], "evs": evs}


def analyse(res, b, r, preds):
    sp = b.sp
    n, errno, persist, top = r["n"], r["errno"], r["persist"], r["top"]
    inp = {"recording": sp["name"], "spec": sp, "fail_op": n, "errno": errno, "persistent": persist,
           "operation": P.show_op(b.ops[n - 1][0])}
    outc = {o["call"]: o for o in r["outcomes"]}
    if r["rc"] != 0 and "end" in outc:
        # every call returned and the script finished; the process then died while the HDF5 library shut
        # down (atexit) -- HDF5 1.10 does this after a failed ftruncate inside H5Fclose.  Not the writer's code.
        res.count("hdf5_crashed_at_process_exit")
        res.notes.append("HDF5 crashed at process exit after fault %d/%d/%d of %s (rc %d)"
                         % (n, errno, persist, sp["name"], r["rc"])) if len(res.notes) < 5 else None
    if "end" not in outc:
        res.violation("writer-crashed-under-fault", "the writer process died instead of reporting the I/O failure", inp,
                      "exceptions", {"rc": r["rc"], "stderr": r["stderr"][-300:]})
        return None
    init_ok = outc.get("init", {}).get("ok", False)
    wouts = [outc["write%d" % i]["ok"] for i in range(len(sp["writes"])) if "write%d" % i in outc]
    injected = [e for e in P.numbered(r["evs"]) if e["inj"]]
    first = injected[0] if injected else None
    where = surfaced_in(first)
    inp["surfaced_in"] = where
    inp["during_call"] = first["call"] if first else None
    res.count("fault_surfaced_in_" + where.split(":")[0])
    # ------------------------------------------------ the tree
    files = P.tree_files(top)
    content = {}
    bad = {}
    for f in files:
        if P.is_final_data(f):
            try:
                content[f] = P.read_raw(os.path.join(top, f), sp)
            except Exception as e:  # noqa
                bad[f] = repr(e)[:150]
    props = os.path.join(top, P.CH, "drf_properties.h5")
    props_state = "absent"
    if os.path.exists(props):
        try:
            import h5py
            with h5py.File(props, "r") as f5:
                props_state = "ok" if "digital_rf_version" in f5.attrs else "bad"
        except Exception:  # noqa
            props_state = "bad"
    # ------------------------------------------------ model vs implementation, per close variant
    agree = {}
    for vc, mr in preds.items():
        why = None
        if bool(mr["init"]) != bool(init_ok):
            why = ("init", mr["init"], init_ok)
        elif [bool(x) for x in mr["outs"]] != wouts:
            why = ("write outcomes", mr["outs"], wouts)
        else:
            st = P.final_nodes(mr)
            mfiles = sorted(p for p, (c, _t) in st.items() if c in (2, 3, 4))
            if mfiles != files:
                why = ("files", mfiles, files)
            else:
                for p, (c, t) in st.items():
                    if c == 4 and P.is_final_data(p):
                        if p in bad or not (content[p] == P.content_of(sp, P.enc_path(p)[3], t)):
                            why = ("content of " + p, "image %d" % t, bad.get(p) or content[p].brief())
                    if c == 4 and p.endswith("/drf_properties.h5") and not p.endswith("tmp.drf_properties.h5") \
                            and props_state != "ok":
                        why = ("properties file", "complete", props_state)
        agree[vc] = why
    # ------------------------------------------------ the property's oracle
    allw = P.written(sp)
    reported = (not init_ok) or (not all(wouts))
    # (1) no bad final file
    sig_close = where in ("hdf5-close", "rename", "properties-file")
    for f, e in bad.items():
        res.violation("close-failure-ignored-before-rename" if sig_close else "bad-final-file",
                      "a data file that cannot be read is published under its final name after an I/O failure"
                      + (" inside the HDF5 close (H5Dclose/H5Fclose results not examined before rename)" if sig_close else ""),
                      inp, "no unreadable final file", {"file": f, "error": e})
    for f, c in content.items():
        if not c.subset_of(allw) or c.has_dup():
            res.violation("close-failure-ignored-before-rename" if sig_close else "bad-final-file",
                          "a published data file presents samples with values or indices other than those written"
                          + (" after a failure inside the HDF5 close (results not examined before rename)" if sig_close else ""),
                          inp, "subset of written samples", {"file": f, "content": c.brief()})
    if props_state == "bad":
        res.violation("props-file-damaged-by-fault", "drf_properties.h5 is left unreadable under its final name", inp,
                      "readable or absent", props_state)
    # (2) earlier files intact
    for i in range(n - 1):
        op = b.ops[i][0]
        if op[0] == 8 and op[5] == 2 and op[7] == 0:
            f = P.dec_path(op[5:9])
            exp = P.content_of(sp, op[8], 10 ** 18)
            if f not in content or not (content[f] == exp):
                res.violation("earlier-file-damaged", "a file finalized before the fault is no longer intact", inp,
                              exp.brief(), bad.get(f) or (content[f].brief() if f in content else "absent"))
    # (3) silent loss: an accepted sample is not readable, and neither the failing call nor the next reported
    readable = P.Samples()
    for c in content.values():
        readable = readable.union(c)
    order = ["init"] + P.call_order(sp)
    accepted = P.written(sp, 0)
    acc_calls = []
    for i, ok in enumerate(wouts):
        if ok:
            acc_calls.append(i)
    import numpy as np
    gs = [np.arange(g0, g0 + k, dtype=np.int64) for j, (g0, k) in enumerate(sp["writes"]) if j in acc_calls]
    if gs:
        g = np.concatenate(gs)
        accepted = P.Samples(g, P.vals(g, sp["dtype"]))
    lost_raw = not accepted.subset_of(readable)
    # ... and "readable" means through DigitalRFReader: the data files may all be whole (raw h5py) while the
    # channel cannot be opened (e.g. no drf_properties.h5 because a fault at construction was ignored)
    via_reader, reader_err = None, None
    if init_ok and len(accepted) and not lost_raw:
        try:
            _r, via_reader = P.reader_pass(top, sp)
        except Exception as e:  # noqa
            via_reader, reader_err = P.Samples(), repr(e)[:300]
        res.count("reader_passes_on_fault_tree")
    lost_reader = via_reader is not None and not accepted.subset_of(via_reader)
    lost = lost_raw or lost_reader
    if first is not None and lost:
        during = first["call"] or "?"
        j = order.index(during) if during in order else None
        nxt = order[j + 1] if j is not None and j + 1 < len(order) else None

        def call_failed(name):
            return name in outc and not outc[name]["ok"]
        rep = call_failed(during) or (nxt is not None and nxt != "close" and call_failed(nxt))
        if not rep:
            observed = {"outcomes": {k: v["ok"] for k, v in outc.items()}, "accepted": accepted.brief(),
                        "readable_raw_h5py": readable.brief(), "drf_properties.h5": props_state}
            if lost_reader:
                observed["readable_through_DigitalRFReader"] = via_reader.brief()
                observed["reader_error"] = reader_err
            if lost_reader and during == "init":
                sig = "init-fault-ignored-channel-unreadable"
                title = ("an I/O failure on the properties file during writer construction is ignored: the writer is "
                         "constructed, accepts the writes and reports nothing, but drf_properties.h5 is %s and no accepted "
                         "sample is readable through DigitalRFReader" % props_state)
            elif lost_reader:
                sig = "accepted-samples-unreadable-through-reader"
                title = ("after an I/O failure nobody reported, accepted samples are in whole data files but are not "
                         "readable through DigitalRFReader")
            elif during == "close":
                sig = "final-close-failure-silent"
                title = ("an I/O failure while close() finalizes the last file loses accepted samples without any "
                         "error: close() runs in a capsule destructor and cannot report")
            elif where in ("hdf5-close", "rename"):
                sig = "close-failure-ignored-before-rename"
                title = ("an I/O failure inside the close of a data file (H5Dclose/H5Fclose/rename, results not "
                         "examined) loses accepted samples without any error")
            else:
                sig = "silent-sample-loss"
                title = "accepted samples are not readable and no error was reported by the failing or the next call"
            res.violation(sig, title, inp, "error reported by call %s or %s, or every accepted sample readable"
                          % (during, nxt), observed)
    # (4) sticky: once a write reported an I/O failure every later write is refused
    if False in wouts:
        k = wouts.index(False)
        if any(wouts[k + 1:]):
            res.violation("failure-not-sticky", "a write call was accepted after an earlier one reported an I/O failure",
                          inp, "all later writes refused", wouts)
    cls = ("noop" if not lost and not reported else "reported" if reported else "silent-loss")
    res.count("outcome_" + cls)
    res.case(("fault", sp["name"], n, errno, persist), nontrivial=True)
    return agree


def one_recording(res, sp):
    b = P.baseline(res, sp)
    if b.ops is None:
        return
    if not getattr(one_recording, "_with_done", False):
        one_recording._with_done = True
        with_style_leg(res, b)
    if b.vp is None:
        # the fault-free trace is no longer the model's (reported as such by the baseline): the schedules are still run,
        # judged by the property's oracle alone -- that is the search for a failing input
        pts = [(b, n, e, p) for n in range(1, b.n + 1) for e, p in ((P.ENOSPC, 0), (P.EIO, 1), (P.ENOSPC, 2))]
        if res.tier == "quick" and len(pts) > 240:
            res.rng.shuffle(pts)
            pts = pts[:240]
        with ThreadPoolExecutor(max_workers=6) as ex:
            for r in ex.map(one_fault, pts):
                res.count("fault schedules without a model prediction (oracle only)")
                analyse(res, b, r, {})
                shutil.rmtree(r["work"], True)
        shutil.rmtree(b.work, True)
        return
    points = [(b, n, e, p) for n in range(1, b.n + 1) for e in (P.ENOSPC, P.EIO) for p in (0, 1)]
    budget = 110 if sp.get("apis") else 170
    if res.tier == "quick" and len(points) > budget:
        # every operation once with ENOSPC, the other combinations sampled
        # (and every combination on the few operations that create and publish drf_properties.h5: a channel whose
        #  properties file is published unreadable is lost to every later session)
        def is_props(x):
            return "drf_properties" in P.show_op(b.ops[x[1] - 1][0])
        keep = [x for x in points if (x[2] == P.ENOSPC and x[3] == 0) or is_props(x)]
        rest = [x for x in points if x not in keep]
        res.rng.shuffle(rest)
        points = keep + rest[:budget - len(keep)]
    cases = []
    for (_b, n, e, p) in points:
        for vc in (0, 1):
            cases.append([1, b.vp, vc, n, p] + b.rec)
    flat = common.run_model("proto", cases)
    # a disk that STAYS full: from the failing operation on, every operation that needs space fails while rename,
    # unlink and close keep working (persist = 2).  Judged by the property's oracle only (the model's persistent
    # fault fails every later operation); on the operations of the properties file and a sample of the others
    npts = len(points)
    seen_n = set()
    for (_b, n, e, p) in list(points):
        if n not in seen_n and (is_props_op(b, n) or res.rng.random() < 0.15):
            seen_n.add(n)
            points.append((b, n, P.ENOSPC, 2))
    with ThreadPoolExecutor(max_workers=6) as ex:
        results = list(ex.map(one_fault, points))
    disagreements = {0: [], 1: []}
    for i, r in enumerate(results):
        if i >= npts:
            res.count("disk-stays-full schedules (oracle only)")
            analyse(res, b, r, {})
            shutil.rmtree(r["work"], True)
            continue
        preds = {0: P.decode_run(flat[2 * i]), 1: P.decode_run(flat[2 * i + 1])}
        ag = analyse(res, b, r, preds)
        if ag is not None:
            for vc in (0, 1):
                if ag[vc] is not None:
                    disagreements[vc].append({"fail_op": r["n"], "errno": r["errno"], "persistent": r["persist"],
                                              "operation": P.show_op(b.ops[r["n"] - 1][0]), "what": ag[vc][0],
                                              "model": str(ag[vc][1])[:200], "impl": str(ag[vc][2])[:200]})
        shutil.rmtree(r["work"], True)
    ok = [vc for vc in (0, 1) if not disagreements[vc]]
    names = {0: "Ignored", 1: "Checked"}
    if len(ok) == 1:
        res.count("variant_close_" + names[ok[0]])
    elif len(ok) == 2:
        res.count("variant_close_undistinguished")
    else:
        best = min((0, 1), key=lambda vc: len(disagreements[vc]))
        res.disagree("fault outcomes match the model under no close-path variant (Ignored/Checked)", sp["name"],
                     {names[vc]: disagreements[vc][:4] for vc in (0, 1)}, "closest: " + names[best])
    res.sample({"recording": sp["name"], "ops": b.n, "fault_runs": len(points),
                "close_variant": [names[v] for v in ok]})
    shutil.rmtree(b.work, True)


def run(res):
    common.use_impl()
    res.rule = ("one case = one single-fault schedule (recording, failing operation number, ENOSPC|EIO, once|persistent) "
                "run on the real writer under the interposer; all distinct, all non-trivial; compared with the model's "
                "prediction under both close-path variants and with the property's oracle (bad final file, earlier files "
                "intact, silent loss -- accepted samples readable from the final files by raw h5py AND through DigitalRFReader --, stickiness); quick: every operation of 3 recordings with ENOSPC once, the other "
                "errno/persistence combinations sampled (170/170/110 runs; the third recording alternates rf_write and rf_write_blocks); thorough: all combinations, 8 recordings; in addition schedules in which the disk STAYS full (from the failing operation on every create / write / truncate / mkdir fails, rename / unlink / close work), on every operation of the properties file and a sample of the others, judged by the property oracle only")
    for sp in recordings(res.tier):
        one_recording(res, sp)
    res.assumptions += [
        "a low-level failure makes the enclosing HDF5 call return an error (tested on every fault point: the outcome "
        "class must equal the model's for the call-stack label of the failed operation)",
        "what HDF5 leaves on disk after a failed write is not modelled: the model only says 'damaged'",
        "single fault schedules (one operation, or every operation from one on); ENOSPC and EIO only",
    ]
    res.trusted += ["harness/cdriver/fsshim.c (LD_PRELOAD interposer, fault injection by operation number)",
                    "harness/protolib.py"]


def replay(res, rp):
    common.use_impl()
    inp = rp["input"]
    sp = inp.get("spec")
    if not sp:
        print(rp)
        return 0
    work = common.scratch_dir("c10replay-")
    top = os.path.join(work, "top")
    if inp.get("with_style"):
        if inp.get("fail_op") is None:
            outc, rc, err = P.run_writer(sp, top)
        else:
            outc, rc, err = P.run_writer(sp, top, log=os.path.join(work, "log"), fail_at=inp["fail_op"], errno=inp["errno"], persist=0)
        calls = [o["call"] for o in outc]
        print("recorder written as `with DigitalRFWriter(...) as w:` (no try/except of its own);",
              "operation %s fails with errno 28 once" % inp["fail_op"] if inp.get("fail_op") else "the second call writes the first samples again")
        print("what the recorder reports:", calls)
        bad = ("init" in calls and "block-completed" not in calls and "escaped" not in calls) or "rewrite-accepted" in calls
        print("replay verdict:", "STILL VIOLATING (the block was abandoned, no exception left the with statement)" if bad else "no longer violating")
        return 1 if bad else 0
    outc, rc, err = P.run_writer(sp, top, log=os.path.join(work, "log"), fail_at=inp["fail_op"], errno=inp["errno"],
                                 persist=inp["persistent"])
    print("fault: operation %d (%s) fails with errno %d%s" % (inp["fail_op"], inp.get("operation"), inp["errno"],
                                                              {0: "", 1: ", and every later one", 2: ", and every later operation that needs space (the disk stays full; rename, unlink, close work)"}[int(inp["persistent"])]))
    print("writer outcomes:", [(o["call"], o["ok"]) for o in outc])
    for f in P.tree_files(top):
        line = "   %s %d" % (f, os.path.getsize(os.path.join(top, f)))
        if P.is_final_data(f):
            try:
                line += "  " + P.read_raw(os.path.join(top, f), sp).brief()
            except Exception as e:  # noqa
                line += "  UNREADABLE " + repr(e)[:100]
        print(line)
    try:
        _r, seen = P.reader_pass(top, sp)
        print("DigitalRFReader on the tree reads", seen.brief())
    except Exception as e:  # noqa
        print("DigitalRFReader on the tree raises", repr(e)[:300])
    print("expected:", rp.get("expected"), "| observed then:", rp.get("observed"))
    return 0
