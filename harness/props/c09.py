"""C09 -- concurrent reader isolation and monotone visibility.

Proof: coq/Properties/C09.v (all schedules of reader probes over every accepted trace).
Tie (this file): the real writer is single-stepped by the LD_PRELOAD interposer (it blocks before
every file-system operation); between any two operations a long-lived DigitalRFReader and a
freshly constructed one query the LIVE tree (the writer keeps its descriptors open); results are
compared with the finalized files (raw h5py), with the model's state after the same prefix, with
the written values, and with the previous step (visibility only grows).  The same is done with
readers over TWO top-level directories of one channel (finished archive + live recording, both
orders) and with a second channel being set up next to a complete one.  Thorough tier adds a
free-running writer polled by a reader (exploration supporting the model; labelled so)."""
import os
import shutil
import time

import common
import protolib as P

LEVEL = "proof"


def recordings(tier):
    rs = [P.spec([[0, 150], [150, 130]], name="gapped-100-per-file-150+130"),
          P.spec([[0, 300000], [300000, 260000]], srn=200000, continuous=1, name="continuous-200k-per-file"),
          P.spec([[0, 120], [140, 60], [200, 130]], continuous=1, compression=1,
                 name="continuous-compressed-jump-inside-a-file"),
          # file names of 9 and of 10 digits in one subdirectory: their order in time is not their order as text
          P.spec([[0, 150], [150, 230]], start_sec=999999998, subdir_cadence=3600, name="gapped-across-10^9-seconds")]
    if tier == "thorough":
        rs += [P.spec([[30, 100], [250, 10], [260, 350]], name="gapped-midfile-start-and-gap"),
               P.spec([[0, 64], [64, 64], [128, 64], [192, 64]], srn=64, subdir_cadence=1, nsub=2, dtype="f4",
                      name="f4-2-subchannels-1-file-per-subdir"),
               P.spec([[0, 1000], [1000, 2500]], srn=1000, srd=3, file_cadence_ms=400, subdir_cadence=2,
                      compression=1, checksum=1, name="rational-rate-400ms-compressed")]
    return rs


def finalized_now(top, sp):
    """samples of the final-named data files present right now (raw h5py); None if one is unreadable"""
    out = P.Samples()
    bad = []
    for f in P.tree_files(top):
        if P.is_final_data(f):
            try:
                out = out.union(P.read_raw(os.path.join(top, f), sp))
            except Exception as e:  # noqa
                bad.append((f, repr(e)[:120]))
    return out, bad


class ReaderState:
    def __init__(self, name):
        self.name, self.reader, self.prev = name, None, None


def reader_step(res, sp, top, inp, rs, fresh, finals, allw):
    """one query of one reader on the live tree; returns nothing, records violations"""
    import digital_rf
    props = os.path.join(top, P.CH, "drf_properties.h5")
    if not os.path.exists(props):
        return
    try:
        if fresh or rs.reader is None:
            rs.reader = digital_rf.DigitalRFReader(top)
        # first a read of the whole planned span (also where no file or subdirectory exists yet), then
        # the usual bounds + read: both must return exactly the finalized samples
        _r, ahead = P.reader_pass(top, sp, reader=rs.reader, planned=True)
        _r, seen = P.reader_pass(top, sp, reader=rs.reader)
    except Exception as e:  # noqa
        sig = "reader-fails-during-recording"
        try:
            import h5py
            with h5py.File(props, "r") as f5:
                ok = "digital_rf_version" in f5.attrs
        except Exception:  # noqa
            ok = False
        if not ok:
            sig = "props-file-not-staged"
        res.violation(sig, "a reader running concurrently with the writer fails (%s reader)" % rs.name
                      + (": drf_properties.h5 is visible while incomplete" if not ok else ""),
                      inp, "the samples finalized so far", repr(e)[:200])
        rs.reader = None
        return
    if not seen.subset_of(allw) or seen.has_dup():
        res.violation("reader-sees-unwritten", "a concurrent reader returned a value that was not written at that index",
                      inp, "subset of written samples", seen.brief())
    if not (seen == finals):
        res.violation("reader-not-exactly-finalized", "a concurrent reader does not see exactly the files finalized so far"
                      " (%s reader)" % rs.name, inp, finals.brief(), seen.brief())
    if not (ahead == finals):
        res.violation("read-ahead-not-exactly-finalized", "a concurrent reader that reads the whole planned span does not "
                      "get exactly the files finalized so far (%s reader)" % rs.name, inp, finals.brief(), ahead.brief())
    if rs.prev is not None and not rs.prev.subset_of(seen):
        res.violation("visibility-shrinks", "samples a reader could read earlier are no longer readable or changed"
                      " (%s reader)" % rs.name, inp, rs.prev.brief(), seen.brief())
    rs.prev = seen


def stepped(res, sp, b):
    work = common.scratch_dir("c09step-")
    top = os.path.join(work, "top")
    fo, fi = os.path.join(work, "out.fifo"), os.path.join(work, "in.fifo")
    os.mkfifo(fo)
    os.mkfifo(fi)
    proc = P.run_writer(sp, top, step=(fo, fi), popen=True)
    rd = open(fo, "r")
    wr = open(fi, "w")
    states = P.model_states(b)
    allw = P.written(sp)
    long_lived, fresh = ReaderState("long-lived"), ReaderState("fresh")
    n_seen = 0
    try:
        while True:
            ln = rd.readline()
            if not ln:
                break
            n = int(ln)
            n_seen = n
            inp = {"recording": sp["name"], "spec": sp, "before_op": n,
                   "operation": P.show_op(b.ops[n - 1][0]) if n <= len(b.ops) else None}
            finals, bad = finalized_now(top, sp)
            for f, e in bad:
                res.violation("final-data-file-unreadable", "a data file under a final name cannot be read while the writer runs",
                              inp, "whole file", {"file": f, "error": e})
            # model: the files complete under a final name after n-1 operations
            if n - 1 < len(states):
                exp = P.Samples()
                for p, (c, t) in states[n - 1].items():
                    if c == 4 and P.is_final_data(p):
                        exp = exp.union(P.content_of(sp, P.enc_path(p)[3], t))
                if not (exp == finals):
                    res.disagree("finalized samples on the live tree differ from the model's state after the same prefix",
                                 inp, exp.brief(), finals.brief())
            reader_step(res, sp, top, inp, long_lived, False, finals, allw)
            reader_step(res, sp, top, inp, fresh, True, finals, allw)
            res.case(("step", sp["name"], n), nontrivial=True)
            res.count("reader_passes", 2)
            wr.write("x")
            wr.flush()
    finally:
        try:
            wr.close()
        except Exception:  # noqa
            pass
        rd.close()
        out, err = proc.communicate(timeout=60)
    if n_seen != b.n:
        res.disagree("single-stepped run issued a different number of operations", sp["name"], b.n, n_seen)
    # after the writer is closed both readers see everything
    inp = {"recording": sp["name"], "spec": sp, "before_op": b.n + 1, "operation": "(after close)"}
    finals, bad = finalized_now(top, sp)
    reader_step(res, sp, top, inp, long_lived, False, finals, allw)
    reader_step(res, sp, top, inp, fresh, True, finals, allw)
    for rs in (long_lived, fresh):
        if rs.prev is None or not (rs.prev == allw):
            res.violation("not-all-visible-after-close", "after the writer is closed a reader does not see everything (%s)"
                          % rs.name, inp, allw.brief(), rs.prev.brief() if rs.prev is not None else None)
    shutil.rmtree(work, True)


def second_channel(res, sp0):
    """a reader is constructed on the top-level directory (holding a complete first channel) while the
    writer of ANOTHER channel is held before each file-system operation of its set-up and first file"""
    import digital_rf
    work = common.scratch_dir("c09ch2-")
    top = os.path.join(work, "top")
    outc, rc, err = P.run_writer(sp0, top)
    if rc != 0 or any(not o["ok"] for o in outc):
        res.disagree("first channel did not record", sp0["name"], None, outc)
        return
    allw = P.written(sp0)
    sp1 = P.spec([[0, 120]], name="second-channel-set-up")
    fo, fi = os.path.join(work, "out.fifo"), os.path.join(work, "in.fifo")
    os.mkfifo(fo)
    os.mkfifo(fi)
    proc = P.run_writer(sp1, top, step=(fo, fi), popen=True, chan="ch1")
    rd = open(fo, "r")
    wr = open(fi, "w")
    long_lived = None
    n = 0
    try:
        while True:
            ln = rd.readline()
            if not ln:
                break
            n = int(ln)
            inp = {"recording": sp0["name"], "spec": sp0, "second_channel_spec": sp1, "second_channel_before_op": n,
                   "second_channel_files": [f for f in P.tree_files(top) if f.startswith("ch1/")], "label": "second-channel"}
            for kind in ("fresh", "long-lived"):
                try:
                    if kind == "fresh" or long_lived is None:
                        r = digital_rf.DigitalRFReader(top)
                        if kind == "long-lived":
                            long_lived = r
                    else:
                        r = long_lived
                    chans = r.get_channels()
                    _r, seen = P.reader_pass(top, sp0, reader=r)
                except Exception as e:  # noqa
                    res.violation("reader-fails-during-other-channel-setup",
                                  "a reader on the top-level directory fails while the writer of another channel is "
                                  "setting that channel up (%s reader)" % kind, inp,
                                  "channel ch0 readable, no failure", repr(e)[:200])
                    if kind == "long-lived":
                        long_lived = None
                    continue
                if P.CH not in chans or not (seen == allw):
                    res.violation("reader-misses-complete-channel",
                                  "a complete channel is not fully readable while another channel is being set up",
                                  inp, allw.brief(), {"channels": chans, "seen": seen.brief()})
                ch1_props = os.path.exists(os.path.join(top, "ch1", "drf_properties.h5"))
                # (a long-lived reader keeps the channel list of its construction: only the fresh one is compared)
                if kind == "fresh" and ("ch1" in chans) != ch1_props:
                    res.violation("channel-listed-without-properties",
                                  "the channel list does not agree with the presence of drf_properties.h5", inp,
                                  {"ch1_listed": ch1_props}, {"channels": chans})
            res.case(("second-channel", sp0["name"], n), nontrivial=True)
            res.count("second_channel_steps")
            wr.write("x")
            wr.flush()
    finally:
        try:
            wr.close()
        except Exception:  # noqa
            pass
        rd.close()
        proc.communicate(timeout=60)
    if n < 8:
        res.disagree("second channel writer issued too few operations to cover its set-up", sp1["name"], ">= 8", n)
    shutil.rmtree(work, True)


def shifted(samples, d):
    return P.Samples(samples.g + d, samples.v)


def two_dirs_pass(res, inp, kind, reader, tops, sp_a, exp, allw, prev):
    """one pass of one reader over the two top-level directories: bounds, then the whole span.
    Returns (reader or None, samples seen or None)."""
    import digital_rf
    try:
        what = "constructor"
        r = reader or digital_rf.DigitalRFReader(list(tops))
        what = "get_channels"
        chans = r.get_channels()
        what = "get_bounds"
        b = r.get_bounds(P.CH)
        what = "read"
        _r, seen = P.reader_pass(None, sp_a, reader=r)
    except Exception as e:  # noqa
        res.violation("multidir-reader-fails-during-recording",
                      "a reader over two top-level directories of the same channel (a finished archive and a directory "
                      "the recording is running into) fails in %s (%s reader)" % (what, kind), inp,
                      "no failure; bounds and samples of the union of the finalized files", repr(e)[:300])
        return None, None
    if P.CH not in chans:
        res.violation("multidir-channel-not-listed", "the channel is not listed by a reader over two top-level "
                      "directories (%s reader)" % kind, inp, [P.CH], chans)
    if len(exp):
        eb = (sp_a["start"] + int(exp.g[0]), sp_a["start"] + int(exp.g[-1]))
        if tuple(int(x) if x is not None else None for x in b) != eb:
            res.violation("multidir-bounds-not-union", "get_bounds over two top-level directories is not the bounds of "
                          "the union of the finalized files (%s reader)" % kind, inp, list(eb), [str(x) for x in b])
    if not seen.subset_of(allw) or seen.has_dup():
        res.violation("multidir-reader-sees-unwritten", "a reader over two top-level directories returned a value that "
                      "was not written at that index (%s reader)" % kind, inp, "subset of written samples", seen.brief())
    if not (seen == exp):
        res.violation("multidir-reader-not-exactly-finalized", "a reader over two top-level directories does not see "
                      "exactly the union of the files finalized so far (%s reader)" % kind, inp, exp.brief(), seen.brief())
    if prev is not None and not prev.subset_of(seen):
        res.violation("multidir-visibility-shrinks", "samples a reader over two top-level directories could read earlier "
                      "are no longer readable or changed (%s reader)" % kind, inp, prev.brief(), seen.brief())
    return r, seen


def two_dirs(res, sp_a):
    """an archive directory holding a finished recording of the channel, and a LIVE writer recording the same
    channel name under a second top-level directory (10 s later); readers over both directories, in both orders,
    fresh and long-lived, query before every file-system operation of the live writer: from before the channel
    directory holds anything, through 'only drf_properties.h5', to its finalized files and after close"""
    work = common.scratch_dir("c09two-")
    archive, live = os.path.join(work, "archive"), os.path.join(work, "live")
    outc, rc, err = P.run_writer(sp_a, archive)
    if rc != 0 or any(not o["ok"] for o in outc):
        res.disagree("archive recording did not complete", sp_a["name"], None, outc)
        return
    arch = P.written(sp_a)
    fin_a, bad = finalized_now(archive, sp_a)
    if bad or not (fin_a == arch):
        res.disagree("archive recording not whole", sp_a["name"], arch.brief(), fin_a.brief())
        return
    sp_l = P.spec([[0, 120], [120, 130]], srn=sp_a["srn"], srd=sp_a["srd"], name="live-second-directory-120+130")
    sp_l["start"] = sp_a["start"] + 10 * sp_a["srn"] // sp_a["srd"]
    delta = sp_l["start"] - sp_a["start"]
    allw = arch.union(shifted(P.written(sp_l), delta))
    fo, fi = os.path.join(work, "out.fifo"), os.path.join(work, "in.fifo")
    os.mkfifo(fo)
    os.mkfifo(fi)
    proc = P.run_writer(sp_l, live, step=(fo, fi), popen=True)
    rd = open(fo, "r")
    wr = open(fi, "w")
    orders = {"archive-first": (archive, live), "live-first": (live, archive)}
    long_lived = {k: None for k in orders}
    prev = {(k, kind): None for k in orders for kind in ("fresh", "long-lived")}
    props = os.path.join(live, P.CH, "drf_properties.h5")
    n = 0
    phases = set()

    def poll(n, label):
        fin_l, bad = finalized_now(live, sp_l)
        has_props = os.path.exists(props)
        phase = ("no-properties-file" if not has_props else "only-properties-file" if not len(fin_l)
                 else "finalized-files")
        phases.add(phase)
        res.count("two_dirs_phase_" + phase)
        exp = arch.union(shifted(fin_l, delta)) if has_props else arch
        for oname, tops in orders.items():
            inp = {"recording": sp_a["name"], "spec": sp_a, "live_spec": sp_l, "live_before_op": n, "order": oname,
                   "live_state": phase, "live_files": P.tree_files(live), "label": "two-dirs"}
            if label:
                inp["after"] = label
            for f, e in bad:
                res.violation("final-data-file-unreadable", "a data file under a final name cannot be read while the "
                              "writer runs", inp, "whole file", {"file": f, "error": e})
            _r, seen = two_dirs_pass(res, inp, "fresh", None, tops, sp_a, exp, allw, prev[(oname, "fresh")])
            prev[(oname, "fresh")] = seen if seen is not None else prev[(oname, "fresh")]
            res.count("reader_passes")
            if has_props:
                # a long-lived reader keeps the directories it found the channel in at construction: construct it
                # once the live directory holds the channel (recording just started), keep it from then on
                r, seen = two_dirs_pass(res, inp, "long-lived", long_lived[oname], tops, sp_a, exp, allw,
                                        prev[(oname, "long-lived")])
                long_lived[oname] = r
                prev[(oname, "long-lived")] = seen if seen is not None else prev[(oname, "long-lived")]
                res.count("reader_passes")
            res.case(("two-dirs", sp_a["name"], oname, n, label), nontrivial=True)

    try:
        while True:
            ln = rd.readline()
            if not ln:
                break
            n = int(ln)
            poll(n, None)
            wr.write("x")
            wr.flush()
    finally:
        try:
            wr.close()
        except Exception:  # noqa
            pass
        rd.close()
        proc.communicate(timeout=60)
    poll(n + 1, "close")
    for key, seen in prev.items():
        if seen is None or not (seen == allw):
            res.violation("multidir-not-all-visible-after-close", "after the live writer is closed a reader over both "
                          "directories does not see everything (%s, %s)" % key,
                          {"recording": sp_a["name"], "spec": sp_a, "live_spec": sp_l, "live_before_op": n + 1,
                           "order": key[0], "label": "two-dirs"}, allw.brief(), seen.brief() if seen is not None else None)
    for ph in ("no-properties-file", "only-properties-file", "finalized-files"):
        if ph not in phases:
            res.disagree("two-directory scenario never observed the live directory in state", ph, "observed", sorted(phases))
    shutil.rmtree(work, True)


def free_running(res, seconds):
    """exploration: a writer running freely (many small writes, short sleeps) polled by a reader"""
    import digital_rf
    writes = [[i * 37, 37] for i in range(120)]
    sp = P.spec(writes, srn=100, name="free-running-120x37")
    sp["sleep_ms"] = max(1, int(1000 * seconds / len(writes)))
    work = common.scratch_dir("c09free-")
    top = os.path.join(work, "top")
    proc = P.run_writer(sp, top, popen=True)
    allw = P.written(sp)
    reader = None
    prev = None
    polls = 0
    t0 = time.time()
    while proc.poll() is None and time.time() - t0 < seconds + 30:
        inp = {"recording": sp["name"], "spec": sp, "poll": polls, "label": "free-running"}
        if os.path.exists(os.path.join(top, P.CH, "drf_properties.h5")):
            try:
                if reader is None:
                    reader = digital_rf.DigitalRFReader(top)
                _r, seen = P.reader_pass(top, sp, reader=reader)
                if not seen.subset_of(allw) or seen.has_dup():
                    res.violation("reader-sees-unwritten", "a free-running concurrent reader returned a value not written",
                                  inp, "subset of written", seen.brief())
                if prev is not None and not prev.subset_of(seen):
                    res.violation("visibility-shrinks", "visibility shrank for a free-running reader", inp, prev.brief(),
                                  seen.brief())
                prev = seen
                polls += 1
            except Exception as e:  # noqa
                msg = repr(e)
                sig = "reader-fails-during-recording"
                if reader is None and ("truncated file" in msg or "file signature not found" in msg
                                       or "drf_properties" in msg):
                    sig = "props-file-not-staged"     # construction hit a partial drf_properties.h5
                res.violation(sig, "a free-running concurrent reader failed", inp, "no failure", msg[:200])
                reader = None
                polls += 1
    proc.communicate(timeout=60)
    _r, seen = P.reader_pass(top, sp, reader=reader)
    if not (seen == allw):
        res.violation("not-all-visible-after-close", "after close the polling reader does not see everything",
                      {"recording": sp["name"], "spec": sp, "label": "free-running"}, allw.brief(), seen.brief())
    res.count("free_running_polls", polls)
    res.extra["free_running_polls_exploration"] = polls
    shutil.rmtree(work, True)


def later_session(res, sp):
    """a complete recording, a reader opened on it, then a later session of the same channel that first writes
    the same samples again (every such write is refused, the writer stays usable) and then a free later period;
    after its close the reader opened before and a fresh one see every sample of both sessions"""
    import digital_rf
    work = common.scratch_dir("c09later-")
    top = os.path.join(work, "top")
    P.run_writer(sp, top)
    lastg = max(g0 + n for g0, n in sp["writes"])
    per_file = max(1, sp["file_cadence_ms"] * sp["srn"] // (1000 * sp["srd"]))
    sp3 = dict(sp, writes=[list(w) for w in sp["writes"]] + [[lastg + 3 * per_file + 7, min(per_file + 3, 4000)]],
               name=sp["name"] + "-later-session")
    sp3.pop("apis", None)
    inp = {"recording": sp["name"], "spec": sp3, "label": "later-session-refused-then-later-period"}
    try:
        old, seen0 = P.reader_pass(top, sp)
    except Exception as e:  # noqa
        res.violation("reader-fails-after-close", "a reader fails on a complete recording", inp, "all samples", repr(e)[:200])
        return
    outc, rc, err = P.run_writer(sp3, top)
    oc = {o["call"]: o for o in outc}
    res.count("later_session_checked")
    if not oc.get("write%d" % (len(sp3["writes"]) - 1), {}).get("ok") or not oc.get("close", {}).get("ok"):
        res.disagree("later session: the write into a free later period (or the close) did not succeed", inp, "ok", outc[-4:])
        return
    for name, rd in (("long-lived", old), ("fresh", None)):
        try:
            _r, seen = P.reader_pass(top, sp3, reader=rd)
        except Exception as e:  # noqa
            res.violation("reader-fails-after-close", "a %s reader fails after the later session was closed" % name, inp,
                          "all samples", repr(e)[:200])
            continue
        if not (seen == P.written(sp3)):
            res.violation("not-all-visible-after-close", "after the writer of a later session is closed a %s reader does not see "
                          "everything" % name, inp, P.written(sp3).brief(), seen.brief())
    shutil.rmtree(work, True)


def earlier_session(res, sp):
    """a recording that starts in its fourth file period exists and has been read; a second recorder then starts at the
    first period and writes forward INTO the recorded period (its call that reaches it is refused, after it has opened
    files of its own).  What the first reader could read stays readable and unchanged, for it and for a fresh reader;
    the finalized files keep their bytes"""
    pf = max(1, sp["file_cadence_ms"] * sp["srn"] // (1000 * sp["srd"]))
    if pf > 5000:
        return
    work = common.scratch_dir("c09earlier-")
    top = os.path.join(work, "top")
    sp1 = dict(sp, writes=[[3 * pf, pf + 30]], name=sp["name"] + "-first-run-from-the-4th-period")
    sp2 = dict(sp, writes=[[0, pf + 50], [pf + 50, 2 * pf]], name=sp["name"] + "-second-run-from-the-1st-period")
    for x in (sp1, sp2):
        x.pop("apis", None)
    inp = {"recording": sp["name"], "spec": sp1, "second_spec": sp2, "label": "earlier-session-runs-into-recorded-period"}
    P.run_writer(sp1, top)
    try:
        old, seen1 = P.reader_pass(top, sp1)
    except Exception as e:  # noqa
        res.violation("reader-fails-after-close", "a reader fails on a complete recording", inp, "all samples", repr(e)[:200])
        return
    before = {f: h for f, h in P.tree_digest(top).items() if P.is_final_data(f)}
    P.run_writer(sp2, top)
    after = P.tree_digest(top)
    res.count("earlier_session_checked")
    changed = sorted(f for f, h in before.items() if after.get(f) != h)
    if changed:
        res.violation("finalized-file-modified", "a data file finalized by an earlier run was replaced by a recorder that wrote "
                      "forward into its period", inp, "bytes unchanged", changed)
    for name, rd in (("long-lived", old), ("fresh", None)):
        try:
            _r, seen = P.reader_pass(top, sp1 if rd is not None else sp2, reader=rd)
        except Exception as e:  # noqa
            res.violation("reader-fails-after-close", "a %s reader fails after the second run" % name, inp, "the earlier samples",
                          repr(e)[:200])
            continue
        if not seen1.subset_of(seen):
            res.violation("visibility-shrinks", "samples a reader could read before the second run are no longer readable or changed "
                          "(%s reader)" % name, inp, seen1.brief(), seen.brief())
    shutil.rmtree(work, True)


def emptied_tree_session(res, sp):
    """an earlier run recorded the same span; its data files were expired since (a ring buffer, a clean-up script)
    and the timestamp subdirectories are still there, empty.  The recorder runs again: a reader opened before it and
    a fresh one see everything once it is closed"""
    work = common.scratch_dir("c09emptied-")
    top = os.path.join(work, "top")
    P.run_writer(sp, top)
    removed = 0
    for f, _h in P.tree_digest(top).items():
        if P.is_final_data(f):
            os.remove(os.path.join(top, f))
            removed += 1
    inp = {"recording": sp["name"], "spec": sp, "label": "recorded-again-into-emptied-subdirectories"}
    try:
        old, _seen0 = P.reader_pass(top, sp)
    except Exception as e:  # noqa
        res.violation("reader-fails-after-close", "a reader fails on a channel whose data files were all removed", inp,
                      "no samples", repr(e)[:200])
        old = None
    outc, rc, err = P.run_writer(sp, top)
    res.count("emptied_tree_session_checked")
    if rc != 0 or any(not o["ok"] for o in outc):
        res.disagree("recording again into the emptied subdirectories did not complete", inp, "ok", outc[-4:])
        return
    for name, rd in (("long-lived", old), ("fresh", None)):
        if name == "long-lived" and old is None:
            continue
        try:
            _r, seen = P.reader_pass(top, sp, reader=rd)
        except Exception as e:  # noqa
            res.violation("reader-fails-after-close", "a %s reader fails after the second run was closed" % name, inp,
                          "all samples", repr(e)[:200])
            continue
        if not (seen == P.written(sp)):
            res.violation("not-all-visible-after-close", "after a recorder that wrote into subdirectories emptied since an earlier "
                          "run is closed, a %s reader does not see everything" % name, inp, P.written(sp).brief(), seen.brief())
    shutil.rmtree(work, True)


def run(res):
    common.use_impl()
    res.rule = ("one case = one point between two file-system operations of a single-stepped real writer, at which a "
                "long-lived and a fresh DigitalRFReader query the live tree (get_bounds + read of the whole span); all "
                "distinct and non-trivial; each result is compared with raw h5py of the final-named files, the model's "
                "state after the same prefix, the written values and the previous step; a second channel's writer is held "
                "before every operation of its set-up while fresh and long-lived readers are constructed on / query the "
                "top-level directory holding a complete first channel; two top-level directories of the SAME channel (a "
                "finished archive and a directory a single-stepped live writer records into, 10 s later): fresh and "
                "long-lived readers over both, in both orders, before every operation of the live writer (no properties "
                "file yet / only drf_properties.h5 / finalized files / closed) must not fail, must return exactly the "
                "union of the finalized files and its bounds; restart after a kill inside a data file (quick: first and last such "
                "kill point per recording): a reader opened before the restart and a fresh one query before every operation of "
                "the restarted writer (first write into the period of the leftover tmp file; closed, or a later period first) "
                "and after its close; thorough adds recordings; a free-running writer "
                "polled by a reader is exploration")
    for sp in recordings(res.tier):
        b = P.baseline(res, sp)
        if b.ops is None:
            continue
        stepped(res, sp, b)
        # a recorder killed inside a data file is restarted (first write into the period of the leftover tmp file):
        # a reader opened BEFORE the restart and a fresh one query before every operation of the restarted writer
        for i, tmp_rel in P.restart_points(res, b, 2):
            for later in (False, True):
                P.restart_after_kill(res, sp, i, tmp_rel, later, concurrent=True)
        later_session(res, sp)
        earlier_session(res, sp)
        emptied_tree_session(res, sp)
        res.sample({"recording": sp["name"], "ops": b.n,
                    "props_variant": {0: "Direct", 1: "Staged", None: "none"}[b.vp]})
        shutil.rmtree(b.work, True)
    second_channel(res, recordings(res.tier)[0])
    two_dirs(res, recordings(res.tier)[0])
    free_running(res, 4 if res.tier == "quick" else 20)
    res.assumptions += [
        "a reader probe (os.access + h5py.File + dataset reads of one file) is atomic with respect to the writer's "
        "operations: interleavings inside one h5py.File() call are not modelled (a finalized file is never modified, "
        "so they cannot matter unless rename is not atomic)",
        "rename(2) is atomic and a closed, renamed file is whole for other processes (kernel)",
        "the free-running part samples real scheduler interleavings; it is exploration, not part of the proof",
    ]
    res.trusted += ["harness/cdriver/fsshim.c (single-stepping through FIFOs)", "harness/protolib.py"]


def replay(res, rp):
    common.use_impl()
    inp = rp["input"]
    sp = inp.get("spec")
    if sp and inp.get("label") == "second-channel":
        import digital_rf
        work = common.scratch_dir("c09replay-")
        top = os.path.join(work, "top")
        P.run_writer(sp, top)
        P.run_writer(inp["second_channel_spec"], top, kill_at=inp["second_channel_before_op"], chan="ch1")
        print("tree with the second channel's writer stopped before its operation %d:" % inp["second_channel_before_op"])
        for f in P.tree_files(top):
            if f.startswith("ch1/") or f.endswith("properties.h5"):
                print("  ", f)
        try:
            r = digital_rf.DigitalRFReader(top)
            print("reader ok, channels", r.get_channels())
        except Exception as e:  # noqa
            print("reader raises", repr(e))
        print("expected:", rp.get("expected"), "| observed then:", rp.get("observed"))
        return 0
    if sp and inp.get("label") == "restart-after-kill":
        return P.replay_restart(res, rp)
    if sp and inp.get("label") == "earlier-session-runs-into-recorded-period":
        work = common.scratch_dir("c09replay-")
        top = os.path.join(work, "top")
        P.run_writer(sp, top)
        old, seen1 = P.reader_pass(top, sp)
        before = {f: h for f, h in P.tree_digest(top).items() if P.is_final_data(f)}
        outc, rc, err = P.run_writer(inp["second_spec"], top)
        after = P.tree_digest(top)
        print("second run outcomes:", [(o["call"], o["ok"]) for o in outc])
        changed = sorted(f for f, h in before.items() if after.get(f) != h)
        print("finalized files whose bytes changed:", changed)
        _r, seen = P.reader_pass(top, sp, reader=old)
        print("the first reader saw", seen1.brief(), "and now sees", seen.brief())
        bad = bool(changed) or not seen1.subset_of(seen)
        print("replay verdict:", "STILL VIOLATING" if bad else "no longer violating")
        return 1 if bad else 0
    if sp and inp.get("label") == "recorded-again-into-emptied-subdirectories":
        work = common.scratch_dir("c09replay-")
        top = os.path.join(work, "top")
        P.run_writer(sp, top)
        for f, _h in P.tree_digest(top).items():
            if P.is_final_data(f):
                os.remove(os.path.join(top, f))
        print("first run recorded and its data files removed; subdirectories left:", P.tree_dirs(top))
        outc, rc, err = P.run_writer(sp, top)
        print("second run outcomes:", [(o["call"], o["ok"]) for o in outc])
        print("files:", P.tree_files(top))
        bad = 0
        try:
            _r, seen = P.reader_pass(top, sp)
            print("a fresh reader sees", seen.brief(), "; written", P.written(sp).brief())
            bad += 0 if seen == P.written(sp) else 1
        except Exception as e:  # noqa
            print("a fresh reader raises", repr(e))
            bad += 1
        print("replay verdict:", "STILL VIOLATING" if bad else "no longer violating")
        return 1 if bad else 0
    if sp and inp.get("label") == "later-session-refused-then-later-period":
        work = common.scratch_dir("c09replay-")
        top = os.path.join(work, "top")
        P.run_writer(dict(sp, writes=sp["writes"][:-1]), top)
        old, _s = P.reader_pass(top, sp)
        outc, rc, err = P.run_writer(sp, top)
        print("later session outcomes:", [(o["call"], o["ok"]) for o in outc])
        print("tmp. files after its close:", [f for f in P.tree_files(top) if os.path.basename(f).startswith("tmp.")])
        bad = 0
        for name, rd in (("long-lived", old), ("fresh", None)):
            try:
                _r, seen = P.reader_pass(top, sp, reader=rd)
                print(name, "reader sees", seen.brief(), "; written", P.written(sp).brief())
                bad += 0 if seen == P.written(sp) else 1
            except Exception as e:  # noqa
                print(name, "reader raises", repr(e))
                bad += 1
        print("replay verdict:", "STILL VIOLATING" if bad else "no longer violating")
        return 1 if bad else 0
    if sp and inp.get("label") == "two-dirs":
        import digital_rf
        work = common.scratch_dir("c09replay-")
        archive, live = os.path.join(work, "archive"), os.path.join(work, "live")
        P.run_writer(sp, archive)
        P.run_writer(inp["live_spec"], live, kill_at=inp["live_before_op"])
        tops = [archive, live] if inp.get("order") != "live-first" else [live, archive]
        print("archive: finished recording of %s; live directory with its writer stopped before its operation %d:"
              % (P.CH, inp["live_before_op"]))
        for f in P.tree_files(live):
            print("  ", f)
        print("reader over", [os.path.basename(t) for t in tops])
        try:
            r = digital_rf.DigitalRFReader(tops)
            print("get_bounds ->", r.get_bounds(P.CH))
            _r, seen = P.reader_pass(None, sp, reader=r)
            print("reader sees", seen.brief())
        except Exception as e:  # noqa
            print("reader raises", repr(e))
        print("expected:", rp.get("expected"), "| observed then:", rp.get("observed"))
        return 0
    if not sp or "before_op" not in inp:
        print(rp)
        return 0
    work = common.scratch_dir("c09replay-")
    top = os.path.join(work, "top")
    # the state the reader saw = the state a kill before that operation leaves (writer dead, same tree)
    P.run_writer(sp, top, kill_at=inp["before_op"])
    print("tree before operation %s (%s):" % (inp["before_op"], inp.get("operation")))
    for f in P.tree_files(top):
        print("  ", f, os.path.getsize(os.path.join(top, f)))
    try:
        _r, seen = P.reader_pass(top, sp)
        print("reader sees", seen.brief())
    except Exception as e:  # noqa
        print("reader raises", repr(e))
    print("expected:", rp.get("expected"), "| observed then:", rp.get("observed"))
    return 0
