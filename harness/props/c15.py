"""C15 -- live event filter agrees with listing; finalizing rename is a creation.

Ties: T2 (translate/re2gallina.py) regenerates coq/Gen/Grammar.v from the imported package on
every run; the extracted matcher is compared with CPython's `re` on the regenerated patterns;
the extracted Events.dispatch is compared with a real DigitalRFEventHandler.dispatch (recording
on_* methods) over the complete bounded universe the theorem C15_*_bounded quantifies over
(dumped by the model itself); the real handler is also compared with an independent Python
grammar oracle and with lsdrf on real scratch trees containing the paths."""
import os
import re

import common
from props import listing_lib as L
import re2gallina

LEVEL = "proof"
EXTRA_TARGETS = ()


def regenerate(res):
    common.use_impl()
    try:
        text = re2gallina.generate()
    except re2gallina.Unsupported as e:
        res.broken.append({"what": "T2 translator: a pattern left the supported subset", "log": str(e)})
        return
    except Exception as e:  # noqa
        res.broken.append({"what": "T2 translator failed", "log": repr(e)})
        return
    common.write_if_changed(os.path.join(common.COQ, "Gen", "Grammar.v"), text)
    res.trusted.append("translate/re2gallina.py (CPython re._parser tree -> regex AST, fail-closed subset)")
    common.regenerate_with(res, "dispatch2gallina", "DispatchGen.v", "T19: DigitalRFEventHandler.__init__ / dispatch")


# --------------------------------------------------------------------------- real handler
def make_handler_class():
    from digital_rf import watchdog_drf

    class Rec(watchdog_drf.DigitalRFEventHandler):
        def __init__(self, **kw):
            super().__init__(**kw)
            self.log = []

        def _rec(self, e):
            self.log.append((e.event_type, e.src_path, getattr(e, "dest_path", "") or "", bool(e.is_directory)))

        on_created = on_deleted = on_modified = on_moved = _rec
    return Rec


def make_event(kind, isdir, src, dest):
    from watchdog import events as we
    cls = {("created", False): we.FileCreatedEvent, ("created", True): we.DirCreatedEvent,
           ("modified", False): we.FileModifiedEvent, ("modified", True): we.DirModifiedEvent,
           ("deleted", False): we.FileDeletedEvent, ("deleted", True): we.DirDeletedEvent,
           ("moved", False): we.FileMovedEvent, ("moved", True): we.DirMovedEvent}[(kind, isdir)]
    return cls(src, dest) if kind == "moved" else cls(src)


def impl_dispatch(h, ev):
    """-> model-style outcome: [0] | [1, kind, src, dest] | [2, repr(exc)]"""
    h.log.clear()
    try:
        h.dispatch(ev)
    except Exception as e:  # noqa
        return [2, type(e).__name__]
    if not h.log:
        return [0]
    if len(h.log) != 1:
        return [9, list(h.log)]
    t, s, d, isdir = h.log[0]
    return [1, L.KINDS.index(t), s, d]


def dec_outcome(l):
    if l[0] in (0, 3):
        return [l[0]]
    if l[0] == 2:
        return [2, "ValueError"]
    s, i = L.take_word(l, 2)
    d, i = L.take_word(l, i)
    return [1, l[1], s, d]


# --------------------------------------------------------------------------- matcher vs re
def matcher_correspondence(res, paths):
    from digital_rf import list_drf, watchdog_drf
    try:
        items = re2gallina.collect()
    except re2gallina.Unsupported:
        items = re2gallina.collect(strict=False)      # already recorded by regenerate(); keep searching
    rng = res.rng
    alphabet = "0123456789@./-_Ttmprfh5 \nxXA:"
    subjects = set()
    for p, _ in paths:
        subjects.add(p)
        parts = p.split("/")
        subjects.update(parts)
        subjects.add("/".join(parts[-2:]))
        subjects.add(p + "\n")
        subjects.add(p + "\n\n")
        subjects.add(p.upper())
        subjects.add(p.lower())
    subjects.update(["", "\n", "@", "a@1.h5", "a@1.000.h5", "tmp.@1.h5", "tmp@1.h5", "tmpx@1.h5", "t@1.h5",
                     "a\n@1.h5", "a@1.h5\n", "a@1@2.000.h5", "@@1.h5", "a@1.h5@2.h5", "a@1.000.h5/b@2.h5",
                     "/w/2017-07-14T02-00-00/x/2017-07-14T02-00-00/tmp.rf@1500000000.000.h5",
                     "/w/2017-07-14T02-00-00/ch0/rf@1500000000.000.h5", "2017-07-14T02-00-00/rf@1.000.h5",
                     "/2017-07-14T02-00-00/rf@1.000.h5", "drf_properties.h5", "/drf_properties.h5",
                     "a/metadata.h5", "a/metadata.h5\n", "a/dmd_properties.h5", "a/drfdmd_properties.h5"])
    base = sorted(subjects)
    nmut = 3000 if res.tier == "quick" else 40000
    for _ in range(nmut):
        s = list(rng.choice(base))
        for _ in range(rng.choice([1, 1, 2, 3])):
            op = rng.randrange(3)
            pos = rng.randrange(len(s) + 1)
            if op == 0 and s:
                del s[min(pos, len(s) - 1)]
            elif op == 1:
                s.insert(pos, rng.choice(alphabet))
            elif s:
                s[min(pos, len(s) - 1)] = rng.choice(alphabet)
        subjects.add("".join(s))
    subjects = sorted(subjects)
    cases, meta = [], []
    for idx, (name, origin, pat, flags) in enumerate(items):
        native_ci = bool(flags & re.IGNORECASE)
        for ci in (native_ci, not native_ci):
            rx = re.compile(pat, re.IGNORECASE if ci else 0)
            subj = subjects if ci == native_ci else subjects[::7]
            for s in subj:
                cases.append([1, idx, int(ci)] + L.codes(s))
                meta.append((name, ci, rx, s))
    out = common.run_model("listing", cases)
    bad = 0
    for (name, ci, rx, s), m in zip(meta, out):
        mo = rx.match(s)
        impl = None if mo is None else {g: (mo.groupdict().get(g)) for g in L.GROUP_ORDER}
        mod = L.dec_caps(m)
        res.count("matcher:" + name)
        res.case(("re", name, ci, s), nontrivial=mo is not None or "@" in s)
        if impl != mod:
            bad += 1
            if bad <= 5:
                res.disagree("Base/Regex.v matcher vs CPython re on regenerated pattern %s (ci=%s)" % (name, ci),
                             s, mod, impl)
    res.sample({"matcher": "l_re_file", "subject": "a@b@1500000000.123.h5",
                "captures": L.dec_caps(common.run_model("listing", [[1, 3, 0] + L.codes("a@b@1500000000.123.h5")])[0])})
    return items


# --------------------------------------------------------------------------- main
def run(res):
    common.use_impl()
    import digital_rf
    from digital_rf import list_drf
    Rec = make_handler_class()
    paths = L.dec_paths(common.run_model("listing", [[3]])[0])
    windows = L.dec_windows(common.run_model("listing", [[7]])[0])
    res.rule = ("complete enumeration of the bounded universe dumped by the Coq model (the one the theorems "
                "C15_*_bounded quantify over): %d paths (3 channel paths x 9 subdirectory variants x 29 file "
                "variants) x {created, modified, deleted, moved to 5 destinations} x {file, directory} x 36 flag "
                "combinations x %d windows; non-trivial = distinct (event, flags, window) whose source or "
                "destination matches a selected pattern; each compared: extracted Events.dispatch vs the real "
                "DigitalRFEventHandler.dispatch vs an independent Python grammar oracle, plus lsdrf on real "
                "scratch trees containing the paths" % (len(paths), len(windows)))
    items = matcher_correspondence(res, paths)

    # ---- regex selection per flag combination, read off a live handler
    names = ["RE_DRFDMD", "RE_DRF", "RE_DMD", "RE_DRFDMDPROP", "RE_DRFPROP", "RE_DMDPROP"]
    sel = common.run_model("listing", [[8] + L.enc_flags(fl) for fl in L.ALL_FLAGS])
    n_valueerror = 0
    for fl, m in zip(L.ALL_FLAGS, sel):
        try:
            h = Rec(**L.flag_kwargs(fl))
            impl = [names.index(next(n for n in names if getattr(list_drf, n) == r.pattern)) for r in h.regexes]
        except ValueError:
            impl = []
            n_valueerror += 1
        res.case(("select", fl))
        res.count("select")
        if impl != m:
            res.disagree("regex selection from include flags", list(fl), m, impl)
        d, md, dp, mp = L.eff_flags(fl)
        if (impl == []) != (not (d or md or dp or mp)):
            res.violation("select-valueerror", "ValueError iff nothing is included", list(fl), not (d or md or dp or mp),
                          impl == [])
    res.count("select:ValueError", n_valueerror)

    # ---- exhaustive dispatch: one runner case per (flags, source path) giving every event x window
    moves = [[q for q, _ in L.dec_paths(mv)] for mv in common.run_model("listing", [[5] + L.codes(p) for p, _ in paths])]
    flagsets = [fl for fl in L.ALL_FLAGS if any(L.eff_flags(fl))]
    if res.tier == "quick":
        # the 15 effective combinations and four with None; the selection table itself was compared
        # for all 36 above, and the Coq theorem enumerates all of them
        fsel = [fl for fl in flagsets if None not in fl[2:]] + [fl for fl in flagsets if None in fl[2:]][::5]
    else:
        fsel = flagsets
    nw = len(windows)
    paths0, moves0 = paths, moves
    for fi, fl in enumerate(fsel):
        # every other flag set sees the whole universe below a directory whose name starts with 'tmp.' (what
        # `mktemp -d` makes): only the FILE name decides whether a path is an in-progress file
        pre = "/tmp.capture" if fi % 2 else ""
        paths = [(pre + p, c) for p, c in paths0]
        moves = [[pre + q for q in mv] for mv in moves0]
        cases = [[9] + L.enc_flags(fl) + L.enc_word(p) + [x for q in mv for x in L.enc_word(q)]
                 for (p, _), mv in zip(paths, moves)]
        model = common.run_model("listing", cases)
        handlers = [Rec(starttime=L.us_to_dt(st), endtime=L.us_to_dt(en), **L.flag_kwargs(fl)) for st, en in windows]
        gram = {}

        def g(path):
            """independent oracle, window-free part: None | 'prop' | time"""
            if path not in gram:
                if L.spec_listable(fl, None, None, path):
                    pd = L.parse_data(path.rsplit("/", 1)[1])
                    gram[path] = "prop" if (pd is None or path.rsplit("/", 1)[1] in L.ALL_PROPS) else pd[1]
                else:
                    gram[path] = None
            return gram[path]

        for (p, claim), mv, mrow in zip(paths, moves, model):
            slots = [("created", False, p, ""), ("modified", False, p, ""), ("deleted", False, p, ""),
                     ("created", True, p, "")] + [("moved", False, p, q) for q in mv] + [("moved", True, p, mv[0])]
            if len(mrow) != len(slots) * nw:
                raise common.Broken("runner row length %d for %d slots" % (len(mrow), len(slots)))
            for si, (k, isdir, s, d) in enumerate(slots):
                ev = make_event(k, isdir, s, d)
                kidx = L.KINDS.index(k)
                any_accept = None
                gs, gd = g(s), (g(d) if d else None)
                for wi in range(nw):
                    if res.tier == "quick" and wi and not any_accept and (wi + fi + si + len(s)) % 6:
                        continue
                    st, en = windows[wi]
                    mo = mrow[si * nw + wi]
                    io = impl_dispatch(handlers[wi], ev)
                    if wi == 0:
                        any_accept = io != [0]
                    if io == [0]:
                        imo = 0
                    elif io[0] == 2:
                        imo = 2
                    else:
                        t3 = (io[1], io[2], io[3])
                        imo = (1 if t3 == (kidx, s, d) else 4 if t3 == (2, s, "") else 5 if t3 == (0, d, "") else 9)
                        res.nontrivial.add((fi, k, isdir, s, d, wi))
                    res.evaluations += 1
                    if imo != mo:
                        res.disagree("Events.dispatch vs DigitalRFEventHandler.dispatch",
                                     {"flags": list(fl), "window_us": [st, en], "event": [k, isdir, s, d]}, mo, io)
                    if not claim:
                        continue
                    # ---- property oracle on the implementation (inside the claim only)
                    if isdir:
                        exp = 0
                    else:
                        a_s = gs is not None and (gs == "prop" or L.in_window(gs, st, en))
                        if k != "moved":
                            exp = 1 if a_s else 0
                        elif gs is not None and gd is not None:
                            exp = None          # both names tracked: not covered by the statement
                        elif gs is not None:
                            exp = 4 if a_s else 0
                        elif gd is not None:
                            exp = 5 if (gd == "prop" or L.in_window(gd, st, en)) else 0
                        else:
                            exp = 0
                    if exp is not None and imo != exp:
                        res.violation(oracle_signature(k, isdir, s, d, exp, imo),
                                      "event filter disagrees with the listing grammar/window",
                                      {"flags": list(fl), "window_us": [st, en], "event": [k, isdir, s, d]}, exp, io)
        res.count("dispatch:flagsets")
    res.count("dispatch:events_per_flagset", sum(6 + len(mv) for mv in moves))
    res.nontrivial = {hash(x) for x in res.nontrivial}
    res.sample({"event": ["moved", "/w/ch0/2017-07-14T02-00-00/tmp.rf@1500000000.000.h5",
                          "/w/ch0/2017-07-14T02-00-00/rf@1500000000.000.h5"], "delivered": "created(dest)"})

    paths, moves = paths0, moves0
    listing_leg(res, Rec, paths, windows, flagsets)

    # ---- guard the extraction on a sample
    sub = [p for p, _ in paths[::40]]
    exprs = ["(match rmatch true e_re_drfdmd (codes \"%s\") with Some c => [1] | None => [0] end)" % p for p in sub]
    vm = common.run_model_vm("From Coq Require Import String.\nFrom DRF Require Import Base.Regex Base.Dec Gen.Grammar.\n"
                             "Local Open Scope string_scope.", exprs)
    idx = [n for n, _, _, _ in items].index("e_re_drfdmd")
    ex = [[r[0]] for r in common.run_model("listing", [[1, idx, 1] + L.codes(p) for p in sub])]
    res.count("vm_compute_crosscheck", len(sub))
    if vm != ex:
        res.disagree("extracted OCaml vs vm_compute (matcher)", sub, vm, ex)
    res.extra["traces_validated_against_impl"] = res.evaluations
    res.assumptions += [
        "paths are ASCII (re.IGNORECASE is modelled for A-Z/a-z only); os.sep is '/'",
        "name seconds stay below timedelta's limit (~8.6e13 s); beyond it dispatch and the listing raise OverflowError",
        "a move between two names that both match is delivered as a move judged on the destination's time only "
        "(modelled and proved as C15_moved_both_match_uses_dest_time; the property statement does not cover it)",
        "the filter is case-insensitive (watchdog default), the listing is not: upper/lower-case variants of the fixed "
        "parts are outside the claim; they are enumerated in the model/implementation correspondence only",
    ]


def oracle_signature(k, isdir, s, d, exp, got):
    base = (d if (k == "moved" and exp in (5,)) else s).rsplit("/", 1)[-1]
    if isdir:
        return "directory-event-delivered"
    if base.startswith("tmp.") and got != 0 and k != "moved":
        return "tmp-file-accepted"
    if k == "moved":
        return "move-conversion-%s-got-%s" % (exp, got)
    return "filter-%s-listing-%s" % ("accepts" if got else "drops", "lists" if exp else "does-not-list")


def listing_leg(res, Rec, paths, windows, flagsets):
    """the real handler against the real lsdrf on scratch trees containing the universe paths"""
    import digital_rf
    root = common.scratch_dir()
    kinds = {"drf": ["drf_properties.h5"], "dmd": ["dmd_properties.h5"], "legacy": ["metadata.h5"],
             # the standard layout: RF channels, the metadata channel nested inside one of them
             "standard": {"/w/ch0": ["drf_properties.h5"], "/w/a/b/ch1": ["drf_properties.h5"],
                          "/w/ch0/metadata": ["dmd_properties.h5"]}}
    claim_paths = [p for p, c in paths if c]
    data_paths = [p for p in claim_paths if p.rsplit("/", 1)[1] not in L.ALL_PROPS]
    prop_paths = [p for p in claim_paths if p.rsplit("/", 1)[1] in L.ALL_PROPS]
    chans = ["/w/ch0", "/w/a/b/ch1", "/w/ch0/metadata"]
    wsel = windows if res.tier == "thorough" else [w for i, w in enumerate(windows) if i % 3 == 0 or None in w]
    fsel = flagsets if res.tier == "thorough" else [fl for fl in flagsets if None not in fl[2:]] + flagsets[:3]
    for kind, props in kinds.items():
        top = os.path.join(root, ("tmp." + kind) if kind in ("dmd", "standard") else kind)
        for p in data_paths:
            L.touch(top + p)
        for ch in chans:
            for pf in (props[ch] if isinstance(props, dict) else props):
                L.touch(top + ch + "/" + pf)

        def chan_kind(p):
            """'drf' | 'dmd' | 'legacy': what the channel holding path p is in this tree"""
            if not isinstance(props, dict):
                return kind
            ch = max((c for c in chans if p.startswith(c + "/")), key=len, default=None)
            return "dmd" if ch and "dmd_properties.h5" in props[ch] else "drf"
        for fl in fsel:
            drf, dmd, _, _ = L.eff_flags(fl)
            ydmd = dmd and kind in ("dmd", "legacy")
            for st, en in wsel:
                h = Rec(starttime=L.us_to_dt(st), endtime=L.us_to_dt(en), **L.flag_kwargs(fl))
                try:
                    # the listing in either direction (what is listed does not depend on the direction)
                    nlist = getattr(listing_leg, "_n", 0) + 1
                    listing_leg._n = nlist
                    listed = set(digital_rf.lsdrf(top + "/w", starttime=L.us_to_dt(st), endtime=L.us_to_dt(en),
                                                  reverse=bool(nlist % 2), **L.flag_kwargs(fl)))
                except Exception as e:  # noqa
                    res.violation("listing-raises-on-universe-tree", "lsdrf raised on the universe tree",
                                  {"kind": kind, "flags": list(fl), "window_us": [st, en]}, "a list", repr(e))
                    continue
                # forward-fill candidates: per channel the latest file before start
                for p in data_paths:
                    full = top + p
                    acc = impl_dispatch(h, make_event("created", False, full, "")) != [0]
                    lst = full in listed
                    res.evaluations += 1
                    res.count("lsdrf-leg")
                    if acc == lst:
                        continue
                    pd = L.parse_data(p.rsplit("/", 1)[1])
                    # which kinds does this channel yield? a file of the other kind is not listed there
                    ck = chan_kind(p)
                    if acc and not lst:
                        yields = (pd and ((pd[0] == "drf" and drf and ck in ("drf", "legacy")) or
                                          (pd[0] == "dmd" and dmd and ck in ("dmd", "legacy"))))
                        if not yields:
                            continue     # listed in a channel of the other kind (other tree)
                    if lst and not acc and dmd and ck in ("dmd", "legacy") and st is not None and pd and pd[1] < st:
                        res.count("lsdrf-leg:ffill-aside")
                        continue         # the forward-fill file
                    res.violation("filter-vs-lsdrf-%s" % ("accepts-unlisted" if acc else "drops-listed"),
                                  "event filter and lsdrf disagree on a path of the universe tree",
                                  {"kind": kind, "flags": list(fl), "window_us": [st, en], "path": p, "listing_reversed": bool(listing_leg._n % 2)}, lst, acc)
    # properties files: singleton trees
    top = os.path.join(root, "props")
    for i, p in enumerate(prop_paths):
        t = os.path.join(top, str(i))
        L.touch(t + p)
        for fl in flagsets:
            h = Rec(**L.flag_kwargs(fl))
            listed = set(digital_rf.lsdrf(t + "/w", **L.flag_kwargs(fl)))
            acc = impl_dispatch(h, make_event("modified", False, t + p, "")) != [0]
            res.evaluations += 1
            res.count("lsdrf-leg:props")
            if acc != ((t + p) in listed):
                res.violation("filter-vs-lsdrf-props", "event filter and lsdrf disagree on a properties file",
                              {"flags": list(fl), "path": p}, (t + p) in listed, acc)


def replay(res, rp):
    common.use_impl()
    Rec = make_handler_class()
    i = rp["input"]
    print("replay input", i)
    if "event" in i:
        fl = tuple(i["flags"])
        st, en = i["window_us"]
        h = Rec(starttime=L.us_to_dt(st), endtime=L.us_to_dt(en), **L.flag_kwargs(fl))
        k, isdir, s, d = i["event"]
        print("dispatch ->", impl_dispatch(h, make_event(k, isdir, s, d)), " expected", rp.get("expected"))
    return 0
