"""Shared by c14.py / c15.py / c18.py: the integer protocol of Extract/ListingRunner.v, an
independent Python oracle for the Digital RF path grammar (written without `re` and without
list_drf), scratch-tree builders and the set-theoretic listing Spec."""
import datetime
import os

import common

EPOCH = datetime.datetime(1970, 1, 1, tzinfo=datetime.timezone.utc)
T0_US = 1500000000000000
GROUP_ORDER = ["chpath", "year", "month", "day", "hour", "minute", "second", "name", "secs", "frac"]
KINDS = ["created", "modified", "deleted", "moved"]


# ----------------------------------------------------------------------------- protocol
def codes(s):
    return [ord(c) for c in s]


def enc_word(s):
    return [len(s)] + codes(s)


def enc_opt(v):
    return [0, 0] if v is None else [1, v]


def enc_ob(b):
    return 2 if b is None else int(bool(b))


def enc_flags(fl):
    return [int(fl[0]), int(fl[1]), enc_ob(fl[2]), enc_ob(fl[3])]


def take_word(l, i):
    n = l[i]
    return "".join(chr(c) for c in l[i + 1:i + 1 + n]), i + 1 + n


def dec_caps(l):
    """result of run 1 -> None | dict name -> str|None"""
    if l == [0]:
        return None
    assert l[0] == 1, l
    i, out = 1, {}
    for g in GROUP_ORDER:
        if l[i] == 0:
            out[g] = None
            i += 1
        else:
            out[g], i = take_word(l, i + 1)
    return out


def dec_paths(l):
    out, i = [], 0
    while i < len(l):
        claim = bool(l[i])
        w, i = take_word(l, i + 1)
        out.append((w, claim))
    return out


def dec_windows(l):
    out = []
    for i in range(0, len(l), 4):
        out.append((l[i + 1] if l[i] else None, l[i + 3] if l[i + 2] else None))
    return out


_ZONES = [datetime.timezone.utc, None, datetime.timezone(datetime.timedelta(hours=5, minutes=30)),
          datetime.timezone(datetime.timedelta(hours=-8)), datetime.timezone.utc, None,
          datetime.timezone(datetime.timedelta(hours=13, minutes=45))]
_zone_ctr = [0]


def us_to_dt(us):
    """the instant `us` microseconds after the epoch as the time-window argument of lsdrf / the event
    handlers / the mirror: the same instant is handed over in rotating forms -- aware UTC, naive (taken
    as UTC by the documented convention) and aware in zones with a non-zero offset"""
    if us is None:
        return None
    dt = EPOCH + datetime.timedelta(microseconds=us)
    _zone_ctr[0] += 1
    z = _ZONES[_zone_ctr[0] % len(_ZONES)]
    if z is None:
        return dt.replace(tzinfo=None)
    return dt.astimezone(z)


ALL_FLAGS = [(a, b, c, d) for a in (True, False) for b in (True, False)
             for c in (None, True, False) for d in (None, True, False)]


def flag_kwargs(fl):
    return dict(include_drf=fl[0], include_dmd=fl[1], include_drf_properties=fl[2], include_dmd_properties=fl[3])


def eff_flags(fl):
    return (fl[0], fl[1], fl[0] if fl[2] is None else fl[2], fl[1] if fl[3] is None else fl[3])


# ----------------------------------------------------------------------------- independent grammar oracle
DIG = "0123456789"


def _digits(s):
    return len(s) > 0 and all(c in DIG for c in s)


def parse_data(base):
    """-> ('drf'|'dmd', time_us) for a finalized data file name, else None.  Hand-written from
    the format description: <name>@<secs>.<fff>.h5 (RF) / <name>@<secs>.h5 (metadata), name
    non-empty and not starting with 'tmp.'."""
    if base.startswith("tmp.") or not base.endswith(".h5") or "\n" in base:
        return None
    stem = base[:-3]
    name, at, rest = stem.rpartition("@")
    if not at or not name:
        return None
    if _digits(rest):
        return ("dmd", int(rest) * 1000000)
    if len(rest) >= 5 and rest[-4] == "." and _digits(rest[-3:]) and _digits(rest[:-4]):
        return ("drf", int(rest[:-4]) * 1000000 + int(rest[-3:]) * 1000)
    return None


def parse_subdir(sub):
    """-> unix seconds of a timestamped subdirectory name, 'invalid-date' when the shape is
    right but the calendar date is impossible, None when the shape is wrong"""
    shape = "dddd-dd-ddTdd-dd-dd"
    if len(sub) != len(shape):
        return None
    for c, s in zip(sub, shape):
        if (s == "d" and c not in DIG) or (s != "d" and c != s):
            return None
    y, mo, d, h, mi, s = int(sub[0:4]), int(sub[5:7]), int(sub[8:10]), int(sub[11:13]), int(sub[14:16]), int(sub[17:19])
    try:
        dt = datetime.datetime(y, mo, d, h, mi, s, tzinfo=datetime.timezone.utc)
    except ValueError:
        return "invalid-date"
    return (dt - EPOCH) // datetime.timedelta(seconds=1)


DRF_PROPS = ("drf_properties.h5", "metadata.h5")
DMD_PROPS = ("dmd_properties.h5", "metadata.h5")
ALL_PROPS = ("drf_properties.h5", "dmd_properties.h5", "metadata.h5")


def in_window(t, st, en):
    return (st is None or st <= t) and (en is None or t <= en)


def spec_listable(fl, st, en, path):
    """The property's reading of 'a listing with these flags/window would list a finalized file at
    this path inside a channel directory (forward-fill file aside)': chan/sub/file with a
    timestamped sub, a finalized file of an included kind, time in [st, en]; or chan/propsfile
    with its own flag."""
    drf, dmd, drfp, dmdp = eff_flags(fl)
    if "/" not in path:
        return False
    d, base = path.rsplit("/", 1)
    if (drfp and base in DRF_PROPS) or (dmdp and base in DMD_PROPS):
        return True
    if "/" not in d:
        return False
    sub = d.rsplit("/", 1)[1]
    ts = parse_subdir(sub)
    if ts is None or ts == "invalid-date":
        return False
    pd = parse_data(base)
    if pd is None:
        return False
    kind, t = pd
    if (kind == "drf" and not drf) or (kind == "dmd" and not dmd):
        return False
    return in_window(t, st, en)


# ----------------------------------------------------------------------------- scratch trees
def touch(path):
    os.makedirs(os.path.dirname(path), exist_ok=True)
    with open(path, "w"):
        pass


def walk_files(root):
    out = []
    for r, ds, fs in os.walk(root):
        for f in fs:
            out.append(os.path.join(r, f))
    return sorted(out)
