"""C03 -- exact sample-index <-> time conversion.
Tie: T1 regenerates Gen/TimeConvGen.v from the C text; the extracted term, the compiled C
functions (ctypes) and a big-integer oracle are compared on boundary families + random."""
import ctypes
import datetime
import os

import common
import c2gallina

FUNCS = ["digital_rf_get_timestamp_floor", "digital_rf_get_sample_ceil", "digital_rf_get_unix_time_rational"]
Y9999 = 253402300800
PS = 10 ** 12


def regenerate(res):
    try:
        text = c2gallina.translate_functions(os.path.join(common.REPO, "c/lib/rf_write_hdf5.c"), FUNCS,
                                             repo=common.REPO,
                                             extra_imports="From DRF Require Import Model.TimeParts.\n\n")
    except c2gallina.Unsupported as e:
        res.broken.append({"what": "T1 translator: C text left the supported subset", "log": str(e)})
        return
    common.write_if_changed(os.path.join(common.COQ, "Gen", "TimeConvGen.v"), text)
    res.trusted.append("translate/c2gallina.py (clang 14 JSON AST -> Gallina, fail-closed integer subset)")
    regenerate_time_parts(res)


def regenerate_time_parts(res):
    """T13: digital_rf_get_time_parts must be gmtime() + the field table -> coq/Gen/TimePartsGen.v"""
    import timeparts2gallina
    try:
        text = timeparts2gallina.translate(common.REPO)
    except c2gallina.Unsupported as e:
        res.broken.append({"what": "T13 translator: digital_rf_get_time_parts is no longer gmtime() + field table", "log": str(e)})
        return
    common.write_if_changed(os.path.join(common.COQ, "Gen", "TimePartsGen.v"), text)


def civil(t):
    """independent days->civil (not gmtime, not the Coq model's code path)"""
    days, r = divmod(t, 86400)
    d = datetime.date.fromordinal(719163 + days)   # 1970-01-01 is ordinal 719163
    return [d.year, d.month, d.day, r // 3600, (r % 3600) // 60, r % 60]


def gen_floor_cases(rng, n_random):
    ns = [1, 2, 3, 7, 10, 100, 200, 1000, 48000, 10 ** 6, 10 ** 8, 10 ** 9, 25 * 10 ** 6, 2 ** 31 - 1,
          2 ** 32 - 1, 2 ** 32 - 5, 4294967291, 3999999999, 999999937]
    ds = [1, 2, 3, 7, 10, 1000, 10 ** 9, 10 ** 9 - 1, 999999937, 44100]
    cases = []
    for n in ns:
        for d in ds:
            kmax = min(2 ** 63 - 1, (Y9999 * n - 1) // d)   # k*d/n < Y9999
            base = [0, 1, 2, n - 1, n, n + 1, kmax, kmax - 1, kmax // 2, 1500000000 * n // d,
                    1500000000 * n // d + 1, -(-1500000000 * n // d)]
            for j in (1, 2, 3, 1000, 10 ** 6):
                for off in (-1, 0, 1):
                    base.append(j * n + off)
                    base.append(-(-j * n // d) + off)
            for k in base:
                if 0 <= k <= kmax:
                    cases.append((k, n, d))
    for _ in range(n_random):
        n = rng.choice([rng.randrange(1, 2 ** 32), rng.randrange(1, 1000), rng.choice(ns)])
        d = rng.choice([rng.randrange(1, 10 ** 9 + 1), rng.randrange(1, 100), rng.choice(ds)])
        kmax = min(2 ** 63 - 1, (Y9999 * n - 1) // d)
        k = rng.choice([rng.randrange(0, kmax + 1), kmax - rng.randrange(0, 1000) if kmax > 1000 else 0,
                        rng.randrange(0, min(kmax, 10 ** 6) + 1)])
        cases.append((k, n, d))
    return cases


def run(res):
    d = common.use_impl()
    import digital_rf
    so = [f for f in os.listdir(os.path.join(d, "digital_rf")) if f.endswith(".so")][0]
    lib = ctypes.CDLL(os.path.join(d, "digital_rf", so))
    u64 = ctypes.c_uint64
    lib.digital_rf_get_timestamp_floor.argtypes = [u64, u64, u64, ctypes.POINTER(u64), ctypes.POINTER(u64)]
    lib.digital_rf_get_sample_ceil.argtypes = [u64, u64, u64, u64, ctypes.POINTER(u64)]
    rng = res.rng
    nrand = 20000 if res.tier == "quick" else 600000
    cases = gen_floor_cases(rng, nrand)
    res.rule = ("(k,n,d) from boundary families (k around multiples of n and of n/d, extremes 2^63-1 / year 9999, "
                "n in {1,primes,2^32-1,...}, d in {1,3,7,10^9,...}) plus random triples in the property's domain; "
                "non-trivial = distinct triple with k*d mod n != 0 or k at a family boundary (all generated cases "
                "are inside the domain); each compared three ways: regenerated Coq term (extracted), compiled C via "
                "ctypes, big-integer oracle; then the inverse on the floored timestamp")
    # ---- floor: model vs impl vs oracle
    model = common.run_model("timeconv", [[1, k, n, dd] for k, n, dd in cases])
    s_out, p_out = u64(), u64()
    ceil_cases = []
    for (k, n, dd), m in zip(cases, model):
        rc = lib.digital_rf_get_timestamp_floor(k, n, dd, ctypes.byref(s_out), ctypes.byref(p_out))
        impl = [rc, s_out.value, p_out.value]
        spec = [0, k * dd // n, ((k * dd) % n) * PS // n]
        res.case(("floor", k, n, dd), nontrivial=True)
        res.count("floor")
        if impl != spec:
            res.violation("floor-not-exact", "get_timestamp_floor differs from floor(k*d/n), floor(frac*1e12)",
                          {"fn": "floor", "k": k, "n": n, "d": dd}, spec, impl)
        if m != impl:
            res.disagree("regenerated model vs compiled C: get_timestamp_floor", [k, n, dd], m, impl)
        ceil_cases.append((spec[1], spec[2], n, dd, k))
    res.sample({"floor": list(cases[len(cases) // 3]), "result": model[len(cases) // 3]})
    # ---- ceil on floored timestamps (round trip) and on perturbed timestamps
    extra = []
    for (s, p, n, dd, k) in ceil_cases[::3]:
        for dp in (1, -1, 999, 10 ** 9):
            p2 = p + dp
            if 0 <= p2 < PS:
                extra.append((s, p2, n, dd, None))
    allc = ceil_cases + extra
    allc = [c for c in allc if -(-((c[0] * PS + c[1]) * c[2]) // (c[3] * PS)) < 2 ** 63]
    model = common.run_model("timeconv", [[2, s, p, n, dd] for s, p, n, dd, _ in allc])
    k_out = u64()
    for (s, p, n, dd, k), m in zip(allc, model):
        rc = lib.digital_rf_get_sample_ceil(s, p, n, dd, ctypes.byref(k_out))
        impl = [rc, k_out.value]
        spec = [0, -(-((s * PS + p) * n) // (dd * PS))]
        res.case(("ceil", s, p, n, dd))
        res.count("ceil")
        if impl != spec:
            res.violation("ceil-not-exact", "get_sample_ceil differs from ceil((s+p*1e-12)*n/d)",
                          {"fn": "ceil", "s": s, "p": p, "n": n, "d": dd}, spec, impl)
        elif k is not None and n <= dd * PS and impl[1] != k:
            res.violation("roundtrip", "ceil(floor(k)) != k", {"fn": "roundtrip", "k": k, "n": n, "d": dd}, k, impl[1])
        if m != impl:
            res.disagree("regenerated model vs compiled C: get_sample_ceil", [s, p, n, dd], m, impl)
    res.sample({"ceil": list(allc[len(allc) // 2][:4]), "result": model[len(allc) // 2]})
    # ---- public Python wrapper: calendar fields + microsecond, against an independent calendar
    cal = []
    bsecs = [0, 86399, 86400, 951782399, 951782400, 951868800, 2147483647, 2147483648, 4102444799, 4102444800,
             Y9999 - 1, 1500000000, 68169600, 94694399, 1709164800 - 1, 1709164800, 1709251200, 4107542400 - 1,
             4107542400, 13569465600 - 1]
    for t in bsecs:
        for n, dd in ((1, 1), (200, 3), (10 ** 6, 3), (2 ** 32 - 1, 10 ** 9)):
            k = -(-t * n // dd)
            for kk in (k - 1, k, k + 1):
                if 0 <= kk < 2 ** 63 and kk * dd // n < Y9999:
                    cal.append((kk, n, dd))
    ncal = 2000 if res.tier == "quick" else 50000
    for _ in range(ncal):
        n = rng.choice([1, 200, 10 ** 6, 48000, rng.randrange(1, 2 ** 32)])
        dd = rng.choice([1, 3, 7, rng.randrange(1, 10 ** 9 + 1)])
        t = rng.randrange(0, Y9999)
        # at the start of second t, or anywhere inside it (the picosecond part is then a large residue)
        k = t * n // dd + rng.choice([0, rng.randrange(0, max(1, n // dd)), max(0, n // dd - 1)])
        if k < 2 ** 63 and k * dd // n < Y9999:
            cal.append((k, n, dd))
    model = common.run_model("timeconv", [[3, k, n, dd] for k, n, dd in cal])
    for (k, n, dd), m in zip(cal, model):
        sec, ps = k * dd // n, ((k * dd) % n) * PS // n
        try:
            dt, ips = digital_rf.get_unix_time(k, n, dd)
            impl = [0, dt.year, dt.month, dt.day, dt.hour, dt.minute, dt.second, ips]
            us = dt.microsecond
        except Exception as e:  # noqa
            impl, us = ["exc", repr(e)], None
        spec = [0] + civil(sec) + [ps]
        res.case(("unix", k, n, dd))
        res.count("get_unix_time")
        if impl != spec or us != ps // 10 ** 6:
            res.violation("unix-time", "get_unix_time differs from calendar of floor(k*d/n) / floor picoseconds",
                          {"fn": "unix", "k": k, "n": n, "d": dd}, spec + [ps // 10 ** 6], impl + [us])
        if m != impl:
            res.disagree("regenerated model vs implementation: get_unix_time_rational", [k, n, dd], m, impl)
    res.sample({"get_unix_time": list(cal[5]), "result": model[5]})
    # ---- the conversions are functions of their arguments: chains of calls in which consecutive calls differ
    #      in exactly one argument (same index and numerator under another denominator, ...), each compared
    #      with the big-integer oracle; the result must not depend on the calls made before
    nchain = 150 if res.tier == "quick" else 4000
    for _ in range(nchain):
        n = rng.choice([1, 200, 10 ** 6, 48000, rng.randrange(1, 2 ** 32)])
        dd = rng.choice([1, 3, 7, rng.randrange(1, 10 ** 9 + 1)])
        t = rng.randrange(0, Y9999 // 4)
        k = t * n // dd + rng.randrange(0, max(1, n // dd))
        if not (k < 2 ** 63 and k * dd // n < Y9999):
            continue
        chain = [(k, n, dd)]
        for _s in range(6):
            k1, n1, d1 = chain[-1]
            which = rng.choice("knd")
            if which == "k":
                k1 = max(0, k1 + rng.choice([-1, 1, n1, 12345]))
            elif which == "n":
                n1 = rng.choice([n1 + 1, max(1, n1 - 1), n1 * 2, rng.randrange(1, 2 ** 32)])
            else:
                d1 = rng.choice([d1 + 1, max(1, d1 - 1), d1 * 3, rng.randrange(1, 10 ** 9 + 1)])
            if n1 < 2 ** 32 and d1 <= 10 ** 9 and k1 < 2 ** 63 and k1 * d1 // n1 < Y9999:
                chain.append((k1, n1, d1))
        chain.append(chain[0])
        # every third chain starts after a conversion the library refuses (a time no calendar date expresses): what a
        # refused call leaves behind (errno, a half-filled struct) must not show in the calls that follow
        refused = []
        if _ % 3 == 0:
            refused = [rng.choice([(2 ** 64 - 1, 200, 3), (2 ** 64 - 1, 1, 10 ** 9), (2 ** 63 + 5, 1, 7)])]
            try:
                digital_rf.get_unix_time(*refused[0])
            except Exception:  # noqa
                res.count("chain-after-a-refused-conversion")
        for j, (k1, n1, d1) in enumerate(chain):
            sec, ps = k1 * d1 // n1, ((k1 * d1) % n1) * PS // n1
            spec = [0] + civil(sec) + [ps]
            try:
                dt, ips = digital_rf.get_unix_time(k1, n1, d1)
                impl = [0, dt.year, dt.month, dt.day, dt.hour, dt.minute, dt.second, ips]
            except Exception as e:  # noqa
                impl = ["exc", repr(e)]
            rc = lib.digital_rf_get_timestamp_floor(k1, n1, d1, ctypes.byref(s_out), ctypes.byref(p_out))
            res.case(("chain", k1, n1, d1, j))
            res.count("chained-calls")
            if impl != spec:
                res.violation("unix-time-depends-on-earlier-calls" if j else "unix-time",
                              "get_unix_time differs from calendar of floor(k*d/n) / floor picoseconds after a sequence of calls",
                              {"fn": "unix", "k": k1, "n": n1, "d": d1, "history": [list(c) for c in refused + chain[:j]]}, spec, impl)
                break
            if [rc, s_out.value, p_out.value] != [0, sec, ps]:
                res.violation("floor-depends-on-earlier-calls" if j else "floor-not-exact",
                              "get_timestamp_floor differs from floor(k*d/n) after a sequence of calls",
                              {"fn": "floor", "k": k1, "n": n1, "d": d1, "history": [list(c) for c in chain[:j]]},
                              [0, sec, ps], [rc, s_out.value, p_out.value])
                break
    # ---- the index handed over as a numpy scalar (callers compute indices with numpy): the exact result, or a refusal
    #      (TypeError / OverflowError) -- never the result for another index.  Indices above 2**53 are not exactly
    #      representable in binary64, which is where a conversion through a double shows
    import numpy as np
    nform = 0
    for (k, n, dd) in cal[:: max(1, len(cal) // (300 if res.tier == "quick" else 5000))] + \
            [(2 ** 53 + 1, 10 ** 9, 1), (1700000000 * 10 ** 9 + 1, 10 ** 9, 1), (2 ** 62 + 3, 2 ** 32 - 1, 1)]:
        if not (0 <= k < 2 ** 63 and k * dd // n < Y9999):
            continue
        sec, ps = k * dd // n, ((k * dd) % n) * PS // n
        spec = [0] + civil(sec) + [ps]
        for mk in (np.uint64, np.int64):
            nform += 1
            try:
                dt, ips = digital_rf.get_unix_time(mk(k), n, dd)
                impl = [0, dt.year, dt.month, dt.day, dt.hour, dt.minute, dt.second, ips]
            except (TypeError, OverflowError):
                res.count("numpy-index-form:refused")
                continue
            except Exception as e:  # noqa
                impl = ["exc", repr(e)]
            res.case(("unix-numpy", k, n, dd, mk.__name__))
            res.count("numpy-index-form:converted")
            if impl != spec:
                res.violation("unix-time-numpy-index", "get_unix_time given the index as a numpy integer scalar returns the time of "
                              "another index", {"fn": "unix", "k": k, "n": n, "d": dd, "index_type": mk.__name__}, spec, impl)
                break
    # ---- several threads convert at once: the result is a function of the arguments, whoever else is converting
    #      (the library fills the calendar fields through gmtime's one static struct tm per process)
    import threading
    rates = [(1000, 1), (1, 1), (200000, 3), (10 ** 9, 1)]
    jobs = []
    for t in range(8):
        n, dd = rates[t % len(rates)]
        sec = [86400 * 365 * 140 + 37, 1, 951782400 + 86399, 4102444799, 1500000000 + t, 68 * 366 * 86400, 253402300799 - t, 31][t]
        k = -(-sec * n // dd) + t
        s_, ps = k * dd // n, ((k * dd) % n) * PS // n
        jobs.append((k, n, dd, [0] + civil(s_) + [ps]))
    bad, stop = [], threading.Event()
    reps = 60000 if res.tier == "quick" else 400000

    def worker(job):
        k, n, dd, spec = job
        for _ in range(reps):
            if stop.is_set():
                return
            dt, ips = digital_rf.get_unix_time(k, n, dd)
            impl = [0, dt.year, dt.month, dt.day, dt.hour, dt.minute, dt.second, ips]
            if impl != spec:
                bad.append((k, n, dd, spec, impl))
                stop.set()
                return
    ths = [threading.Thread(target=worker, args=(j,)) for j in jobs]
    for th in ths:
        th.start()
    for th in ths:
        th.join()
    res.count("concurrent-conversions", reps * len(jobs))
    if bad:
        k, n, dd, spec, impl = bad[0]
        res.violation("unix-time-differs-under-concurrency", "get_unix_time returns another index's calendar fields while other "
                      "threads convert", {"fn": "unix-threads", "k": k, "n": n, "d": dd, "threads": [list(j[:3]) for j in jobs], "reps": reps},
                      spec, impl)
    # ---- guard the extraction: a sample evaluated by vm_compute inside Coq
    sub = [cases[i] for i in range(0, len(cases), max(1, len(cases) // 150))][:150]
    exprs = ["(let '(rc, s, p) := digital_rf_get_timestamp_floor (%d) (%d) (%d) in [rc; s; p])" % c for c in sub]
    vm = common.run_model_vm("From DRF Require Import Gen.TimeConvGen.", exprs)
    ex = common.run_model("timeconv", [[1, k, n, dd] for k, n, dd in sub])
    res.count("vm_compute_crosscheck", len(sub))
    if vm != ex:
        res.disagree("extracted OCaml vs vm_compute", None, None, None)
    res.extra["traces_validated_against_impl"] = res.evaluations
    res.assumptions += [
        "C integer semantics of the translated subset are those of Base/U64.v (uint64_t wrap, truncating signed division)",
        "libc gmtime / Python datetime agree with Base/Civil.v (compared on boundary seconds 1970-9999 each run)",
        "int(picosecond/1e6) in the Python wrapper (binary64 division) is compared on every generated case, not proved",
    ]


def replay(res, rp):
    common.use_impl()
    import digital_rf
    i = rp["input"]
    print("replay", i, "expected", rp.get("expected"), "observed-then", rp.get("observed"))
    if isinstance(i, dict) and i.get("fn") == "unix-threads":
        import threading
        jobs = [tuple(j) for j in i["threads"]]
        bad = []

        def worker(job):
            k, n, dd = job
            want = [0] + civil(k * dd // n) + [((k * dd) % n) * PS // n]
            for _ in range(max(20000, i.get("reps", 0))):
                if bad:
                    return
                dt, ips = digital_rf.get_unix_time(k, n, dd)
                got = [0, dt.year, dt.month, dt.day, dt.hour, dt.minute, dt.second, ips]
                if got != want:
                    bad.append((job, want, got))
                    return
        ths = [threading.Thread(target=worker, args=(j,)) for j in jobs]
        for th in ths:
            th.start()
        for th in ths:
            th.join()
        print("%d threads converting their own index repeatedly:" % len(jobs), jobs)
        if bad:
            print("get_unix_time%s -> %s; exact value %s" % (bad[0][0], bad[0][2], bad[0][1]))
        print("replay verdict:", "STILL VIOLATING" if bad else "no longer violating")
        return 1 if bad else 0
    if isinstance(i, dict) and i.get("fn") == "unix":
        for (k, n, dd) in i.get("history") or []:
            try:
                digital_rf.get_unix_time(k, n, dd)
            except Exception as e:  # noqa
                pass                       # (no output here: a write to stdout resets errno)
        k, n, dd = i["k"], i["n"], i["d"]
        if i.get("index_type"):
            import numpy as np
            print("index passed as", i["index_type"])
            k = getattr(np, i["index_type"])(k)
        try:
            dt, ips = digital_rf.get_unix_time(k, n, dd)
            got = [0, dt.year, dt.month, dt.day, dt.hour, dt.minute, dt.second, ips]
        except Exception as e:  # noqa
            got = ["exc", repr(e)]
        k = int(k)
        want = [0] + civil(k * dd // n) + [((k * dd) % n) * PS // n]
        print("get_unix_time(%d, %d, %d) after %d earlier calls -> %s; exact value %s" % (k, n, dd, len(i.get("history") or []), got, want))
        print("replay verdict:", "STILL VIOLATING" if got != want else "no longer violating")
        return 1 if got != want else 0
    return 0
