"""C12 -- Digital Metadata round-trip.
Tie: correspondence between Model/MdStore.v (extracted, fixed-code variant; the three pre-fix
single-site variants are evaluated alongside to name a regression) and the scratch build of /repo:
whole write histories (singles, dict-of-arrays and list-of-dicts batches, duplicates) followed by
get_bounds / read / read_latest / read_flatdict / get_fields queries.  The Spec (a Python dict of
accepted writes, big integers) is applied directly to the implementation; values are compared
deeply against the documented write rules (value conversion is glue: oracle only, not modelled)."""
import os
import random

import numpy as np

import common
from props import c13 as _c13
from props.c13 import cdiv, rel, spec_path, walk_samples

RATES = [(10 ** 8, 7), (10 ** 9, 7), (10 ** 6, 3), (200, 3), (25 * 10 ** 6, 3), (1, 1), (100, 1),
         # present-day indices with k*d >= 2^64 (a 64-bit evaluation of k*d would wrap)
         (10 ** 11, 1001), (20000000123, 1000), (12345678901, 10)]
FCS = [1, 3, 60, 3600]
SCS = [3600, 86400]
VARIANTS = {"fixed": (0, 0, 0), "arith=LongDouble": (1, 0, 0), "gsort=StrSort": (0, 1, 0),
            "ffedge=WholeFile": (0, 0, 1)}


# ----------------------------------------------------------------------------- values
def regenerate(res):
    """T22: the write front end of DigitalMetadataWriter (verbatim guard) -> coq/Gen/MdFrontGen.v"""
    common.regenerate_with(res, "mdfront2gallina", "MdFrontGen.v", "T22: DigitalMetadataWriter.write / _write front end (verbatim guard)")


def conv(v):
    """what the reader is documented to return for a written leaf value"""
    if v is None:
        return ""
    if isinstance(v, (bool, np.bool_)):
        return bool(v)
    if isinstance(v, (int, np.integer)):
        return int(v)
    if isinstance(v, (float, np.floating)):
        return float(v)
    if isinstance(v, (complex, np.complexfloating)):
        return complex(v)
    if isinstance(v, str):
        return v
    if isinstance(v, (list, tuple)):
        if len(v) and all(isinstance(x, str) for x in v):
            return list(v)
        if len(v) and _all_str(v):
            return _as_lists(v)                  # a table of strings comes back as nested lists
        return np.asarray(v)
    if isinstance(v, np.ndarray):
        if v.dtype == object and v.size and _all_str(v.tolist()):
            return v.tolist()
        return v
    raise TypeError(type(v))


def _all_str(v):
    if isinstance(v, str):
        return True
    return isinstance(v, (list, tuple)) and len(v) > 0 and all(_all_str(x) for x in v)


def _as_lists(v):
    return v if isinstance(v, str) else [_as_lists(x) for x in v]


def canon(x):
    if isinstance(x, dict):
        return {k: canon(v) for k, v in x.items()}
    if isinstance(x, np.ndarray):
        return ["nd", x.dtype.str, list(x.shape), x.tolist()]
    if isinstance(x, list):
        return ["list", [canon(v) for v in x]]
    if isinstance(x, complex):
        return ["complex", x.real, x.imag]
    return [type(x).__name__, x]


SCALARS = [lambda r: r.randrange(-5, 10 ** 6), lambda r: np.int32(r.randrange(0, 1000)), lambda r: r.random(),
           lambda r: np.float32(r.randrange(0, 64) / 4.0), lambda r: bool(r.randrange(2)),
           lambda r: r.choice(["abc", "héllo", "", "with space", "x" * 40]), lambda r: None,
           lambda r: complex(r.randrange(5), r.randrange(5)), lambda r: np.uint64(2 ** 63 + r.randrange(100)),
           lambda r: np.int16(-r.randrange(100))]


def gen_leaf(r, N, dict_form):
    """returns (value passed to write, [expected value for sample i])"""
    kind = r.randrange(10 if dict_form else 6)
    if kind <= 2:                                    # scalar, same for all samples
        v = r.choice(SCALARS)(r)
        return v, [conv(v)] * N
    if kind == 3:                                    # 1-D numeric array of a length different from N
        L = r.choice([x for x in (1, 2, 3, 4, 7) if x != N])
        v = np.arange(L, dtype=r.choice([np.int16, np.int64, np.float32, np.float64])) + r.randrange(10)
        if r.random() < 0.3:
            v = v.tolist()
        return v, [conv(v)] * N
    if kind == 4:                                    # list of strings of a length different from N
        L = r.choice([x for x in (1, 2, 3, 5) if x != N])
        v = [r.choice(["a", "bc", "déf", ""]) for _ in range(L)]
        k2 = r.random()
        if k2 < 0.25:                                # a table of strings (rows x columns), stored whole
            ncol = r.choice([1, 2, 3])
            v = [[r.choice(["a", "bc", "déf", "", "row"]) for _ in range(ncol)] for _ in range(L)]
        elif k2 < 0.35:                              # three dimensions, as an object array
            v = np.array([[[r.choice(["p", "qé", ""])] for _ in range(2)] for _ in range(L)], dtype=object)
        return v, [conv(v)] * N
    if kind == 5:                                    # 2-D array whose first dimension differs from N
        L = r.choice([x for x in (2, 3, 4) if x != N])
        v = np.arange(L * 3, dtype=np.float64).reshape(L, 3) + r.randrange(5)
        return v, [conv(v)] * N
    # ---- dict form only: length == N  =>  one element per sample
    if kind == 6:
        v = np.arange(N, dtype=r.choice([np.int32, np.int64, np.float64])) * 3 + r.randrange(100)
        if r.random() < 0.4:
            v = v.tolist()
        return v, [conv(x) for x in v]
    if kind == 7:
        v = [r.choice(["p", "qr", "stü", ""]) for _ in range(N)]
        if r.random() < 0.5:
            v = tuple(v)
        return v, [conv(x) for x in v]
    if kind == 8:
        v = np.arange(N * 3, dtype=np.int64).reshape(N, 3) + r.randrange(50)
        return v, [conv(v[i]) for i in range(N)]
    v = [r.choice(SCALARS[:5])(r) for _ in range(N)]   # list of python/numpy scalars, one per sample
    v = [0 if x is None else x for x in v]
    if len({type(x) for x in v}) > 1:
        v = [float(x) for x in v]
    return v, [conv(x) for x in v]


def build_data(form, samples, tags, vseed):
    """deterministic (replayable) data for one write call -> (samples arg, data arg, {tag: expected})"""
    r = random.Random(vseed)
    N = len(samples)
    if form == "single":
        leaf_x, ex = gen_leaf(r, 1, False)
        leaf_a, ea = gen_leaf(r, 1, False)
        leaf_c, ec = gen_leaf(r, 1, False)
        data = {"tag": tags[0], "x": leaf_x, "nest": {"a": leaf_a, "b": {"c": leaf_c}}}
        exp = {tags[0]: {"tag": tags[0], "x": ex[0], "nest": {"a": ea[0], "b": {"c": ec[0]}}}}
        if r.random() < 0.3:
            leaf_o, eo = gen_leaf(r, 1, False)
            data["opt"] = leaf_o
            exp[tags[0]]["opt"] = eo[0]
        if r.random() < 0.5:
            # a field of its own in about every other call: a refused re-write of an index usually names other
            # fields than the stored sample has, and must leave none of them behind
            # (the writer visits the fields in the order of the dict: half of the time the new field comes first)
            if r.random() < 0.5:
                data = dict([("aa_extra", tags[0] * 3)] + list(data.items()))
            else:
                data["aa_extra"] = tags[0] * 3
            exp[tags[0]]["aa_extra"] = tags[0] * 3
        return samples[0], data, exp
    if form == "dict":
        leaf_x, ex = gen_leaf(r, N, True)
        leaf_a, ea = gen_leaf(r, N, True)
        leaf_c, ec = gen_leaf(r, N, True)
        tagv = list(tags) if r.random() < 0.5 else np.array(tags, dtype=np.int64)
        data = {"tag": tagv, "x": leaf_x, "nest": {"a": leaf_a, "b": {"c": leaf_c}}}
        exp = {t: {"tag": t, "x": ex[i], "nest": {"a": ea[i], "b": {"c": ec[i]}}} for i, t in enumerate(tags)}
        sarg = list(samples) if r.random() < 0.5 else np.array(samples, dtype=np.uint64)
        return sarg, data, exp
    data, exp = [], {}
    for i, t in enumerate(tags):
        leaf_x, ex = gen_leaf(r, 1, False)
        leaf_a, ea = gen_leaf(r, 1, False)
        leaf_c, ec = gen_leaf(r, 1, False)
        dd = {"tag": t, "x": leaf_x, "nest": {"a": leaf_a, "b": {"c": leaf_c}}}
        exp[t] = {"tag": t, "x": ex[0], "nest": {"a": ea[0], "b": {"c": ec[0]}}}
        if r.random() < 0.3:
            leaf_o, eo = gen_leaf(r, 1, False)
            dd["opt"] = leaf_o
            exp[t]["opt"] = eo[0]
        if r.random() < 0.5:
            if r.random() < 0.5:
                dd = dict([("aa_extra", t * 3)] + list(dd.items()))
            else:
                dd["aa_extra"] = t * 3
            exp[t]["aa_extra"] = t * 3
        data.append(dd)
    return list(samples), data, exp


# ----------------------------------------------------------------------------- histories
def gen_channel(rng, n, d, fc, sc, kind):
    """ascending indices around file boundaries / digit changes, cut into write calls"""
    special = []
    if kind == "day":
        j0 = 1500000000 // fc + rng.randrange(0, 86400 // fc)
    elif kind == "epoch":
        j0 = 0
        special = [5, 9, 10, 11, 99, 100, 101, 999, 1000, 1001, 9999, 10000]
    elif kind == "pow10":
        m = next(m for m in range(9, 30) if 10 ** m * d // n >= 2 * 10 ** 9)
        if 10 ** m >= 2 ** 63:
            m = next(m for m in range(9, 30) if 10 ** m * d // n >= 10 ** 8)
        P = 10 ** m
        j0 = max(0, (P * d // n) // fc - 1)
        special = [P - 2, P - 1, P, P + 1, P + 9]
    else:                                            # subdirectory edge
        j0 = (cdiv(1500000000, sc) * sc) // fc - 2
    js = sorted({j0, j0 + 1, j0 + 2, j0 + 3, j0 + 5, j0 + rng.randrange(6, 40)})
    ks = set()
    for j in js:
        lo, hi = cdiv(j * fc * n, d), cdiv((j + 1) * fc * n, d) - 1
        if hi < lo:
            continue
        mid = (lo + hi) // 2
        pts = [lo, lo + 1, hi - 1, hi, mid, mid + 1, mid + 3, mid + 5, lo + rng.randrange(0, hi - lo + 1)]
        pts = [p for p in pts if lo <= p <= hi]
        rng.shuffle(pts)
        ks.update(pts[:rng.choice([1, 2, 4, 6, 9])])
        ks.update([lo, hi] if rng.random() < 0.6 else [])
        ks.update(s for s in special if lo <= s <= hi)
    ks = sorted(ks)
    calls, tag = [], 1
    held = None
    i = 0
    vs = rng.randrange(10 ** 9)
    while i < len(ks):
        if held is None and rng.random() < 0.12 and i + 2 < len(ks):
            held = ks[i]                            # written later, in a batch that then hits a duplicate
            i += 1
            continue
        m = rng.choice([1, 1, 2, 3, 4, 6])
        chunk = ks[i:i + m]
        i += len(chunk)
        form = "single" if len(chunk) == 1 and rng.random() < 0.5 else rng.choice(["dict", "list"])
        calls.append({"form": form, "samples": chunk, "tags": list(range(tag, tag + len(chunk))), "vseed": vs + tag})
        tag += len(chunk)
        if held is not None and chunk[0] > held:
            later = [k for k in ks[i:i + 1]]
            batch = [held, chunk[0]] + later        # new, duplicate (refused), never reached
            calls.append({"form": rng.choice(["dict", "list"]), "samples": batch,
                          "tags": list(range(tag, tag + len(batch))), "vseed": vs + tag, "dup": chunk[0]})
            tag += len(batch)
            held = None
        elif rng.random() < 0.15:
            dupk = rng.choice(chunk)                # plain duplicate attempt
            calls.append({"form": rng.choice(["single", "dict", "list"]), "samples": [dupk], "tags": [tag],
                          "vseed": vs + tag, "dup": dupk})
            tag += 1
    return calls


def spec_of(calls):
    spec, status = {}, []
    for c in calls:
        ok = 1
        for k, t in zip(c["samples"], c["tags"]):
            if k in spec:
                ok = 0
                break
            spec[k] = t
        status.append(ok)
    return spec, status


def gen_queries(rng, n, d, fc, spec, nq):
    keys = sorted(spec)
    pts = set()
    for k in keys:
        pts.update([k - 1, k, k + 1])
        T = spec_path(n, d, fc, fc, k)[1]
        pts.update([cdiv(T * n, d) - 1, cdiv(T * n, d), cdiv((T + fc) * n, d) - 1, cdiv((T + fc) * n, d)])
    if keys:
        pts.update([keys[0] - 2, keys[-1] + 2, keys[-1] + 5 * fc * n // d + 3])
    else:
        pts.update([0, 5, 40 * fc * n // d])
    pts = sorted(p for p in pts if p >= 0)
    qs = [(0, 0, 0, None), (3, 0, 0, None), (4, 0, 0, None), (3, 0, 0, "tag"), (3, 0, 0, ["tag", "x"])]
    for _ in range(nq):
        a = rng.choice(pts)
        kind = rng.choice([1, 1, 1, 2, 2, 2, 5, 6])
        if kind in (5, 6):
            qs.append((kind, a, 0, rng.choice([None, None, "tag"])))
            continue
        later = [p for p in pts if p >= a]
        b = rng.choice([a, rng.choice(later), rng.choice(later), rng.choice(later[:4]), rng.choice(pts)])
        qs.append((kind, a, b, rng.choice([None, None, None, "tag", ["tag", "x"], ["nest", "tag"], ["tag", "opt"]])))
    if keys:
        qs.append((1, pts[0], pts[-1], None))
        qs.append((2, pts[0], pts[-1], None))
    return qs


def spec_answer(spec, q, lacks_opt=None, filekey=None):
    """lacks_opt: indices whose sample has no field 'opt'; filekey: index -> file (for the forward-fill pass,
    which converts every sample of the fill file at or before start before picking the last)"""
    kind, a, b, cols = q
    keys = sorted(spec)
    if lacks_opt is not None and isinstance(cols, list) and "opt" in cols and kind in (1, 2) and a <= b and keys:
        loaded = [k for k in keys if a <= k <= b] if kind == 1 else [k for k in keys if a < k <= b]
        before = [k for k in keys if k <= a]
        if kind == 2 and before:
            loaded += [k for k in before if filekey(k) == filekey(before[-1])]
        if any(k in lacks_opt for k in loaded):
            return [3, 0]
    if kind == 0:
        return [0, 1, keys[0], keys[-1]] if keys else [2, 0]
    if kind in (3, 4):
        return [0, 1, keys[-1], spec[keys[-1]]] if keys else [2, 0]
    if kind in (5, 6):
        b = a
    if b < a:
        return [1, 0]
    if kind in (1, 5):
        sel = [k for k in keys if a <= k <= b]
    else:
        if not keys:
            return [2, 0]
        before = [k for k in keys if k <= a]
        sel = before[-1:] + [k for k in keys if a < k <= b]
    return [0, len(sel)] + [x for k in sel for x in (k, spec[k])]


def impl_answer(rd, q, expv, problems):
    kind, a, b, cols = q
    try:
        if kind == 0:
            lo, hi = rd.get_bounds()
            return [0, 1, int(lo), int(hi)]
        if kind == 1:
            r = rd.read(a, b, columns=cols)
        elif kind == 2:
            r = rd.read(a, b, columns=cols, method=("pad" if (a + b) % 2 else "ffill"))
        elif kind == 3:
            r = rd.read_latest(columns=cols)
        elif kind == 4:
            r = rd.read(columns=cols)
        elif kind == 5:
            r = rd.read(a, columns=cols)
        else:
            r = rd.read(a, columns=cols, method="ffill")
    except KeyError:
        return [3, 0]
    except ValueError:
        return [1, 0]
    except IOError:
        return [2, 0]
    except Exception as e:  # noqa
        return ["exc", repr(e)[:200]]
    out = [0, len(r)]
    for k, v in r.items():
        try:
            tag = v if cols == "tag" else v["tag"]
            e = expv.get(tag)
            if e is not None:
                if cols is None:
                    want = canon(e)
                elif isinstance(cols, str):
                    want = canon(e[cols])
                else:
                    want = canon({c: e[c] for c in cols})
                got = canon(v)
                if got != want:
                    problems.append({"index": int(k), "columns": cols, "expected": repr(want)[:300], "observed": repr(got)[:300]})
        except Exception as ex:  # noqa
            tag = -1
            problems.append({"index": int(k), "columns": cols, "error": repr(ex)[:200]})
        out += [int(k), int(tag)]
    # what is returned belongs to the caller: it may take the result apart; no later read may show that
    try:
        for v in list(r.values()):
            if isinstance(v, dict):
                v.clear()
            elif isinstance(v, np.ndarray) and v.size and v.flags.writeable and v.dtype.kind in "iufc":
                v[...] = 0
            elif isinstance(v, list):
                del v[:]
        r.clear()
    except Exception:  # noqa
        pass
    return out


def classify(q, exp, got, spec, n, d, fc, sc):
    kind, a = q[0], q[1]
    keys = sorted(spec)
    if kind == 0:
        if got[0] == 0 and exp[0] == 0 and keys:
            byfile = {}
            for k in keys:
                byfile.setdefault(spec_path(n, d, fc, sc, k), []).append(k)
            first, last = byfile[min(byfile)], byfile[max(byfile)]
            if got[2:] == [int(sorted(map(str, first))[0]), int(sorted(map(str, last))[-1])]:
                return "bounds-string-sort", "get_bounds orders the group names of a file as strings"
        return "bounds-wrong", "get_bounds is not (smallest, largest) index written"
    if kind in (3, 4):
        return "latest-wrong", "read_latest()/read() is not the sample with the highest index"
    if exp[0] != got[0]:
        return "read-status-wrong", "read raised / did not raise as the statement requires"
    if kind in (2, 6):
        gk = got[2::2]
        b = q[2] if kind == 2 else a
        if gk and gk[0] > a and gk[0] in spec and (gk[0] > b or (len(gk) >= 2 and gk[0] > gk[1])):
            return "ffill-returns-last-of-file", ("forward-fill read returns the last sample of the file although it "
                                                   "is later than the start of the range")
        return "ffill-wrong", "forward-fill read is not (latest sample at or before start) + samples in (start, end]"
    ek, gk = exp[2::2], got[2::2]
    if set(ek) - set(gk):
        return "roundtrip-missing-sample", "a written sample inside the inclusive range is not returned"
    if set(gk) - set(ek):
        return "read-returns-unwritten-or-out-of-range", "read returns an index not written or outside the range"
    if gk != ek:
        return "read-not-ascending", "read does not return ascending index order"
    return "read-wrong-value-for-index", "read returns another sample's value for an index"


def run_channel(res, n, d, fc, sc, calls, nq, stats, label):
    import digital_rf
    rng = res.rng
    top = common.scratch_dir()
    nf = common.number_form
    forms = [nf(rng, sc), nf(rng, fc), nf(rng, n), nf(rng, d)]
    arg_types = [type(x).__name__ for x in forms]      # how (subdir cadence, file cadence, numerator, denominator) are passed
    _c13.set_prefix(rng.choice(_c13.PREFIXES))
    w = digital_rf.DigitalMetadataWriter(common.path_form(top), forms[0], forms[1], forms[2], forms[3], _c13.PREFIX)
    spec, sstat = spec_of(calls)
    cfgi = {"n": n, "d": d, "fc": fc, "sc": sc, "calls": calls, "arg_types": arg_types, "prefix": _c13.PREFIX}
    expv, istat = {}, []
    refused_tags = set()
    first_keys = None
    rd_old = [None]
    for c, ok_spec in zip(calls, sstat):
        sarg, data, ev = build_data(c["form"], c["samples"], c["tags"], c["vseed"])
        if first_keys is None:
            first_keys = sorted(data.keys() if isinstance(data, dict) else data[0].keys())
        try:
            w.write(sarg, data)
            ok = 1
        except IOError as e:
            ok = 0 if "already in data" in str(e) else ["exc", repr(e)[:200]]
        except Exception as e:  # noqa
            ok = ["exc", repr(e)[:200]]
        istat.append(ok)
        # a reader that lives through the recording: created after the first call, it reads (everything so far)
        # after every later call; half of the final queries go to it.  "any read" includes reads by a reader
        # that has answered other reads before
        if rd_old[0] is None:
            try:
                rd_old[0] = digital_rf.DigitalMetadataReader(common.path_form(top))
            except Exception:  # noqa  (nothing written yet)
                pass
        else:
            try:
                b0 = rd_old[0].get_bounds()
                rd_old[0].read(b0[0], b0[1])
                res.count("long-lived-reader:intermediate-read")
            except Exception:  # noqa  (judged by the final queries)
                pass
        done = {}
        for k, t in zip(c["samples"], c["tags"]):
            if spec.get(k) == t:
                done[t] = ev[t]
            else:
                refused_tags.add(t)
        expv.update(done)
        res.case(("write", n, d, fc, sc, tuple(c["samples"]), c["form"]), nontrivial=True)
        if any(k * d >= 2 ** 64 for k in c["samples"]):
            res.count("write:k*d>=2^64")
        res.count("write:%s:%s" % (c["form"], "duplicate-inside" if not ok_spec else
                                   ("straddles-files" if len({spec_path(n, d, fc, sc, k) for k in c["samples"]}) > 1
                                    else "one-file")))
        if ok != ok_spec:
            if ok_spec == 0 and ok == 1:
                res.violation("duplicate-not-refused", "a write containing an existing index was accepted",
                              dict(cfgi, query=["write", c["samples"]]), "IOError", "accepted")
            else:
                res.violation("write-refused-without-duplicate", "a write of new indices raised",
                              dict(cfgi, query=["write", c["samples"]]), "accepted", ok)
    # ---- the directory is the Spec: every index once, in the exact file
    where, files = walk_samples(top)
    exp_where = {k: [rel(*spec_path(n, d, fc, sc, k))] for k in spec}
    if where != exp_where:
        bad = [k for k in set(where) | set(exp_where) if where.get(k) != exp_where.get(k)]
        res.violation("sample-in-wrong-file" if set(where) == set(exp_where) else "stored-set-differs",
                      "on-disk groups differ from the accepted writes / exact placement",
                      dict(cfgi, query=["tree", bad[:5]]), {k: exp_where.get(k) for k in bad[:5]},
                      {k: where.get(k) for k in bad[:5]})
    rd = digital_rf.DigitalMetadataReader(common.path_form(top))
    lacks_opt = {k for k, t in spec.items() if "opt" not in expv[t]}
    # every file older than the cadence and writable: only 'the file opens' keeps the reader from deleting it
    import time
    old_t = time.time() - 2 * fc - 100
    for f in files:
        os.utime(os.path.join(top, f), (old_t, old_t))
    qs = gen_queries(rng, n, d, fc, spec, nq)
    # ---- model, all variants
    enc_calls = [len(calls)]
    for c in calls:
        enc_calls += [len(c["samples"])] + [x for k, t in zip(c["samples"], c["tags"]) for x in (k, t)]
    enc_q = [len(qs) + 1] + [x for q in qs for x in (q[0], q[1], q[2])] + [7, 0, 0]
    model = {}
    for name, v in VARIANTS.items():
        out = common.run_model("metadata", [[10] + list(v) + [n, d, fc, sc] + enc_calls + enc_q])[0]
        nc = out[0]
        mstat, pos, answers = out[1:1 + nc], 1 + nc, []
        while pos < len(out):
            ln = out[pos + 1]
            width = 4 if len(answers) == len(qs) else 2
            answers.append(out[pos:pos + 2 + width * ln])
            pos += 2 + width * ln
        model[name] = (mstat, answers)
    for name in VARIANTS:
        stats.setdefault(name, [0, 0])
    mstat, manswers = model["fixed"]
    if mstat != istat:
        res.disagree("model vs implementation: accepted/refused status of the write calls",
                     dict(cfgi, query=["write-status"]), mstat, istat)
    # model directory dump vs disk
    dump = manswers[len(qs)]
    mwhere = {}
    subs = sorted({dump[2 + 4 * i] for i in range(dump[1])})
    parts = dict(zip(subs, common.run_model("metadata", [[3, s] for s in subs]))) if subs else {}
    for i in range(dump[1]):
        s, t, k, _tag = dump[2 + 4 * i: 6 + 4 * i]
        mwhere.setdefault(k, []).append("%04d-%02d-%02dT%02d-%02d-%02d/%s@%d.h5" % (*parts[s], _c13.PREFIX, t))
    if mwhere != where:
        res.disagree("model vs implementation: directory contents (index -> file)", dict(cfgi, query=["tree"]),
                     sorted(mwhere.items())[:6], sorted(where.items())[:6])
    # ---- queries
    for qi, q in enumerate(qs):
        problems = []
        use_old = rd_old[0] is not None and qi % 2 == 1
        got = impl_answer(rd_old[0] if use_old else rd, q, expv, problems)
        exp = spec_answer(spec, q, lacks_opt, lambda k: spec_path(n, d, fc, sc, k))
        inp = dict(cfgi, query=[q[0], q[1], q[2], q[3]], reader="created after the first write call, read after every call" if use_old else "fresh")
        kind = q[0]
        res.case(("q", n, d, fc, sc, label, q[0], q[1], q[2], repr(q[3]), len(calls)), nontrivial=True)
        res.count("query:%s%s" % ({0: "get_bounds", 1: "read", 2: "read-ffill", 3: "read_latest", 4: "read()",
                                    5: "read(a)", 6: "read(a,ffill)"}[kind],
                                   "" if q[3] is None else (":column" if isinstance(q[3], str) else ":columns")))
        if kind in (1, 2) and q[1] not in spec and any(q[1] < k for k in spec) and any(k < q[1] for k in spec):
            res.count("query:start-between-samples")
        if exp == [3, 0] or got == [3, 0]:
            res.count("query:columns-naming-a-field-some-samples-lack")
            if got != exp:
                res.violation("missing-column-not-reported", "a read naming a field that a sample of the range lacks "
                              "neither raised KeyError nor returned every sample", inp, exp, got)
            continue                                  # field names are not in the model
        if got != exp:
            sig, title = classify(q, exp, got, spec, n, d, fc, sc)
            if got and got[0] == 0 and exp[0] == 0 and any(t in refused_tags for t in got[3::2]):
                sig, title = "duplicate-changed-sample", "a refused duplicate write changed the stored sample"
            res.violation(sig, title, inp, exp, got)
        for pb in problems[:1]:
            res.violation("value-mismatch", "a returned field value differs from the written one", inp,
                          pb.get("expected"), pb.get("observed", pb.get("error")))
        for name in VARIANTS:
            stats[name][1] += 1
            stats[name][0] += (model[name][1][qi] == got)
        if manswers[qi] != got:
            res.disagree("model (fixed-code variant) vs implementation: query result", inp, manswers[qi], got)
    # ---- flat dictionary and field list (glue, oracle only)
    keys = sorted(spec)
    if keys:
        fd = rd.read_flatdict(keys[0], keys[-1], columns=["tag"])
        res.case(("flatdict", n, d, fc, sc, label))
        res.count("query:read_flatdict")
        if [int(x) for x in fd["index"]] != keys or [int(x) for x in fd["tag"]] != [spec[k] for k in keys]:
            res.violation("flatdict-wrong", "read_flatdict index/tag arrays differ from the written samples",
                          dict(cfgi, query=["flatdict"]), [keys, [spec[k] for k in keys]],
                          [[int(x) for x in fd["index"]], [int(x) for x in fd["tag"]]])
        res.count("query:get_fields")
        if rd.get_fields() != first_keys:
            res.violation("fields-wrong", "get_fields() is not the sorted field names of the first write",
                          dict(cfgi, query=["fields"]), first_keys, rd.get_fields())
    return len(files), len(spec)


def flatdict_leg(res):
    """read_flatdict over samples with scalar fields of which some are present in some samples only (earlier but not
    later ones, later but not earlier ones, nested ones): every column has one entry per sample, the sample's own value
    where it has the field and NaN where it has not"""
    import digital_rf
    rng = res.rng
    for trial in range(20 if res.tier == "quick" else 200):
        top = common.scratch_dir()
        w = digital_rf.DigitalMetadataWriter(top, 3600, 60, 100, 1, "md")
        k0 = 150000000000 + rng.randrange(0, 10 ** 6)
        nsamp = rng.randrange(2, 9)
        ks = sorted(rng.sample(range(k0, k0 + 20000), nsamp))
        rows = []
        for i, k in enumerate(ks):
            row = {"tag": i}
            if rng.random() < 0.6:
                row["gain"] = float(i) + 0.5
            if rng.random() < 0.4:
                row["nest"] = {"a": i * 10}
            rows.append(row)
        if rng.random() < 0.5:
            w.write(ks, rows)
        else:
            for k, row in zip(ks, rows):
                w.write(k, row)
        rd = digital_rf.DigitalMetadataReader(top)
        fd = rd.read_flatdict(ks[0], ks[-1])
        res.case(("flatdict-leg", tuple(ks), tuple(sorted(r) != ["tag"] for r in rows)), nontrivial=True)
        res.count("flatdict-leg")
        want = {"index": list(ks), "tag": [r["tag"] for r in rows]}
        if any("gain" in r for r in rows):
            want["gain"] = [r.get("gain", float("nan")) for r in rows]
        if any("nest" in r for r in rows):
            want["nest/a"] = [r["nest"]["a"] if "nest" in r else float("nan") for r in rows]

        def same(a, b):
            return len(a) == len(b) and all((x != x and y != y) or x == y for x, y in zip([float(v) for v in a], [float(v) for v in b]))
        ok = sorted(fd) == sorted(want) and all(same(fd[c], want[c]) for c in want)
        if not ok:
            res.violation("flatdict-columns-misaligned", "read_flatdict: a column does not have one entry per sample, or a value sits "
                          "at another sample's position", {"flatdict_leg": {"indices": ks, "rows": rows}},
                          {c: [None if v != v else v for v in want[c]] for c in want},
                          {c: [None if (isinstance(v, float) and v != v) else (v.item() if hasattr(v, "item") else v) for v in list(fd[c])] for c in fd})


def raise_stack_limit():
    """the extracted model recurses over candidate-file lists (one element per cadence slot, 86400 per
    day at 1 s cadence); child processes inherit the limit"""
    import resource
    soft, hard = resource.getrlimit(resource.RLIMIT_STACK)
    try:
        resource.setrlimit(resource.RLIMIT_STACK, (hard, hard))
    except (ValueError, OSError):
        pass


def run(res):
    common.use_impl()
    raise_stack_limit()
    rng = res.rng
    quick = res.tier == "quick"
    res.rule = ("write histories on channels over rates {10^8/7,10^9/7,10^6/3,200/3,25e6/3,1,100,10^11/1001,"
                "20000000123/1000,12345678901/10 (k*d >= 2^64)} x file cadences "
                "{1,3,60,3600} x subdir cadences {3600,86400}: ascending indices at file boundaries "
                "ceil(j*c*n/d)+{-1,0,1}, inside files, at decimal-length changes (9/10, 99/100, 10^m-1/10^m), cut "
                "into single / dict-of-arrays / list-of-dicts calls (batches straddling files, duplicates, a batch "
                "that hits a duplicate midway), values over scalars/strings/1-D/2-D arrays/nested dicts with length "
                "== N or != N; queries get_bounds, read(a,b) plain and pad/ffill with a,b on, between and around "
                "samples and file boundaries, a > b, columns None/str/list, read(), read(a), read_latest, "
                "read_flatdict, get_fields; non-trivial = distinct (channel, call) or (channel, query)")
    stats = {}
    kinds = ["day", "epoch", "pow10", "subdir"]
    nq = 40 if quick else 100
    reps = 1 if quick else 2
    ci = 0
    tot_files = tot_samples = 0
    for rep in range(reps):
        for (n, d) in RATES:
            for fc in FCS:
                sc = SCS[(ci + rep) % 2] if fc > 1 else 3600   # keeps the candidate lists of a query short
                ci += 1
                for kind in (["day", kinds[1 + ci % 3]] if quick else kinds):
                    calls = gen_channel(rng, n, d, fc, sc, kind)
                    if not calls:
                        continue
                    f, s = run_channel(res, n, d, fc, sc, calls, nq, stats, "%s-%d" % (kind, rep))
                    tot_files += f
                    tot_samples += s
                    res.count("channels:" + kind)
                    if len(res.samples) < 2:
                        res.sample({"config": [n, d, fc, sc], "kind": kind,
                                    "calls": [[c["form"], c["samples"]] for c in calls[:4]]})
    # empty channel: every query must raise IOError / return nothing
    run_channel(res, 200, 3, 60, 3600, [], 10, stats, "empty")
    res.count("channels:empty")
    # the two hand-probe witnesses of DESIGN section 7, as a fixed corpus
    T = 1500000000
    run_channel(res, 1, 1, 3600, 3600, [{"form": "dict", "samples": [T + 1, T + 3, T + 5], "tags": [1, 2, 3], "vseed": 1}],
                30, stats, "corpus-ffill")
    run_channel(res, 1, 1, 3600, 3600, [{"form": "list", "samples": [5, 9, 10, 11], "tags": [1, 2, 3, 4], "vseed": 2}],
                30, stats, "corpus-bounds")
    res.count("channels:corpus", 2)
    res.extra["files_written"] = tot_files
    res.extra["samples_written"] = tot_samples
    res.extra["variant_agreement"] = {k: "%d/%d" % tuple(v) for k, v in stats.items()}
    full = [k for k, v in stats.items() if v[0] == v[1]]
    res.extra["variant_selected"] = "fixed" if "fixed" in full else (full[0] if full else "none")
    for k, v in stats.items():
        if k != "fixed" and v[0] == v[1] and "fixed" not in full:
            res.notes.append("the implementation agrees with the pre-fix variant %s on every query: the corresponding "
                             "C12_*_variant_refuted theorem applies" % k)
    # ---- guard the extraction by vm_compute on small histories
    vm = common.run_model_vm(
        "From DRF Require Import Model.MdPlace Model.MdStore Extract.MetadataRunner.",
        ["run 10 [0;0;0; 1;1;3600;3600; 2; 3;%d;1;%d;2;%d;3; 1;%d;9; 4; 0;0;0; 2;%d;%d; 3;0;0; 1;%d;%d]" %
         (T + 1, T + 3, T + 5, T + 3, T + 2, T + 4, T + 4, T + 2),
         "run 10 [0;1;1; 1;1;3600;3600; 1; 4;5;1;9;2;10;3;11;4; 3; 0;0;0; 2;6;9; 3;0;0]"])
    ex = common.run_model("metadata", [
        [10, 0, 0, 0, 1, 1, 3600, 3600, 2, 3, T + 1, 1, T + 3, 2, T + 5, 3, 1, T + 3, 9, 4, 0, 0, 0, 2, T + 2, T + 4, 3, 0, 0,
         1, T + 4, T + 2],
        [10, 0, 1, 1, 1, 1, 3600, 3600, 1, 4, 5, 1, 9, 2, 10, 3, 11, 4, 3, 0, 0, 0, 2, 6, 9, 3, 0, 0]])
    res.count("vm_compute_crosscheck", len(vm))
    if vm != ex:
        res.disagree("extracted OCaml vs vm_compute", None, vm, ex)
    res.extra["traces_validated_against_impl"] = res.evaluations
    flatdict_leg(res)
    res.assumptions += [
        "sample indices 0 <= k < 2^63 (np.uint64 / np.int64 conversions of indices are not modelled); no bound on k*d "
        "(Python integers in the code, Z in the model; rates with k*d >= 2^64 are generated on every run)",
        "values are opaque in the model; h5py/numpy value conversion, column selection, read_flatdict and get_fields "
        "are checked against the documented rules on every generated case, not proved",
        "an HDF5 file is modelled as the set of its groups; files are created with their first group (no empty or "
        "unreadable files: those are C20's concern)",
        "write calls are issued one at a time by one writer; indices inside a call ascend",
    ]
    res.trusted.append("h5py directory walk (harness) as the observer of on-disk placement")


def replay(res, rp):
    common.use_impl()
    import digital_rf
    i = rp["input"]
    if "flatdict_leg" in i:
        ks, rows = i["flatdict_leg"]["indices"], i["flatdict_leg"]["rows"]
        top = common.scratch_dir()
        digital_rf.DigitalMetadataWriter(top, 3600, 60, 100, 1, "md").write(ks, rows)
        fd = digital_rf.DigitalMetadataReader(top).read_flatdict(ks[0], ks[-1])
        bad = False
        for c in sorted(fd):
            print(" column %-8s %s" % (c, list(fd[c])))
            bad |= len(fd[c]) != len(ks)
        for j, r in enumerate(rows):
            for c, v in (("gain", r.get("gain")), ("nest/a", (r.get("nest") or {}).get("a"))):
                if c in fd and len(fd[c]) == len(ks):
                    x = float(fd[c][j])
                    bad |= (x == x) != (v is not None) or (v is not None and x != float(v))
        print("REPRODUCED" if bad else "not reproduced")
        return 1 if bad else 0
    n, d, fc, sc, calls = i["n"], i["d"], i["fc"], i["sc"], i["calls"]
    top = common.scratch_dir()
    at = i.get("arg_types") or ["int"] * 4
    F = common.number_from_form
    print("subdir cadence, file cadence, numerator, denominator passed as", at)
    _c13.set_prefix(i.get("prefix") or "metadata")
    print("file name prefix", repr(_c13.PREFIX))
    w = digital_rf.DigitalMetadataWriter(top, F(at[0], sc), F(at[1], fc), F(at[2], n), F(at[3], d), _c13.PREFIX)
    spec, sstat = spec_of(calls)
    expv = {}
    rd_old = None
    long_lived = str(i.get("reader", "")).startswith("created")
    print("config n=%d d=%d file_cadence=%d subdir_cadence=%d" % (n, d, fc, sc))
    bad = False
    for c, ok_spec in zip(calls, sstat):
        sarg, data, ev = build_data(c["form"], c["samples"], c["tags"], c["vseed"])
        try:
            w.write(sarg, data)
            ok = 1
        except IOError:
            ok = 0
        print(" write(%s) form=%s -> %s (required %s)" % (c["samples"], c["form"], "ok" if ok else "IOError",
                                                          "ok" if ok_spec else "IOError"))
        bad |= (ok != ok_spec)
        expv.update({t: ev[t] for k, t in zip(c["samples"], c["tags"]) if spec.get(k) == t})
        if long_lived:
            try:
                if rd_old is None:
                    rd_old = digital_rf.DigitalMetadataReader(top)
                else:
                    b0 = rd_old.get_bounds()
                    rd_old.read(b0[0], b0[1])
            except Exception:  # noqa
                pass
    rd = digital_rf.DigitalMetadataReader(top)
    if long_lived and rd_old is not None:
        rd = rd_old
        print(" (queries go to a reader created after the first write call that read after every call)")
    q = i.get("query")
    if q and isinstance(q[0], int):
        q = (q[0], q[1], q[2], q[3])
        problems = []
        lacks_opt = {k for k, t in spec.items() if "opt" not in expv[t]}
        import time
        for root, _d, fs in os.walk(top):
            for f in fs:
                os.utime(os.path.join(root, f), (time.time() - 2 * fc - 100,) * 2)
        got = impl_answer(rd, q, expv, problems)
        exp = spec_answer(spec, q, lacks_opt, lambda k: spec_path(n, d, fc, sc, k))
        print(" query kind=%d a=%d b=%d columns=%r" % q)
        print("  required [status, count, (index, tag)...]:", exp)
        print("  observed                               :", got)
        for pb in problems:
            print("  value problem:", pb)
        bad |= (got != exp) or bool(problems)
    elif q and q[0] == "tree":
        where, _ = walk_samples(top)
        for k in q[1]:
            print("  index", k, "stored in", where.get(k), "required", rel(*spec_path(n, d, fc, sc, k)) if k in spec else None)
            bad |= where.get(k) != ([rel(*spec_path(n, d, fc, sc, k))] if k in spec else None)
    print("REPRODUCED" if bad else "not reproduced")
    return 1 if bad else 0
