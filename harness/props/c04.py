"""C04 -- deterministic time-partitioned file layout.
Tie: T1 regenerates digital_rf_get_subdir_file (and its callees) from the C text; the extracted
term, the compiled function (through a C shim built against the current header) and a big-integer
oracle are compared on boundary families; then real recordings are inspected file by file."""
import ctypes
import datetime
import glob
import os
import time

import common
import c2gallina
from props import c03

Y9999 = 253402300800
FUNCS = ["digital_rf_get_timestamp_floor", "digital_rf_get_sample_ceil", "digital_rf_get_subdir_file"]


def regenerate(res):
    c03.regenerate(res)
    try:
        text = c2gallina.translate_functions(
            os.path.join(common.REPO, "c/lib/rf_write_hdf5.c"), FUNCS, repo=common.REPO,
            extra_imports="From DRF Require Import Model.TimeParts Gen.TimeConvGen.\n\n",
            emit=["digital_rf_get_subdir_file"])
    except c2gallina.Unsupported as e:
        res.broken.append({"what": "T1 translator: digital_rf_get_subdir_file left the supported subset", "log": str(e)})
        return
    common.write_if_changed(os.path.join(common.COQ, "Gen", "LayoutGen.v"), text)
    c03.regenerate_time_parts(res)


def cdiv(a, b):
    return -(-a // b)


def spec(start, n, d, sc, fc, k):
    K = start + k
    ms = K * d * 1000 // n
    F = fc * (ms // fc)
    S = sc * ((K * d // n) // sc)
    nxt = cdiv((F + fc) * n, 1000 * d)
    fs = cdiv(F * n, 1000 * d)
    dt = datetime.datetime(1970, 1, 1) + datetime.timedelta(seconds=S)
    sub = "%04d-%02d-%02dT%02d-%02d-%02d" % (dt.year, dt.month, dt.day, dt.hour, dt.minute, dt.second)
    base = "tmp.rf@%d.%03d.h5" % (F // 1000, F % 1000)
    return [0, nxt - K, nxt - fs, sub, base], F, S


RATES = [(1, 1), (100, 1), (48000, 1), (10 ** 6, 1), (200, 3), (10 ** 6, 3), (10 ** 8, 7), (25 * 10 ** 6, 3),
         (2 ** 31 - 1, 10 ** 9), (10 ** 9, 7), (2 ** 32 - 1, 1), (1, 3), (44100, 1001)]
CADENCES = [(1, 20), (2, 400), (3600, 1000), (86400, 3600000), (1, 1), (3600, 3600000), (10, 2500), (60, 7500)]
EPOCHS = [315532800, 951782400, 951868800, 1500000000, 1499999999, 1709164800, 2147483648, 4102444800 - 1,
          4102444800, 1230768000, 978307200 - 1, 1583020800]


TZS = ["UTC", "JST-9", "EST5EDT,M3.2.0,M11.1.0", "NST3:30NDT,M3.2.0,M11.1.0", "<+1245>-12:45"]


def set_tz(tz):
    """time zone of this process, as the C library sees it (localtime reads TZ)"""
    os.environ["TZ"] = tz
    time.tzset()


def gen_cases(rng, nrand):
    cases = []
    for (n, d) in RATES:
        for (sc, fc) in CADENCES:
            if fc * n < 1000 * d:      # at least one sample per file
                continue
            for t in EPOCHS:
                for tms in (t * 1000, (t * 1000 // fc) * fc, (t * 1000 // fc + 1) * fc, (t // sc) * sc * 1000):
                    kb = cdiv(tms * n, 1000 * d)
                    for off in (-2, -1, 0, 1, 2):
                        K = kb + off
                        if K < 0 or K >= 2 ** 63 or K * d // n >= Y9999 - 10 ** 8:
                            continue
                        for k in (0, 1, 12345):
                            if K - k >= 0:
                                cases.append((K - k, n, d, sc, fc, k))
    for _ in range(nrand):
        n, d = rng.choice(RATES + [(rng.randrange(1, 2 ** 32), rng.randrange(1, 10 ** 9 + 1))])
        sc = rng.choice([1, 2, 10, 60, 3600, 86400])
        divs = [f for f in (1, 2, 4, 5, 8, 10, 20, 25, 40, 50, 100, 125, 200, 250, 400, 500, 1000, 2000, 2500, 5000)
                if (sc * 1000) % f == 0]
        fc = rng.choice(divs + [sc * 1000])
        if fc * n < 1000 * d:
            continue
        t = rng.randrange(315532800, 4102444800)
        K = t * n // d + rng.randrange(0, 1000)
        if K >= 2 ** 63:
            continue
        k = rng.choice([0, rng.randrange(0, K + 1)])
        cases.append((K - k, n, d, sc, fc, k))
    return cases


def run(res):
    d_impl = common.use_impl()
    import numpy as np
    import h5py
    import digital_rf
    rng = res.rng
    so = common.build_cshim("layout_shim", ["layout_shim.c"])
    lib = ctypes.CDLL(so)
    u64 = ctypes.c_uint64
    lib.shim_subdir_file.argtypes = [u64] * 6 + [ctypes.c_char_p, ctypes.c_char_p, ctypes.POINTER(u64), ctypes.POINTER(u64)]
    cases = gen_cases(rng, 3000 if res.tier == "quick" else 150000)
    res.rule = ("(start,n,d,subdir cadence,file cadence,k) with start+k within two samples of file, subdirectory, "
                "day, month, leap-day and year boundaries 1980-2100 for 13 rates x 8 cadence pairs (>=1 sample per "
                "file), plus random; non-trivial = distinct case; compared three ways (regenerated Coq term, compiled C "
                "through a shim built against the current header, big-integer oracle with Python datetime names); "
                "then every file of real recordings is inspected with h5py: each stored index must lie in the file "
                "and directory the Spec names, and no index may appear in two files")
    model = common.run_model("timeconv", [[5] + list(c) for c in cases])
    sub = ctypes.create_string_buffer(2048)
    base = ctypes.create_string_buffer(2048)
    left, maxs = u64(), u64()
    # the names are UTC whatever the time zone of the recording process: the cases are spread over
    # several TZ settings (the process zone is part of "every configuration")
    for ci, (c, m) in enumerate(zip(cases, model)):
        if ci % 257 == 0:
            set_tz(TZS[(ci // 257) % len(TZS)])
            res.count("tz:" + os.environ["TZ"])
        rc = lib.shim_subdir_file(*c, sub, base, ctypes.byref(left), ctypes.byref(maxs))
        impl = [rc, left.value, maxs.value, sub.value.decode(), base.value.decode()]
        sp, F, S = spec(*c)
        ln = m[3] if len(m) > 3 else 0
        mm = m[:3] + ["".join(chr(x) for x in m[4:4 + ln]), "".join(chr(x) for x in m[4 + ln:])]
        res.case(c)
        res.count("subdir_file")
        if impl != sp:
            res.violation("subdir-file-not-exact", "digital_rf_get_subdir_file differs from the exact layout",
                          {"fn": "subdir_file", "args": list(c), "TZ": os.environ.get("TZ")}, sp, impl)
        if mm != impl:
            res.disagree("regenerated model vs compiled C: get_subdir_file", list(c), mm, impl)
    res.sample({"subdir_file(start,n,d,sc,fc,k)": list(cases[len(cases) // 2]), "spec": spec(*cases[len(cases) // 2])[0]})
    # ---- real recordings: where does each sample end up?
    work = common.scratch_dir()
    nrec = 40 if res.tier == "quick" else 400
    recs = 0
    for i in range(nrec):
        for _try in range(50):
            n, dd = rng.choice([(100, 1), (200, 3), (10 ** 6, 3), (10 ** 8, 7), (25 * 10 ** 6, 3), (48000, 1), (1, 1), (1000, 7)])
            sc, fc = rng.choice([(1, 20), (2, 400), (3600, 1000), (1, 1), (10, 2500), (1, 1000), (3600, 60000)])
            per_file = fc * n // (1000 * dd)
            if 1 <= per_file <= 4000:
                break
        else:
            continue
        t = rng.choice(EPOCHS) * 1000
        if i % 8 == 5:
            # sample indices at and above 2**63 (40 MHz in the year 9575): unsigned 64-bit all the way down to the file
            n, dd, sc, fc = 4 * 10 ** 7, 1, 1, 1
            per_file = fc * n // (1000 * dd)
            t = (240000000000 + rng.randrange(0, 10 ** 9)) * 1000
            res.count("recordings_with_indices_above_2^63")
        tb = rng.choice([(t // fc) * fc, (t // (sc * 1000)) * sc * 1000, t])
        start = cdiv(tb * n, 1000 * dd) + rng.choice([-2, -1, 0, 1, 2, -per_file, per_file // 2])
        if start < 0:
            continue
        cont = rng.choice([False, True])
        chdir = os.path.join(work, "r%d" % i, "ch")
        os.makedirs(chdir)
        if rng.random() < 0.5:
            # directories left by an earlier session / a backfill: the layout must not depend on them
            for j in range(0, 6):
                Sj = sc * ((start * dd // n) // sc + j)
                os.makedirs(os.path.join(chdir, spec(0, n, dd, sc, fc, cdiv(Sj * n, dd))[0][3]), exist_ok=True)
            res.count("recordings_with_preexisting_subdirs")
        set_tz(rng.choice(TZS))
        common.set_current({"fn": "recording", "n": n, "d": dd, "sc": sc, "fc": fc, "start": start, "continuous": cont,
                            "preexisting_subdirs": os.listdir(chdir), "TZ": os.environ["TZ"]})
        w = digital_rf.DigitalRFWriter(chdir, np.int32, sc, fc, start, n, dd, "uuid", 0, False, False, 1, cont, False)
        pos = 0
        written = {}
        for _ in range(rng.randrange(1, 5)):
            gap = rng.choice([0, 0, 1, per_file - 1, per_file, per_file + 1, 3 * per_file])
            ln = rng.choice([1, 2, per_file - 1, per_file, per_file + 1, 2 * per_file + 1])
            if ln < 1:
                ln = 1
            pos += gap
            arr = np.arange(pos, pos + ln, dtype=np.int32)
            w.rf_write(arr, pos)
            for j in range(ln):
                written[start + pos + j] = pos + j
            pos += ln
        w.close()
        recs += 1
        seen = {}
        for f in sorted(glob.glob(os.path.join(chdir, "*", "rf@*.h5"))):
            subn = os.path.basename(os.path.dirname(f))
            bn = os.path.basename(f)
            with h5py.File(f, "r") as h:
                idx = h["rf_data_index"][...]
                data = h["rf_data"][...]
            nrows = data.shape[0]
            for r in range(idx.shape[0]):
                g0, o0 = int(idx[r][0]), int(idx[r][1])
                o1 = int(idx[r + 1][1]) if r + 1 < idx.shape[0] else nrows
                if o1 <= o0:
                    # an index row without samples still claims its index for this file
                    sp0, _F0, _S0 = spec(0, n, dd, sc, fc, g0)
                    if (subn, bn) != (sp0[3], sp0[4][4:]):
                        res.violation("sample-in-wrong-file", "an index row names a sample outside the file/directory the exact layout names",
                                      {"fn": "recording", "n": n, "d": dd, "sc": sc, "fc": fc, "start": start, "K": g0,
                                       "continuous": cont, "TZ": os.environ["TZ"]}, [sp0[3], sp0[4][4:]], [subn, bn])
                for o in range(o0, o1):
                    K = g0 + (o - o0)
                    if K not in written:
                        if cont:
                            continue       # fill slot of continuous mode
                    res.case((n, dd, sc, fc, K), nontrivial=False)
                    sp, F, S = spec(0, n, dd, sc, fc, K)
                    want = (sp[3], sp[4][4:])
                    if (subn, bn) != want:
                        res.violation("sample-in-wrong-file", "a stored sample lies outside the file/directory the exact layout names",
                                      {"fn": "recording", "n": n, "d": dd, "sc": sc, "fc": fc, "start": start, "K": K,
                                       "continuous": cont, "TZ": os.environ["TZ"]}, list(want), [subn, bn])
                    if K in seen and seen[K] != f:
                        res.violation("index-in-two-files", "one sample index is stored in two files",
                                      {"fn": "recording", "n": n, "d": dd, "sc": sc, "fc": fc, "start": start, "K": K},
                                      seen[K], f)
                    seen[K] = f
        missing = [K for K in written if K not in seen]
        if missing:
            res.violation("written-sample-not-stored", "a written sample is in no file",
                          {"fn": "recording", "n": n, "d": dd, "sc": sc, "fc": fc, "start": start, "K": missing[0]}, "stored", "absent")
        res.count("recordings")
    res.sample({"recordings_inspected": recs})
    set_tz("UTC")
    # ---- the same inspection over writer histories that use rf_write_blocks (multi-block calls that
    #      span files: a non-first block landing in a later file) in every mode
    import writerlib as wl

    def oracle(cfg, ops, reports, files, chdir, mrep, mfiles, hist):
        seen = {}
        for f in files:
            if f["tmp"]:
                continue
            rows, nd = f["rows"], f["data"].shape[0]
            for r, (g0, o0) in enumerate(rows):
                o1 = rows[r + 1][1] if r + 1 < len(rows) else nd
                for K in (g0, g0 + max(0, o1 - o0) - 1):          # first and last index of the block
                    if o1 <= o0 and K != g0:
                        continue                                   # (a row without samples still names its index)
                    res.case((cfg.n, cfg.d, cfg.sc, cfg.fc, K), nontrivial=False)
                    sp, F, S = spec(0, cfg.n, cfg.d, cfg.sc, cfg.fc, K)
                    want = (sp[3], sp[4][4:])
                    if (f["subdir"], f["name"]) != want:
                        res.violation("sample-in-wrong-file", "a stored sample lies outside the file/directory the exact layout names",
                                      dict(hist, K=K, file=f["name"]), list(want), [f["subdir"], f["name"]])
                        return
                for K in range(g0, g0 + max(0, o1 - o0)):
                    if K in seen and seen[K] != f["name"]:
                        res.violation("index-in-two-files", "one sample index is stored in two files", dict(hist, K=K), seen[K], f["name"])
                        return
                    seen[K] = f["name"]
        # ... and every index the CALLER named in an accepted call is stored (in the file the layout names: checked above)
        if ops is not None and reports is not None:
            acc = wl.abs_of_history(cfg, ops, reports)
            missing = sorted(K for K in acc if K not in seen)
            if missing and all(r[0] in (0, 1) for r in reports):
                res.violation("written-sample-not-stored", "an index named by the caller in an accepted call is stored in no file",
                              dict(hist, K=missing[0]), "stored in the file of its period", "absent (%d indices)" % len(missing))
                return
        res.count("block_histories_inspected")
    set_tz(rng.choice(TZS))
    wl.run_histories(res, 40 if res.tier == "quick" else 600, oracle)
    several_writers(res, wl, oracle)
    set_tz("UTC")
    # ---- guard the extraction
    subc = cases[:: max(1, len(cases) // 60)][:60]
    exprs = ["(let '(rc, a, b, s1, s2) := digital_rf_get_subdir_file (%d) (%d) (%d) (%d) (%d) (%d) in "
             "[rc; a; b; Z.of_nat (String.length s1)] ++ codes s1 ++ codes s2)" % c for c in subc]
    vm = common.run_model_vm("From Coq Require Import String.\nFrom DRF Require Import Base.Dec Gen.LayoutGen.", exprs)
    ex = common.run_model("timeconv", [[5] + list(c) for c in subc])
    if vm != ex:
        res.disagree("extracted OCaml vs vm_compute (subdir_file)", None, None, None)
    res.trusted.append("harness/cdriver/layout_shim.c (fills a Digital_rf_write_object of the current header and calls digital_rf_get_subdir_file)")
    res.assumptions += [
        "Base/U64.v is the semantics of the translated C arithmetic; Base/Civil.v models gmtime; Base/Dec.v models the printf directives used",
        "HDF5/h5py report rf_data_index and rf_data faithfully",
    ]


def several_writers(res, wl, oracle):
    """the layout is a function of (index, rate, cadences) of THE channel: two or three writers of one process,
    same sample rate and overlapping index ranges but different cadences, written to in turns; every
    channel is then inspected like a single recording"""
    import numpy as np
    rng = res.rng
    work = common.scratch_dir()
    for trial in range(12 if res.tier == "quick" else 150):
        n, d = rng.choice([(100, 1), (200, 3), (1000, 1), (48000, 1), (1000, 7)])
        cad = [(sc, fc) for sc, fc in [(1, 250), (1, 1000), (2, 400), (3600, 1000), (10, 2500), (1, 20), (2, 100), (3600, 60000)]
               if 1 <= fc * n // (1000 * d) <= 400]
        rng.shuffle(cad)
        cad = cad[:rng.choice([2, 2, 3])]
        if len(cad) < 2:
            continue
        t = 1500000000 * 1000 + rng.choice([0, 1, 999, 3599000])
        start = cdiv(t * n, 1000 * d)
        cont = rng.random() < 0.5
        cfgs = [wl.Cfg(n, d, sc, fc, start + rng.choice([0, 0, 1, 3]), cont, 0, False, "i", 2, "<", False, 1) for sc, fc in cad]
        dirs = [os.path.join(work, "m%d_%d" % (trial, j), "ch") for j in range(len(cfgs))]
        for dd in dirs:
            os.makedirs(dd)
        ws = [wl.make_writer(c, dd) for c, dd in zip(cfgs, dirs)]
        turns = []
        nturn = rng.randrange(6, 16)
        step = max(1, max(c.per_file() for c in cfgs) // rng.choice([1, 2, 3]))
        for _ in range(nturn):
            j = rng.randrange(len(ws))
            ln = rng.choice([1, step, step + 1, max(1, step - 1), 2 * step + 1])
            ws[j].rf_write(np.arange(ln, dtype=np.int16))
            turns.append([j, ln])
        for w in ws:
            w.close()
        res.count("several-writers-in-one-process")
        for j, (c, dd) in enumerate(zip(cfgs, dirs)):
            files = wl.dump_files(dd)
            hist = {"fn": "several-writers", "rate": [n, d], "continuous": cont, "writers": [[x.sc, x.fc, x.start] for x in cfgs],
                    "turns": turns, "inspected_writer": j}
            oracle(c, None, None, files, dd, None, None, hist)
            total = sum(ln for jj, ln in turns if jj == j)
            stored = sum(f["data"].shape[0] for f in files if not f["tmp"]) if not cont else None
            if stored is not None and stored != total:
                res.violation("written-sample-not-stored", "the files of a channel do not hold the number of samples written to it",
                              hist, total, stored)
            if any(f["tmp"] for f in files):
                res.violation("tmp-file-after-close", "a tmp. file is left after close", hist, "none", [f["name"] for f in files if f["tmp"]])


def replay(res, rp):
    i = rp.get("input") or {}
    if i.get("fn") == "several-writers":
        common.use_impl()
        import numpy as np
        import writerlib as wl
        n, d = i["rate"]
        work = common.scratch_dir()
        cfgs = [wl.Cfg(n, d, sc, fc, st, i["continuous"], 0, False, "i", 2, "<", False, 1) for sc, fc, st in i["writers"]]
        dirs = [os.path.join(work, "m%d" % j, "ch") for j in range(len(cfgs))]
        for dd in dirs:
            os.makedirs(dd)
        ws = [wl.make_writer(c, dd) for c, dd in zip(cfgs, dirs)]
        for j, ln in i["turns"]:
            ws[j].rf_write(np.arange(ln, dtype=np.int16))
        for w in ws:
            w.close()
        bad = 0
        for j, (c, dd) in enumerate(zip(cfgs, dirs)):
            for f in wl.dump_files(dd):
                for r, (g0, o0) in enumerate(f["rows"]):
                    sp, F, S = spec(0, c.n, c.d, c.sc, c.fc, g0)
                    ok = (f["subdir"], f["name"]) == (sp[3], sp[4][4:])
                    print("writer %d (subdir cadence %d s, file cadence %d ms): block at %d in %s/%s%s" %
                          (j, c.sc, c.fc, g0, f["subdir"], f["name"], "" if ok else "   <-- layout names %s/%s" % (sp[3], sp[4][4:])))
                    bad += 0 if ok else 1
        print("replay verdict:", "STILL VIOLATING" if bad else "no longer violating")
        return 1 if bad else 0
    print("replay input:", rp.get("input"), "expected", rp.get("expected"), "observed-then", rp.get("observed"))
    return 0
