"""C14 -- listing is sound, complete, ordered and window-exact.

Ties: T2 regenerates coq/Gen/Grammar.v; the extracted Model/Listing.v (ilsdrf over an abstract
tree) is compared with the real digital_rf.lsdrf on generated real trees x include flags x
recursive x reverse x windows at and around every file / subdirectory time; the real lsdrf is
also compared with an independent set-theoretic Spec oracle (filter + sort, written here without
list_drf and without `re`), so that a violation of the property has a concrete replay."""
import json
import os
import shutil

import common
from props import listing_lib as L
from props import c15 as _c15

LEVEL = "proof"
GONE = "<gone>"
HOUR = 3600
BASE = 1499997600            # 2017-07-14T02:00:00Z
ERRS = {0: None, 1: "IndexError", 2: "OSError", 3: "ValueError"}
FIXED = (1, 1, 1, 1)
LEGACY = (0, 0, 0, 0)
DEFECT_NAMES = ["ffill-anchored-to-first-iterated-subdir", "empty-first-subdir-indexerror",
                "lookback-listdir-unguarded", "endtime-duplicates-dropped"]


def regenerate(res):
    _c15.regenerate(res)
    regenerate_listslice(res)


def regenerate_listslice(res):
    """T14: list_drf._decorated_list_slice -> coq/Gen/ListSliceGen.v"""
    import listslice2gallina
    try:
        text = listslice2gallina.translate(common.REPO)
    except listslice2gallina.Unsupported as e:
        res.broken.append({"what": "T14 translator: _decorated_list_slice left the supported statement forms", "log": str(e)})
        return
    except Exception as e:  # noqa
        res.broken.append({"what": "T14 translator failed", "log": repr(e)})
        return
    common.write_if_changed(os.path.join(common.COQ, "Gen", "ListSliceGen.v"), text)
    res.trusted.append("translate/listslice2gallina.py (Python ast of _decorated_list_slice -> Gallina, fail-closed); "
                       "bisect.bisect_left assumed to meet its specification (Model/ListSliceBase.v) on lists in ascending order")


# ----------------------------------------------------------------------------- trees
def subdir_name(t):
    import datetime
    dt = L.EPOCH + datetime.timedelta(seconds=t)
    return dt.strftime("%Y-%m-%dT%H-%M-%S")


def gen_channel(rng, kind, quirks=True):
    """kind: 'rf' | 'md' | 'legacy' | 'both' | 'none' -> directory dict"""
    d = {}
    if kind == "rf":
        d["drf_properties.h5"] = None
    elif kind == "md":
        d["dmd_properties.h5"] = None
    elif kind == "legacy":
        d["metadata.h5"] = None
    elif kind == "both":
        d["drf_properties.h5"] = None
        d["dmd_properties.h5"] = None
    nsub = rng.choice([0, 1, 2, 3, 3, 4])
    start = BASE + HOUR * rng.choice([0, 0, 1, 5])
    gap = rng.choice([1, 1, 2])
    consistent = rng.random() < 0.8
    for i in range(nsub):
        T = start + i * gap * HOUR
        sub = {}
        nfiles = rng.choice([0, 0, 1, 2, 3, 3])
        for j in range(nfiles):
            off = rng.choice([0, 0, 1, 1200, 2000, 3599, rng.randrange(0, 3600)])
            if not consistent and rng.random() < 0.3:
                off = rng.choice([-1, -3600, 3600, 7300, -10000])
            ms = rng.choice([0, 0, 0, 123, 999])
            fk = {"rf": "rf", "md": "md"}.get(kind, rng.choice(["rf", "md"]))
            if quirks and rng.random() < 0.08:
                fk = "md" if fk == "rf" else "rf"            # a file of the other kind
            if fk == "rf":
                nm = "%s@%d.%03d.h5" % (rng.choice(["rf", "rf", "rf", "ch"]), T + off, ms)
            else:
                nm = "%s@%d.h5" % (rng.choice(["metadata", "metadata", "md"]), T + off)
            sub[nm] = None
            if quirks and rng.random() < 0.12:
                sub["tmp." + nm] = None
            if quirks and rng.random() < 0.08:                 # same time, other name
                sub[("zz" if rng.random() < 0.5 else "aa") + nm] = None
        if quirks and rng.random() < 0.1:
            sub[rng.choice(["rf@%d.00.h5" % T, "rf@.000.h5", "notes.txt", "rf@%d.000.h4" % T, "drf_properties.h5x"])] = None
        if quirks and rng.random() < 0.18:
            # a subdirectory holding ONLY entries the listing must ignore: a leftover tmp. file of an
            # interrupted writer, a stray file, or only files of the other kind
            other = ("metadata@%d.h5" % (T + 7)) if kind in ("rf",) else ("rf@%d.000.h5" % (T + 7))
            sub = {rng.choice(["tmp.metadata@%d.h5" % (T + 5), "tmp.rf@%d.000.h5" % (T + 5), "notes.txt", "rf@%d.00.h5" % T,
                               other, other]): None}
        node = sub
        if quirks and rng.random() < 0.06:
            node = GONE
        d[subdir_name(T)] = node
    if quirks:
        if rng.random() < 0.25:
            d[rng.choice(["notes", "2017-07-14T02-00-0", "x2017-07-14T02-00-00", "2017-07-14t02-00-00"])] = \
                {"rf@%d.000.h5" % BASE: None}
        if rng.random() < 0.2:
            d["rf@%d.000.h5" % BASE] = None                  # data-like file directly in the channel
        if rng.random() < 0.1:
            d["tmp.drf_properties.h5"] = None
        if rng.random() < 0.06:
            d[subdir_name(BASE)[:-2] + "00x"] = {}
    return d


def gen_tree(rng):
    t = {}
    n = rng.choice([1, 1, 2, 3])
    for i in range(n):
        kind = rng.choice(["rf", "md", "md", "legacy", "both", "none"])
        ch = gen_channel(rng, kind)
        if kind == "rf" and rng.random() < 0.5:
            ch["metadata"] = gen_channel(rng, "md")
        name = rng.choice(["ch%d" % i, "a%d" % i, "Z%d" % i])
        if rng.random() < 0.25:
            t.setdefault("grp", {})[name] = ch
        else:
            t[name] = ch
    if rng.random() < 0.2:
        # a directory that is NOT a channel but is named like a timestamped subdirectory (an experiment directory named
        # by its start time), holding a channel: the listing must go through it
        kind = rng.choice(["rf", "md", "both"])
        t[subdir_name(BASE - HOUR * rng.choice([0, 1, 30]))] = {rng.choice(["ch9", "x"]): gen_channel(rng, kind)}
        return t
    if rng.random() < 0.15:
        t["drf_properties.h5"] = None                         # the top directory itself a channel
        t[subdir_name(BASE)] = {"rf@%d.000.h5" % BASE: None}
    return t


def boundary_trees():
    """hand-built shapes named in the property / DESIGN section 7"""
    T = [BASE, BASE + HOUR, BASE + 2 * HOUR]
    md3 = {"dmd_properties.h5": None}
    for i, tt in enumerate(T):
        md3[subdir_name(tt)] = {"metadata@%d.h5" % (tt + 1200): None, "metadata@%d.h5" % (tt + 2000): None}
    out = [("md-3-subdirs", {"ch": md3})]
    e = json.loads(json.dumps(md3))
    e[subdir_name(T[1])] = {}
    out.append(("md-empty-middle", {"ch": e}))
    e = json.loads(json.dumps(md3))
    e[subdir_name(T[2])] = {}
    out.append(("md-empty-tail", {"ch": e}))
    e = json.loads(json.dumps(md3))
    e[subdir_name(T[0])] = {}
    out.append(("md-empty-head", {"ch": e}))
    e = json.loads(json.dumps(md3))
    e[subdir_name(T[1])] = GONE
    out.append(("md-vanished-middle", {"ch": e}))
    e = json.loads(json.dumps(md3))
    e[subdir_name(T[0])] = GONE
    out.append(("md-vanished-head", {"ch": e}))
    dup = {"drf_properties.h5": None, subdir_name(T[0]): {"rf@%d.000.h5" % T[0]: None, "ch@%d.000.h5" % T[0]: None,
                                                          "zz@%d.000.h5" % T[0]: None, "rf@%d.500.h5" % T[0]: None}}
    out.append(("rf-duplicate-times", {"ch": dup}))
    rf = {"drf_properties.h5": None, "metadata": json.loads(json.dumps(md3))}
    for tt in T:
        rf[subdir_name(tt)] = {"rf@%d.%03d.h5" % (tt + k, ms): None for k, ms in ((0, 0), (1, 0), (3599, 999))}
    out.append(("rf-with-metadata", {"ch": rf, "other": {"x": {"y.h5": None}}}))
    leg = {"metadata.h5": None, subdir_name(T[0]): {"rf@%d.000.h5" % T[0]: None, "metadata@%d.h5" % (T[0] + 5): None,
                                                    "tmp.rf@%d.000.h5" % (T[0] + 1): None},
           subdir_name(T[1]): {"rf@%d.250.h5" % T[1]: None}}
    out.append(("legacy-both-kinds", {"ch": leg}))
    # look-back across a subdirectory that holds only entries the listing must ignore
    for nm, filler in (("only-tmp", {"tmp.metadata@%d.h5" % (T[1] + 5): None}), ("only-stray", {"notes.txt": None}),
                       ("only-near-miss", {"metadata@%d.h4" % (T[1] + 5): None, "metadata@.h5": None}),
                       ("only-rf", {"rf@%d.000.h5" % (T[1] + 5): None})):
        e = json.loads(json.dumps(md3))
        e[subdir_name(T[1])] = dict(filler)
        out.append(("md-middle-" + nm, {"ch": e}))
        lg = {"metadata.h5": None}
        lg[subdir_name(T[0])] = {"metadata@%d.h5" % (T[0] + 10): None}
        lg[subdir_name(T[1])] = dict(filler)
        lg[subdir_name(T[2])] = {"metadata@%d.h5" % (T[2] + 50): None, "rf@%d.000.h5" % (T[2] + 60): None}
        out.append(("legacy-middle-" + nm, {"ch": lg}))
    e = json.loads(json.dumps(md3))
    e[subdir_name(T[1])] = {"tmp.metadata@%d.h5" % (T[1] + 5): None}
    e[subdir_name(T[2])] = {}
    e[subdir_name(T[2] + HOUR)] = {"metadata@%d.h5" % (T[2] + HOUR + 50): None}
    out.append(("md-two-ignored-subdirs", {"ch": e}))
    out.append(("empty-tree", {}))
    out.append(("channel-no-subdirs", {"ch": {"drf_properties.h5": None, "dmd_properties.h5": None}}))
    return out


def materialize(root, tree):
    gone = set()

    def rec(path, node):
        os.makedirs(path, exist_ok=True)
        for nm, c in node.items():
            p = os.path.join(path, nm)
            if c is None:
                with open(p, "w"):
                    pass
            elif c == GONE:
                os.makedirs(p, exist_ok=True)
                gone.add(p)
            else:
                rec(p, c)
    rec(root, tree)
    return gone


def enc_node(node):
    if node is None:
        return [0]
    if node == GONE:
        return [2]
    out = [1, len(node)]
    for nm, c in node.items():
        out += L.enc_word(nm) + enc_node(c)
    return out


def tree_times(tree):
    ts = set()

    def rec(node):
        for nm, c in node.items():
            s = L.parse_subdir(nm)
            if isinstance(s, int):
                ts.add(s * 1000000)
            pd = L.parse_data(nm)
            if pd:
                ts.add(pd[1])
            if isinstance(c, dict):
                rec(c)
    rec(tree)
    return sorted(ts)


# ----------------------------------------------------------------------------- the Spec oracle
class SpecValueError(Exception):
    pass


def spec_channel_files(node, fl, st, en, reverse):
    """-> (list of relative paths of data files, pruned dir names, consistent?)"""
    drf, dmd, _, _ = L.eff_flags(fl)
    files = [n for n, c in node.items() if c is None]
    ydrf = drf and any(f in L.DRF_PROPS for f in files)
    ydmd = dmd and any(f in L.DMD_PROPS for f in files)
    if not (ydrf or ydmd):
        return [], set(), True
    cand, pruned, spans = [], set(), []
    for d, c in node.items():
        if c is None:
            continue
        ts = L.parse_subdir(d)
        if ts is None:
            continue
        if ts == "invalid-date":
            raise SpecValueError(d)
        pruned.add(d)
        mine = []
        if c != GONE:
            for fn in c:
                pd = L.parse_data(fn)
                if pd and ((pd[0] == "drf" and ydrf) or (pd[0] == "dmd" and ydmd)):
                    mine.append((pd[1], d + "/" + fn))
        spans.append((ts * 1000000, mine))
        cand += mine
    spans.sort(key=lambda x: x[0])
    consistent = True
    for i, (T, mine) in enumerate(spans):
        hi = spans[i + 1][0] if i + 1 < len(spans) else None
        for t, _ in mine:
            if t < T or (hi is not None and t >= hi):
                consistent = False
    cand.sort()
    W = [c for c in cand if L.in_window(c[0], st, en)]
    extra = []
    if ydmd and st is not None:
        le = [c for c in cand if c[0] <= st]
        if le and le[-1] not in W and (en is None or le[-1][0] <= en):
            extra = [le[-1]]
    out = [p for _, p in extra + W]
    if reverse:
        out.reverse()
    return out, pruned, consistent


def spec_list(tree, fl, st, en, recursive, reverse, ctx=None):
    """-> (paths relative to the listed directory, all channels consistent?)"""
    out = []
    ok = [True]
    drf, dmd, drfp, dmdp = L.eff_flags(fl)
    if ctx is not None and (drf or dmd):
        base, parent = ctx
        if isinstance(L.parse_subdir(base), (int, str)) and any(n in L.ALL_PROPS for n in parent):
            fake = {n: None for n in parent if n in L.ALL_PROPS}
            fake[base] = tree
            fs, _, cons = spec_channel_files(fake, fl, st, en, reverse)
            ok[0] &= cons
            out += [p.split("/", 1)[1] for p in fs]

    def visit(node, prefix):
        files = sorted(n for n, c in node.items() if c is None)
        dirs = [n for n, c in node.items() if c is not None]
        props = [f for f in files if f in L.ALL_PROPS]
        pruned = set()
        if props:
            sel = [f for f in props if (drfp and f in L.DRF_PROPS) or (dmdp and f in L.DMD_PROPS)]
            out.extend(prefix + f for f in (reversed(sel) if reverse else sel))
            if drf or dmd:
                fs, pruned, cons = spec_channel_files(node, fl, st, en, reverse)
                ok[0] &= cons
                out.extend(prefix + f for f in fs)
        if recursive:
            for d in sorted((d for d in dirs if d not in pruned), reverse=reverse):
                if node[d] != GONE:
                    visit(node[d], prefix + d + "/")
    if isinstance(tree, dict):
        visit(tree, "")
    return out, ok[0]


# ----------------------------------------------------------------------------- running both sides
class OsProxy(object):
    """list_drf's `os` with listdir failing for the vanished directories"""

    def __init__(self, real, gone):
        self._real, self._gone = real, gone

    def __getattr__(self, k):
        return getattr(self._real, k)

    def listdir(self, p="."):
        if os.path.abspath(p) in self._gone:
            raise FileNotFoundError(2, "No such file or directory (vanished)", p)
        return self._real.listdir(p)


def impl_list(list_drf, path, fl, st, en, recursive, reverse):
    try:
        r = list_drf.lsdrf(path, recursive=recursive, reverse=reverse, starttime=L.us_to_dt(st),
                           endtime=L.us_to_dt(en), **L.flag_kwargs(fl))
    except (IndexError, OSError, ValueError) as e:
        k = "IndexError" if isinstance(e, IndexError) else "OSError" if isinstance(e, OSError) else "ValueError"
        return None, k
    pre = path.rstrip("/") + "/"
    return [p[len(pre):] if p.startswith(pre) else p for p in r], None


def model_case(variant, fl, st, en, recursive, reverse, enc_tree, ctx_enc=None):
    return ([20] + list(variant) + L.enc_flags(fl) + L.enc_opt(st) + L.enc_opt(en) + [int(recursive), int(reverse)]
            + ([1] + ctx_enc if ctx_enc else [0]) + enc_tree)


def dec_model(row):
    e = ERRS[row[0]]
    n, i, out = row[1], 2, []
    for _ in range(n):
        w, i = L.take_word(row, i)
        out.append(w)
    return out, e


def windows_for(rng, times, quick):
    cands = [None]
    for t in times:
        cands += [t - 1000, t, t + 1000]
        # bounds taken from a clock have a sub-millisecond part; file times have none
        cands += [t - 1, t + 1, t + 400]
    cands += [0, times[0] - 5 * 10 ** 9 if times else 1, (times[-1] + 5 * 10 ** 9) if times else 2]
    cands = sorted(set(c for c in cands if c is not None)) + [None]
    pairs = set()
    for c in cands:
        pairs.add((c, None))
        pairs.add((None, c))
        pairs.add((c, c))
    allp = [(a, b) for a in cands for b in cands]
    k = 40 if quick else 150
    for _ in range(k):
        pairs.add(rng.choice(allp))
    pairs = sorted(pairs, key=lambda p: (p[0] is None, p[0] or 0, p[1] is None, p[1] or 0))
    if quick and len(pairs) > 70:
        keep = [(None, None)] + rng.sample(pairs, 69)
        pairs = keep
    return pairs


def classify_violation(tree_name, exp, got, err, reverse, st, en):
    if err == "IndexError":
        return "empty-first-subdir-indexerror"
    if err == "OSError":
        return "lookback-listdir-unguarded"
    if err:
        return "listing-raises-" + err
    sg, se = set(got), set(exp)
    if len(got) != len(sg):
        return "listing-duplicates"
    if sg == se:
        return "listing-order"
    if reverse:
        return "reverse-changes-the-set"
    miss = se - sg
    if miss and not (sg - se) and en is not None:
        ts = [L.parse_data(p.rsplit("/", 1)[-1]) for p in miss]
        if all(t and t[1] == en for t in ts):
            return "endtime-duplicates-dropped"
    return "listing-set-differs"


def run(res):
    common.use_impl()
    import digital_rf
    from digital_rf import list_drf
    rng = res.rng
    quick = res.tier == "quick"
    res.rule = ("generated real trees (RF / metadata / legacy / both / no properties; nested sub-channel; 0-4 "
                "timestamped subdirectories with 0-3 files at, inside and outside their hour; empty and vanished "
                "subdirectories at head/middle/tail; tmp., near-miss, same-time and other-kind files; files directly "
                "in the channel; near-miss subdirectory names) plus hand-built boundary trees x include-flag "
                "combinations x recursive x reverse x windows at and 1 ms around every file/subdirectory time; "
                "non-trivial = distinct (tree, options) whose listing is non-empty or raises; each compared: "
                "extracted Model/Listing.ilsdrf vs real lsdrf vs set-theoretic Spec oracle")
    ntrees = 25 if quick else 150
    trees = boundary_trees() + [("random-%d" % i, gen_tree(rng)) for i in range(ntrees)]
    flagsets = [fl for fl in L.ALL_FLAGS]
    eff15 = [fl for fl in flagsets if None not in fl[2:]]
    top = common.scratch_dir()
    agree = {FIXED: 0, LEGACY: 0}
    ncases = 0
    real_os = list_drf.os
    try:
        for ti, (tname, tree) in enumerate(trees):
            # the directory handed to the listing is the caller's: its own name means nothing -- also when it looks like a
            # timestamped subdirectory, a data file or a channel's tmp. entry (an experiment directory named after its day)
            root_name = ["t%d", "2019-03-05T12-00-%02d", "t%d", "rf@15000000%02d.000.h5", "t%d", "tmp.t%d"][ti % 6] % ti
            root = os.path.join(top, root_name)
            gone = materialize(root, tree)
            list_drf.os = OsProxy(real_os, gone)
            enc = enc_node(tree)
            has_gone = GONE in json.dumps(tree)
            times = tree_times(tree)
            wins = windows_for(rng, times, quick)
            cases, metas = [], []
            for wi, (st, en) in enumerate(wins):
                fsel = eff15 if wi % (7 if quick else 3) == 0 else rng.sample(eff15, 3 if quick else 5)
                if wi % 5 == 0:
                    fsel = fsel + [rng.choice(flagsets)]
                for fl in fsel:
                    for recursive in (True, False):
                        for reverse in (False, True):
                            metas.append((fl, st, en, recursive, reverse, None))
            # the "path is a timestamped subdirectory" entry case
            for chname, ch in tree.items():
                if isinstance(ch, dict):
                    for sname, sub in ch.items():
                        if isinstance(sub, dict) and isinstance(L.parse_subdir(sname), int):
                            for fl in rng.sample(eff15, 4):
                                for (st, en) in rng.sample(wins, min(4, len(wins))):
                                    metas.append((fl, st, en, True, rng.random() < 0.5, (chname, sname)))
                            break
            for (fl, st, en, recursive, reverse, ctx) in metas:
                for v in (FIXED, LEGACY):
                    if ctx:
                        chname, sname = ctx
                        parent = {n: (None if c is None else {}) for n, c in tree[chname].items()}
                        cases.append(model_case(v, fl, st, en, recursive, reverse, enc_node(tree[chname][sname]),
                                                L.enc_word(sname) + enc_node(parent)))
                    else:
                        cases.append(model_case(v, fl, st, en, recursive, reverse, enc))
            rows = common.run_model("listing", cases)
            for mi, (fl, st, en, recursive, reverse, ctx) in enumerate(metas):
                mfix, mleg = dec_model(rows[2 * mi]), dec_model(rows[2 * mi + 1])
                if ctx:
                    path = os.path.join(root, ctx[0], ctx[1])
                    sub_tree = tree[ctx[0]][ctx[1]]
                    octx = (ctx[1], list(tree[ctx[0]].keys()))
                else:
                    path, sub_tree, octx = root, tree, None
                got, err = impl_list(list_drf, path, fl, st, en, recursive, reverse)
                impl = (got if got is not None else [], err)
                ncases += 1
                res.case((tname, json.dumps(tree, sort_keys=True) if ti >= 0 else "", fl, st, en, recursive, reverse, ctx),
                         nontrivial=bool(got) or err is not None)
                res.count("tree:" + (tname if not tname.startswith("random") else "random"))
                inp = {"tree": tree, "root_name": root_name, "flags": list(fl), "window_us": [st, en], "recursive": recursive,
                       "reverse": reverse, "entry": ctx}
                # model vs implementation: which variant does /repo implement?
                m_ok = False
                if err is None:
                    if mfix == (got, None):
                        agree[FIXED] += 1
                        m_ok = True
                    if mleg == (got, None):
                        agree[LEGACY] += 1
                        m_ok = True
                else:
                    # an exception: the model gives the kind; what was yielded before is invisible via lsdrf
                    if mfix[1] == err:
                        agree[FIXED] += 1
                        m_ok = True
                    if mleg[1] == err:
                        agree[LEGACY] += 1
                        m_ok = True
                if not m_ok:
                    res.disagree("Model/Listing.ilsdrf (fixed and legacy variants) vs lsdrf", inp,
                                 {"fixed": mfix, "legacy": mleg}, impl)
                # property oracle on the implementation
                try:
                    exp, consistent = spec_list(sub_tree, fl, st, en, recursive, reverse, octx)
                except SpecValueError:
                    res.count("invalid-date-tree")
                    continue
                if err is not None:
                    res.violation(classify_violation(tname, [], [], err, reverse, st, en),
                                  "lsdrf raised %s" % err, inp, exp, err)
                    continue
                inverted = st is not None and en is not None and st > en
                if inverted:
                    # an empty interval: nothing but (possibly) the forward-fill file may be listed; which of the
                    # two is not decided by the statement
                    res.count("inverted-window")
                    data = [p for p in got if p.rsplit("/", 1)[-1] not in L.ALL_PROPS]
                    if any(L.parse_data(p.rsplit("/", 1)[-1])[1] >= st for p in data):
                        res.violation("inverted-window-lists-files", "files listed for an empty interval", inp, exp, got)
                elif consistent and not has_gone:
                    if got != exp:
                        res.violation(classify_violation(tname, exp, got, None, reverse, st, en),
                                      "lsdrf differs from the set-theoretic Spec (filter + sort + forward-fill file)",
                                      inp, exp, got)
                else:
                    res.count("vanishing-subdir-tree" if has_gone else "inconsistent-layout-tree")
                    # without layout consistency, or while a subdirectory vanishes (the tree is changing under the
                    # listing), only "never fails", soundness and no duplicates are claimed
                    allp, _ = spec_list(sub_tree, fl, None, None, recursive, reverse, octx)
                    if len(set(got)) != len(got) or not set(got) <= set(allp):
                        res.violation("listing-unsound", "lsdrf lists a path outside the grammar or twice", inp,
                                      sorted(allp), got)
            list_drf.os = real_os
            shutil.rmtree(root, ignore_errors=True)
            if ti < 3:
                res.sample({"tree": tname, "listing(all)": impl_list(list_drf, root, (True, True, None, None), None, None,
                                                                      True, False)[0]})
    finally:
        list_drf.os = real_os
    res.extra["variant_agreement"] = {"fixed": agree[FIXED], "legacy": agree[LEGACY], "cases": ncases}
    if agree[FIXED] == ncases:
        res.extra["variant_selected"] = "fixed"
    elif agree[LEGACY] == ncases:
        res.extra["variant_selected"] = "legacy"
        res.notes.append("the implementation agrees with the LEGACY variant of the listing model on every case: "
                         "the four listing repairs are not in this tree")
    else:
        res.extra["variant_selected"] = "mixed"
    if agree[FIXED] != ncases and not res.violations:
        res.disagree("the implementation does not follow the repaired variant of the listing model (the theorems of "
                     "Properties/C14.v are about `fixed`) on %d of %d cases" % (ncases - agree[FIXED], ncases))
    # ---- guard the extraction on a sample
    t0 = boundary_trees()[0][1]
    expr = "(" + coq_run_expr(FIXED, (True, True, None, None), BASE * 1000000 + HOUR * 10 ** 6 + 1500 * 10 ** 6, None, t0) + ")"
    vm = common.run_model_vm("From DRF Require Import Extract.ListingRunner.", [expr])
    ex = common.run_model("listing", [model_case(FIXED, (True, True, None, None), BASE * 1000000 + HOUR * 10 ** 6 + 1500 * 10 ** 6,
                                                 None, True, False, enc_node(t0))])
    res.count("vm_compute_crosscheck")
    if vm != ex:
        res.disagree("extracted OCaml vs vm_compute (listing)", None, vm, ex)
    slice_leg(res, list_drf)
    cli_leg(res, trees, top)
    res.extra["traces_validated_against_impl"] = res.evaluations
    res.assumptions += [
        "bisect.bisect_left on a list sorted by time returns the first index >= lo whose time is not < x (modelled as such)",
        "os.walk / os.listdir return every entry exactly once; the order they use does not matter (every list is sorted "
        "before use) -- the model is run on the generator's order, the implementation on the file system's",
        "window-exactness and completeness are claimed for trees whose files lie in the subdirectory of their time "
        "(the layout C04 guarantees); on other trees only soundness and absence of duplicates are checked",
        "an impossible calendar date in a subdirectory name makes lsdrf raise ValueError (modelled; outside the tree grammar)",
        "name seconds stay below timedelta's limit; paths are ASCII",
    ]


def cli_leg(res, trees, top):
    """the command line front end `drf ls` (option parsing and defaults) against lsdrf with the documented meaning
    of the options: --nodrf / --nodmd, --drfprops / --nodrfprops / --dmdprops / --nodmdprops (unset = follow the
    kind), -r, -R, --abs, -s / -e"""
    import contextlib
    import io
    import digital_rf
    from digital_rf import drf_command
    rng = res.rng
    picks = [t for t in trees if GONE not in json.dumps(t[1])]
    picks = picks[:4] + rng.sample(picks, min(len(picks), 6 if res.tier == "quick" else 30))
    for ti, (tname, tree) in enumerate(picks):
        root = os.path.join(top, "cli%d" % ti)
        materialize(root, tree)
        times = tree_times(tree)
        for fl in L.ALL_FLAGS:
            for recursive, reverse in ((True, False), (False, True)):
                st = rng.choice([None, None] + [t for t in times]) if times else None
                argv = ["ls", root, "--abs"]
                if recursive:
                    argv.append("-r")
                if reverse:
                    argv.append("-R")
                if not fl[0]:
                    argv.append("--nodrf")
                if not fl[1]:
                    argv.append("--nodmd")
                if fl[2] is not None:
                    argv.append("--drfprops" if fl[2] else "--nodrfprops")
                if fl[3] is not None:
                    argv.append("--dmdprops" if fl[3] else "--nodmdprops")
                if st is not None:
                    st = (st // 10 ** 6) * 10 ** 6
                    import datetime as _dt
                    argv += ["-s", (L.EPOCH + _dt.timedelta(microseconds=st)).strftime("%Y-%m-%dT%H:%M:%SZ")]
                buf = io.StringIO()
                err = None
                try:
                    with contextlib.redirect_stdout(buf):
                        drf_command.main(argv)
                except SystemExit as e:
                    err = "SystemExit(%s)" % e.code
                except Exception as e:  # noqa
                    err = type(e).__name__
                got = [ln for ln in buf.getvalue().splitlines() if ln]
                try:
                    want = digital_rf.lsdrf(root, recursive=recursive, reverse=reverse, starttime=L.us_to_dt(st), **L.flag_kwargs(fl))
                    werr = None
                except Exception as e:  # noqa
                    want, werr = [], type(e).__name__
                res.case(("cli", tname, tuple(argv[2:])), nontrivial=bool(want))
                res.count("cli-ls")
                if (got, err) != (list(want), werr):
                    res.violation("cli-ls-differs-from-lsdrf", "`drf ls` with these options does not print the listing the options "
                                  "are documented to select", {"argv": ["ls", "<tree>"] + argv[2:], "tree": tree},
                                  [os.path.relpath(x, root) for x in want][:12] + ([werr] if werr else []),
                                  [os.path.relpath(x, root) if os.path.isabs(x) else x for x in got][:12] + ([err] if err else []))
        shutil.rmtree(root, ignore_errors=True)


def slice_leg(res, list_drf):
    """the regenerated _decorated_list_slice (Gen/ListSliceGen.v, vm_compute) against the real function on
    ascending lists of (timedelta, name) with repeated times, bounds at / between / outside the entries,
    bound 0 (timedelta(0) is falsy) and None"""
    import datetime
    rng = res.rng
    cases, exprs = [], []
    for _ in range(240 if res.tier == "quick" else 1500):
        n = rng.choice([0, 1, 2, 3, 5, 8])
        base = rng.choice([0, 0, 5, 1000])
        ts = sorted(base + rng.choice([0, 0, 1, 2, 3, 7]) * rng.randrange(0, 4) for _ in range(n))
        pool = [None, None, 0, base] + ts + [t + 1 for t in ts] + [t - 1 for t in ts if t > 0] + [base + 50]
        st, en = rng.choice(pool), rng.choice(pool)
        ff = rng.random() < 0.5
        cases.append((ts, st, en, ff))
        o = lambda v: "None" if v is None else "(Some %d)" % v  # noqa
        exprs.append("(let r := gen_decorated_list_slice [%s] %s %s %s in [Z.of_nat (fst r); Z.of_nat (snd r)])" %
                     ("; ".join(str(t) for t in ts), o(st), o(en), "true" if ff else "false"))
    try:
        rows = common.run_model_vm("From DRF Require Import Gen.ListSliceGen.", exprs)
    except common.Broken as e:
        res.broken.append({"what": "regenerated _decorated_list_slice cannot be evaluated", "log": str(e)[-1500:]})
        return
    td = lambda v: None if v is None else datetime.timedelta(milliseconds=v)  # noqa
    for (ts, st, en, ff), row in zip(cases, rows):
        dl = [(td(t), "f%d" % i) for i, t in enumerate(ts)]
        sl = list_drf._decorated_list_slice(dl, starttime=td(st), endtime=td(en), ffill=ff)
        got = [sl.start, sl.stop]
        res.case(("slice", tuple(ts), st, en, ff), nontrivial=bool(ts))
        res.count("regenerated-slice-vs-real")
        # the property itself on this call: entries in [st, en], plus (ffill) the last entry before st when
        # no entry is stamped exactly st
        inw = [i for i, t in enumerate(ts) if (st is None or t >= st) and (en is None or t <= en)]
        exp = set(inw)
        if ff and st is not None and st not in ts:
            before = [i for i, t in enumerate(ts) if t < st]
            if before and (en is None or en >= st or True):
                exp |= {before[-1]} if (en is None or ts[before[-1]] <= en) else set()
        sel = set(range(*sl.indices(len(ts))))
        if row != got:
            res.disagree("Gen/ListSliceGen.gen_decorated_list_slice vs list_drf._decorated_list_slice",
                         {"times_ms": ts, "starttime_ms": st, "endtime_ms": en, "ffill": ff}, row, got)
        if (st is None or en is None or st <= en) and sel != exp:
            res.violation("slice-not-window-exact", "_decorated_list_slice does not select exactly the entries of the window"
                          " (plus the forward-fill entry)", {"slice_call": {"times_ms": ts, "starttime_ms": st, "endtime_ms": en, "ffill": ff}},
                          sorted(exp), sorted(sel))


def coq_run_expr(variant, fl, st, en, tree):
    args = model_case(variant, fl, st, en, True, False, enc_node(tree))
    return "run %d [%s]" % (args[0], "; ".join(str(a) for a in args[1:]))


def replay(res, rp):
    common.use_impl()
    from digital_rf import list_drf
    i = rp["input"]
    root = common.scratch_dir()
    if i.get("root_name"):
        root = os.path.join(root, i["root_name"])
        print("the listed directory is named", i["root_name"])
    gone = materialize(root, i["tree"])
    real_os = list_drf.os
    list_drf.os = OsProxy(real_os, gone)
    try:
        st, en = i["window_us"]
        path = root if not i.get("entry") else os.path.join(root, *i["entry"])
        print("lsdrf ->", impl_list(list_drf, path, tuple(i["flags"]), st, en, i["recursive"], i["reverse"]))
        print("expected", rp.get("expected"))
    finally:
        list_drf.os = real_os
    return 0
