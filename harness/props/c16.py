"""C16 -- ring buffer: deletes only what it must, oldest first, exact accounting.
Tie: Model/Ringbuffer.v (hand model, variant parameter at the duplicate-accounting site) against a
REAL handler (digital_rf.ringbuffer.DigitalRFRingbufferHandler, no observer threads) driven on
real files in a scratch tree: after every step records / queues / active_size / files on disk /
deletions are compared with the extracted model, and the property oracle (invariant, deletes only
tracked, oldest first, deletion justified by a truly exceeded limit, limits hold after add) is
evaluated directly on the implementation, so that a violation comes with a replayable history."""
import itertools
import os
import shutil

import common

T0 = 1500000000            # 2017-07-14T02:40:00Z
SUBS = ["2017-07-14T02-00-00", "2017-07-14T03-00-00"]
CH = ["a/b/ch1", "ch0", "ch0/metadata", "ch2"]      # group id = index; string order = id order
KIND = ["rf", "rf", "dmd", "dmd"]
PROPS = {"rf": "drf_properties.h5", "dmd": "dmd_properties.h5"}
NKEYS = 6

LEVEL = "proof"
PATH_MODES = ["plain", "symdir", "plain", "symfiles"]


# ----------------------------------------------------------------------------- universe


def regenerate(res):
    """T10: expiry conditions / queue duration / mixin order of ringbuffer.py -> coq/Gen/RingbufGen.v"""
    import sys
    sys.path.insert(0, os.path.join(common.VERIF, "translate"))
    import c2gallina
    import ringbuf2gallina
    try:
        text = ringbuf2gallina.translate(common.REPO)
    except c2gallina.Unsupported as e:
        res.broken.append("translator T10 (ringbuf2gallina) rejects the current ringbuffer.py: %s" % e)
        return
    common.write_if_changed(os.path.join(common.COQ, "Gen", "RingbufGen.v"), text)

def pstr(top, p):
    g, k, s = p
    if g >= 0:
        secs, frac = divmod(k, 1000)
        name = "rf@%d.%03d.h5" % (secs, frac) if KIND[g] == "rf" else "metadata@%d.h5" % secs
        return os.path.join(top, CH[g], SUBS[s], name)
    ch = CH[s]
    if k == 0:
        return os.path.join(top, ch, PROPS[KIND[s]])
    if k == 1:
        name = "tmp.rf@%d.000.h5" % T0 if KIND[s] == "rf" else "tmp.metadata@%d.h5" % T0
        return os.path.join(top, ch, SUBS[0], name)
    name = "rf@%d.000.h5" % T0 if KIND[s] == "rf" else "metadata@%d.h5" % T0
    return os.path.join(top, ch, name)        # data-like name directly in the channel directory


def key_of(j, g=None):
    """time key (ms) of the j-th file of group g: RF channels write two files per second (names rf@S.000 / rf@S.500:
    the millisecond part of the name counts), metadata channels one"""
    if g is not None and KIND[g] == "rf":
        return T0 * 1000 + j * 500
    return (T0 + j) * 1000


def universe(top):
    """every path the generators use: string -> triple"""
    u = {}
    for g in range(4):
        for j in range(NKEYS):
            for s in (0, 1):
                u[pstr(top, (g, key_of(j, g), s))] = (g, key_of(j, g), s)
        for k in (0, 1, 2):
            u[pstr(top, (-1, k, g))] = (-1, k, g)
    # the model sorts equal keys as (group, sub); the implementation sorts path strings
    tr = [(v, k) for k, v in u.items() if v[0] >= 0]
    for (a, sa) in tr:
        for (b, sb) in tr:
            if a[1] == b[1]:
                assert (sa < sb) == ((a[0], a[2]) < (b[0], b[2])), (sa, sb)
    return u


# ----------------------------------------------------------------------------- implementation side

def scratch_base():
    """a scratch directory, on tmpfs when there is one (thousands of tiny files per second); auto-removed
    like common.scratch_dir()"""
    import atexit
    import tempfile
    if os.path.isdir("/dev/shm") and os.access("/dev/shm", os.W_OK):
        d = tempfile.mkdtemp(prefix="drfc16-", dir="/dev/shm")
        atexit.register(shutil.rmtree, d, True)
        _SHM.append(d)
        return d
    return common.scratch_dir("drfc16-")


class Impl:
    """a real handler on a real tree; one instance is reused (reset) across histories"""

    def __init__(self, base=None):
        common.use_impl()
        from digital_rf import ringbuffer
        from watchdog import events
        self.rbmod, self.ev = ringbuffer, events
        self.base = base or scratch_base()
        self.top = os.path.join(self.base, "w")
        self.real_top = os.path.join(self.base, "w_real")     # mode symdir: w -> w_real
        self.arch = os.path.join(self.base, "archive")        # mode symfiles: data files are links into it
        self.u = universe(self.top)
        self.handler = None
        self.files = {}
        self.nreset = 0
        self.mode = "plain"
        self.force_mode = None

    def reset(self, cfg):
        """how the watched tree is spelled rotates over the histories: a plain directory; a path through a
        symbolic link to the directory (/data -> /mnt/disk1: every reported path keeps the link's spelling);
        data files that are symbolic links into an archive outside the tree (what `drf ln --symbolic` makes):
        the handler must track and delete the paths as reported, never anything outside the tree"""
        size, count, dur = cfg
        self.mode = self.force_mode or PATH_MODES[self.nreset % len(PATH_MODES)]
        self.nreset += 1
        if os.path.islink(self.top):
            os.unlink(self.top)
        for d in (self.top, self.real_top, self.arch):
            if os.path.isdir(d):
                shutil.rmtree(d)
        if self.mode == "symdir":
            os.makedirs(self.real_top)
            os.symlink(self.real_top, self.top)
        self.archived = []
        for g in range(4):
            os.makedirs(os.path.join(self.top, CH[g]), exist_ok=True)
        kw = {}
        if size is not None:
            kw["size"] = size
        if count is not None:
            kw["count"] = count
        if dur is not None:
            kw["duration"] = dur
        self.handler = self.rbmod.DigitalRFRingbufferHandler(**kw)
        rb = self.rbmod.DigitalRFRingbuffer.__new__(self.rbmod.DigitalRFRingbuffer)
        rb.path, rb.starttime, rb.endtime = self.top, None, None
        rb.include_drf = rb.include_dmd = True
        rb.event_handler = self.handler
        self.rb = rb
        self.cfg = cfg
        self.removed = []        # (path string, snapshot) during the current step
        self._pre = None
        self.nadd = 0
        hd = self.handler
        orig_exp = hd._expire_oldest_from_group
        orig_add = hd._add_record

        def exp(group, _o=orig_exp):
            self._pre = self.snapshot_handler()
            return _o(group)

        def add(rec, _o=orig_add):
            self.nadd += 1
            return _o(rec)
        hd._expire_oldest_from_group = exp
        hd._add_record = add

    def snapshot_handler(self):
        hd = self.handler
        recs = {p: (r.key, r.size, r.group) for p, r in hd.records.items()}
        qs = [(grp, list(q)) for grp, q in hd.queues.items()]
        return {"recs": recs, "qs": qs, "act": getattr(hd, "active_size", 0)}

    def disk(self):
        out = {}
        for root, _dirs, files in os.walk(self.top):
            for f in files:
                p = os.path.join(root, f)
                try:
                    out[p] = os.path.getsize(p)
                except OSError:
                    pass
        return out

    def apply(self, op):
        """run one step; returns exception text or None.  self.removed = files the handler removed"""
        P = lambda t: pstr(self.top, tuple(t))
        self.removed, self.nadd = [], 0
        kind = op[0]
        if kind == "W":
            p = P(op[1])
            os.makedirs(os.path.dirname(p), exist_ok=True)
            t = self.u.get(p)
            if self.mode == "symfiles" and t is not None and t[0] >= 0 and not os.path.lexists(p):
                os.makedirs(self.arch, exist_ok=True)
                a = os.path.join(self.arch, "%d-%s" % (len(self.archived), os.path.basename(p)))
                self.archived.append(a)
                with open(a, "wb") as f:
                    f.write(b"x" * op[2])
                os.symlink(a, p)
                return None
            with open(p, "wb") as f:          # (through the link when p is one)
                f.write(b"x" * op[2])
            return None
        if kind == "X":
            try:
                os.remove(P(op[1]))
            except OSError:
                pass
            return None
        real_remove = os.remove

        def logged_remove(path, *a, **k):
            self.removed.append((path, self._pre))
            return real_remove(path, *a, **k)
        os.remove = logged_remove
        try:
            hd, ev = self.handler, self.ev
            if kind == "C":
                hd.dispatch(ev.FileCreatedEvent(P(op[1])))
            elif kind == "M":
                hd.dispatch(ev.FileModifiedEvent(P(op[1])))
            elif kind == "D":
                hd.dispatch(ev.FileDeletedEvent(P(op[1])))
            elif kind == "V":
                hd.dispatch(ev.FileMovedEvent(P(op[1]), P(op[2])))
            elif kind == "A":
                hd.add_files([P(t) for t in op[1]], sort=bool(op[2]))
            elif kind == "AG":     # generator argument, as _add_existing_files passes one
                hd.add_files((P(t) for t in op[1]), sort=False)
            elif kind == "F":
                hd.modify_files([P(t) for t in op[1]], sort=bool(op[2]))
            elif kind == "R":
                hd.remove_files([P(t) for t in op[1]])
            elif kind == "S":
                self.rb._verify_ringbuffer_files(inbuffer=set(P(t) for t in op[1]))
            else:
                raise ValueError(kind)
        except Exception as e:  # noqa
            return "%s: %s" % (type(e).__name__, e)
        finally:
            os.remove = real_remove
        return None


def enc_op(op):
    k = op[0]
    fl = lambda ts: [x for t in ts for x in t]
    if k == "W":
        return [9] + list(op[1]) + [op[2]]
    if k == "X":
        return [10] + list(op[1])
    if k in ("C", "M", "D"):
        return [{"C": 1, "M": 2, "D": 3}[k]] + list(op[1])
    if k == "V":
        return [4] + list(op[1]) + list(op[2])
    if k == "A":
        return [5, int(op[2]), len(op[1])] + fl(op[1])
    if k == "AG":
        return [5, 0, len(op[1])] + fl(op[1])
    if k == "F":
        return [6, int(op[2]), len(op[1])] + fl(op[1])
    if k == "R":
        return [7, len(op[1])] + fl(op[1])
    if k == "S":
        return [8, len(op[1])] + fl(op[1])
    raise ValueError(k)


def enc_history(cfg, variant, ops):
    size, count, dur = cfg
    out = [1, -1 if size is None else size, -1 if count is None else count, -1 if dur is None else dur, variant]
    for op in ops:
        out += enc_op(op)
    return out


def parse_dump(flat, nsteps):
    """model output -> list of canonical step states"""
    it = iter(flat)
    nx = lambda: next(it)
    steps = []
    for _ in range(nsteps):
        err, act = nx(), nx()
        recs = sorted([(nx(), nx(), nx()), nx()] for _ in range(nx()))
        qs = []
        for _q in range(nx()):
            g, n = nx(), nx()
            qs.append([g, [(nx(), nx(), nx()) for _ in range(n)]])
        dsk = sorted([(nx(), nx(), nx()), nx()] for _ in range(nx()))
        dl = [[(nx(), nx(), nx()), nx()] for _ in range(nx())]
        steps.append({"err": err, "act": act, "recs": [[list(a), b] for a, b in recs], "qs": [[g, [list(x) for x in q]] for g, q in qs],
                      "disk": [[list(a), b] for a, b in dsk], "dels": [list(d[0]) for d in dl]})
    return steps


def canon_impl(impl, exc, raw):
    """implementation state in the model's vocabulary (paths outside the universe stay strings)"""
    u = impl.u
    hd = impl.handler
    T = lambda p: list(u[p]) if p in u else p
    sn = impl.snapshot_handler()
    recs = sorted([[T(p), v[1]] for p, v in sn["recs"].items()], key=repr)
    qs = []
    for grp, q in sn["qs"]:
        gid = [i for i in range(4) if os.path.join(impl.top, CH[i]) == grp[0]]
        qs.append([gid[0] if gid else repr(grp), [T(p) for (_k, p) in q]])
    dsk = sorted([[T(p), s] for p, s in raw.items()], key=repr)
    return {"err": 1 if exc else 0, "act": sn["act"] if hasattr(hd, "active_size") else 0, "recs": recs,
            "qs": qs, "disk": dsk, "dels": [T(p) for p, _ in impl.removed]}


# ----------------------------------------------------------------------------- property oracle (on the implementation)

def oracle(impl, op, before_disk, after_disk, exc):
    """returns list of (signature, title, expected, observed)"""
    out = []
    u, hd = impl.u, impl.handler
    size, count, dur = impl.cfg
    if exc:
        out.append(("handler-raises", "the handler raised inside the configured limits", "no exception", exc))
    gone = [a for a in impl.archived if not os.path.exists(a)]
    if gone:
        out.append(("deletes-outside-the-tree", "a file outside the watched tree was deleted (the watched data files are "
                    "symbolic links to it)", "only paths inside the watched tree", gone[:4]))
    for path, _pre in impl.removed:
        if not (path == impl.top or path.startswith(impl.top + os.sep)):
            out.append(("deletes-outside-the-tree", "the handler removed a path that is not under the watched directory as it "
                        "was given", "a path under " + impl.top, path))
    # every deletion: tracked, trackable kind, oldest of its channel, a limit truly exceeded
    for path, pre in impl.removed:
        t = u.get(path)
        if t is None or t[0] < 0:
            out.append(("deletes-untrackable", "deleted a properties / tmp. / foreign file", "only data or metadata files", path))
            continue
        if pre is None or path not in pre["recs"]:
            out.append(("deletes-untracked", "deleted a file it was not tracking", "tracked path", path))
            continue
        # a path whose removal / rename this very event reports, and which is indeed gone, is not a
        # tracked file any more: it must not count towards a limit
        excl = set()
        if op[0] in ("D", "V"):
            gp = pstr(impl.top, tuple(op[1]))
            if gp not in after_disk and gp != path:
                excl.add(gp)
        same = [u[p][1] for p in pre["recs"] if p in u and u[p][0] == t[0] and p not in excl]
        if t[1] > min(same):
            out.append(("not-oldest-first", "deleted a file newer than one it keeps in the channel",
                        {"min_key": min(same)}, {"deleted_key": t[1], "path": path}))
        true_size = sum(v[1] for q, v in pre["recs"].items() if q not in excl)
        just = ((count is not None and len(same) > count) or (dur is not None and max(same) - min(same) > dur)
                or (size is not None and true_size > size))
        if not just:
            out.append(("unjustified-deletion", "deleted a file although no configured limit was exceeded",
                        {"size": size, "count": count, "duration": dur},
                        {"path": path, "channel_count": len(same), "channel_span_ms": max(same) - min(same),
                         "sum_of_tracked_sizes": true_size, "active_size": pre["act"]}))
    # a file the handler deleted in this step is not tracked after the step (unless it is on disk again)
    for path, _pre in impl.removed:
        if path in hd.records and path not in after_disk:
            out.append(("tracks-a-file-it-deleted", "the handler deleted a file and tracks it afterwards (a ghost: counted, never on disk)",
                        "not tracked", path))
            break
    # files may leave the disk only through a logged deletion (or the step's own env removal)
    gone = set(before_disk) - set(after_disk)
    allowed = set(p for p, _ in impl.removed)
    if op[0] == "X":
        allowed.add(pstr(impl.top, tuple(op[1])))
    if gone - allowed:
        out.append(("file-vanished", "a file disappeared without a ring-buffer deletion", [], sorted(gone - allowed)))
    # invariant: bookkeeping equals the truth about the tracked files
    recs = hd.records
    qpaths = [p for q in hd.queues.values() for (_k, p) in q]
    if sorted(qpaths) != sorted(recs):
        out.append(("records-queues-differ", "records and queues track different paths", sorted(recs), sorted(qpaths)))
    for grp, q in hd.queues.items():
        keys = [k for k, _ in q]
        if keys != sorted(keys) or len(set(p for _, p in q)) != len(q):
            out.append(("queue-not-ascending", "a channel queue is not in ascending time order / has a duplicate", None, list(q)))
        for k, p in q:
            r = recs.get(p)
            if r is not None and (r.key != k or r.group != grp or (p in u and (u[p][1] != k))):
                out.append(("queue-entry-wrong", "queue entry disagrees with its record", None, [k, p]))
    if size is not None:
        truth = sum(r.size for r in recs.values())
        if hd.active_size != truth:
            out.append(("active-size-not-sum-of-records", "active_size differs from the total size of the tracked files",
                        truth, hd.active_size))
    # bookkeeping = truth: after an event that reports the removal or the rename of a file, a record
    # for that path may remain only if the file is (again) on disk
    if op[0] in ("D", "V") and not exc:
        gone_path = pstr(impl.top, tuple(op[1]))
        if gone_path in recs and gone_path not in after_disk:
            out.append(("tracked-file-missing-after-reported-removal",
                        "a file whose removal / rename was reported and which no longer exists is still tracked",
                        "not tracked", gone_path))
    # once a newly reported file has been handled every configured limit holds again
    if op[0] in ("C", "V", "A", "AG") and impl.nadd > 0 and not exc:
        for grp, q in hd.queues.items():
            keys = [k for k, _ in q]
            if count is not None and len(q) > count:
                out.append(("count-limit-exceeded-after-add", "count limit exceeded after an add", count, len(q)))
            if dur is not None and keys and keys[-1] - keys[0] > dur:
                out.append(("duration-limit-exceeded-after-add", "duration limit exceeded after an add", dur, keys[-1] - keys[0]))
        if size is not None and sum(r.size for r in recs.values()) > size:
            out.append(("size-limit-exceeded-after-add", "size limit exceeded after an add", size,
                        sum(r.size for r in recs.values())))
    return out


# ----------------------------------------------------------------------------- running histories

def props_ops():
    return [("W", (-1, 0, g), 40 + g) for g in range(4)]


def run_history_impl(impl, cfg, ops):
    """returns (ops with 'CUR' re-scans made explicit, per-step canonical states,
    list of (step index, violation tuple)).  ('S','CUR') means: inbuffer = the handler's records at
    that moment, as _restart takes it."""
    impl.reset(cfg)
    states, viols, done = [], [], []
    before = impl.disk()
    for i, op in enumerate(ops):
        if op[0] == "S" and op[1] == "CUR":
            op = ("S", sorted(impl.u[p] for p in impl.handler.records if p in impl.u))
        done.append(op)
        exc = impl.apply(op)
        raw = impl.disk()
        st = canon_impl(impl, exc, raw)
        for v in oracle(impl, op, before, raw, exc):
            viols.append((i, v + (impl.mode,)))
        states.append(st)
        before = raw
        if exc:
            break
    return done + list(ops[len(done):]), states, viols


def compare(model_steps, impl_states):
    """index of the first differing step and the two states, or None"""
    for i, st in enumerate(impl_states):
        m = model_steps[i]
        if m != st:
            return i, m, st
    return None


VARIANTS = {0: "CountOnce", 1: "CountTwice"}


_WORKER = None
_CHILD = {}


def _work(chunk):
    w = _CHILD.get(os.getpid())
    if w is None:
        w = _CHILD[os.getpid()] = Impl(base=os.path.join(_WORKER_BASE, "p%d" % os.getpid()))
    return [run_history_impl(w, cfg, ops) for cfg, ops in chunk]


_WORKER_BASE = None
_POOL = None


def run_impl_batch(batch):
    """the implementation side of a batch, spread over worker processes (each with its own tree)"""
    global _POOL, _WORKER_BASE
    if len(batch) < 50:
        global _WORKER
        if _WORKER is None:
            _WORKER = Impl()
        return [run_history_impl(_WORKER, cfg, ops) for cfg, ops in batch]
    if _POOL is None:
        import multiprocessing
        common.use_impl()
        _WORKER_BASE = scratch_base()
        nproc = max(2, min(8, (os.cpu_count() or 2) // 2))
        _POOL = multiprocessing.get_context("fork").Pool(nproc)
    n = max(1, min(400, len(batch) // 32))
    chunks = [batch[i:i + n] for i in range(0, len(batch), n)]
    return [r for ch in _POOL.map(_work, chunks) for r in ch]


def model_vs_impl(batch, results, variant):
    """first disagreement (cfg, ops, (step, model, impl)) under a variant, or None"""
    outs = common.run_model("ringbuffer", [enc_history(cfg, variant, r[0]) for (cfg, _o), r in zip(batch, results)])
    for (cfg, _o), out, (ops, states, _v) in zip(batch, outs, results):
        try:
            ms = parse_dump(out, len(ops))
        except (StopIteration, RuntimeError):
            return (cfg, ops, (0, "unparsable model output", None))
        d = compare(ms, states)
        if d is not None:
            return (cfg, ops, d)
    return None


def check_batch(res, batch, tag):
    """batch: list of (cfg, ops).  Oracle on the implementation + correspondence: the proved variant
    first; the defective variant is evaluated only to name what the implementation does instead."""
    results = run_impl_batch(batch)
    agree, detail = {}, {}
    d0 = model_vs_impl(batch, results, 0)
    agree[0] = d0 is None
    if d0 is not None:
        detail[0] = d0
        d1 = model_vs_impl(batch, results, 1)
        agree[1] = d1 is None
        if d1 is not None:
            detail[1] = d1
    else:
        agree[1] = None
    for (cfg, _o), (ops, states, viols) in zip(batch, results):
        res.case((tag, cfg, tuple(map(repr, ops))), nontrivial=any(st["dels"] for st in states))
        res.count(tag)
        res.count("steps", len(states))
        res.count("deletions", sum(len(st["dels"]) for st in states))
        for i, v in viols:
            sig, title, exp, obs, mode = v
            res.violation(sig, title, {"cfg": list(cfg), "ops": [list(o) for o in ops[:i + 1]], "failing_step": i,
                                       "path_mode": mode}, exp, obs)
    return agree, detail, results


def settle_variant(res, agree_all, detail_all):
    if all(a[0] for a in agree_all):
        res.extra["model_variant_selected"] = {"dup_size": "CountOnce"}
        return
    twice = all(a[0] or a[1] for a in agree_all)
    res.extra["model_variant_selected"] = {"dup_size": "CountTwice" if twice else "none"}
    for d in detail_all:
        if 0 in d:
            cfg, ops, (i, m, st) = d[0]
            res.disagree("ring-buffer model (CountOnce, the proved variant) vs implementation"
                         + (" -- the implementation agrees with the defective variant CountTwice "
                            "(size counted again for an already queued path)" if twice else ""),
                         {"cfg": list(cfg), "ops": [list(o) for o in ops], "step": i}, m, st)
            break


# ----------------------------------------------------------------------------- generators

UNIVERSES = [
    # (groups, file sizes, size limits satisfying  limit >= |groups| * max size)
    ([1], [100], [None, 250, 350]),
    ([1, 2], [100, 250], [None, 500, 800]),
    ([0, 1, 2, 3], [100, 250], [None, 1000, 1500]),
]
COUNTS = [None, 1, 2]
DURS = [None, 1000, 2000]


def all_cfgs(sizes):
    return [(s, c, d) for s in sizes for c in COUNTS for d in DURS if not (s is None and c is None and d is None)]


def gen_random_history(rng, groups, sizes, n):
    paths = [(g, key_of(j, g), 0) for g in groups for j in range(NKEYS)] + [(g, key_of(j, g), 1) for g in groups for j in (0, 1)]
    junk = [(-1, k, g) for g in groups for k in (0, 1, 2)]
    ops = list(props_ops())
    nxt = {g: 0 for g in groups}
    present = set()
    for _ in range(n):
        r = rng.random()
        if r < 0.30:       # a writer finishes the next file of a channel and the event arrives
            g = rng.choice(groups)
            p = (g, key_of(nxt[g] % NKEYS, g), 0)
            nxt[g] += 1
            ops.append(("W", p, rng.choice(sizes)))
            present.add(p)
            if rng.random() < 0.85:
                ops.append(("C", p))
                if rng.random() < 0.25:
                    ops.append(("C", p))           # duplicated event
        elif r < 0.40:
            p = rng.choice(paths)
            ops.append(("W", p, rng.choice(sizes)))
            present.add(p)
        elif r < 0.50:
            ops.append(("C", rng.choice(paths + junk)))
        elif r < 0.60:
            p = rng.choice(paths + junk)
            if rng.random() < 0.6:
                ops.append(("W", p, rng.choice(sizes)))
            ops.append(("M", p))
        elif r < 0.66:
            ops.append(("D", rng.choice(paths + junk)))
        elif r < 0.71:
            p = rng.choice(paths)
            ops.append(("X", p))
            if rng.random() < 0.5:
                ops.append(("D", p))
        elif r < 0.76:
            a, b = rng.choice(paths + junk), rng.choice(paths + junk)
            if rng.random() < 0.6 and a != b and not (a[0] < 0 and a[1] == 0):   # never the properties file
                # the file is really renamed (disk: a disappears, b appears), then the event arrives
                ops.append(("X", a))
                ops.append(("W", b, rng.choice(sizes)))
            ops.append(("V", a, b))
        elif r < 0.84:
            k = rng.randrange(0, 5)
            l = [rng.choice(paths + junk) for _ in range(k)]
            if present and rng.random() < 0.4:
                # a re-scan style batch: files that are on disk (reported or not), among them the oldest of a channel
                # and a file written behind the handler's back just now
                pool = sorted(present)
                l = rng.sample(pool, min(len(pool), rng.randrange(2, 7)))
                g = rng.choice(groups)
                late = (g, key_of(nxt[g] % NKEYS, g), 0)
                nxt[g] += 1
                ops.append(("W", late, rng.choice(sizes)))
                present.add(late)
                l.append(late)
                l.append(min(pool, key=lambda t: (t[1], t[0], t[2])))
            if rng.random() < 0.3:
                ops.append(("AG", l))
            else:
                ops.append(("A", l, rng.random() < 0.5))
        elif r < 0.89:
            l = [rng.choice(paths + junk) for _ in range(rng.randrange(0, 4))]
            ops.append(("F", l, rng.random() < 0.5))
        elif r < 0.93:
            l = [rng.choice(paths + junk) for _ in range(rng.randrange(0, 4))]
            ops.append(("R", l))
        else:
            ops.append(("S", "CUR" if rng.random() < 0.7 else sorted(set(rng.choice(paths) for _ in range(rng.randrange(0, 5))))))
    return ops


def exhaustive_alphabet(groups, nkeys):
    paths = [(g, key_of(j, g), 0) for g in groups for j in range(nkeys)]
    al = []
    for p in paths:
        al += [[("W", p, 100), ("C", p)], [("C", p)], [("W", p, 250), ("M", p)], [("D", p)], [("X", p)]]
    # a tracked file set aside under a name the ring buffer does not track, reported as a move
    for g in groups:
        p = (g, key_of(0, g), 0)
        al.append([("X", p), ("W", (-1, 2, g), 100), ("V", p, (-1, 2, g))])
    al += [[("S", "CUR")], [("AG", paths)], [("A", list(reversed(paths)), True)]]
    # a re-scan batch (sorted) holding a file of one channel written behind the handler's back and the file of the same
    # time of another channel (lock-step recorders: equal time keys in different groups)
    for ga in groups:
        for gb in groups:
            if ga != gb and key_of(0, ga) == key_of(0, gb):
                al.append([("W", (ga, key_of(0, ga), 0), 250), ("A", [(ga, key_of(0, ga), 0), (gb, key_of(0, gb), 0)], True)])
    # the oldest file's twin: the same file name (same time key) in the other subdirectory of the channel
    for g in groups:
        tw = (g, key_of(0, g), 1)
        al += [[("W", tw, 100), ("C", tw)], [("D", tw)]]
    return al


_SHM = []     # scratch directories outside common.scratch_root() (tmpfs); the check body runs in a child that
              # leaves through os._exit, so they are removed explicitly


# ----------------------------------------------------------------------------- restart with an event in flight

def restart_case(impl, case):
    """DigitalRFRingbuffer._restart itself (the re-verification runs in its task thread): the new observer is
    started BEFORE the disk is listed, so files published while the listing runs are reported by events and are not
    in the listing.  case = {tracked: [triples], vanished: [triples] (tracked, removed from disk without an event),
    unseen: [triples] (on disk, never reported), late: [triples] (published + reported right after the listing)}.
    Limits are far away, nothing may expire: afterwards the handler tracks exactly the eligible files on disk.
    -> list of problems"""
    import threading
    P = lambda t: pstr(impl.top, tuple(t))
    impl.force_mode = "plain"
    impl.reset((None, 10 ** 6, None))
    for o in props_ops():
        impl.apply(o)
    for t in case["tracked"] + case["vanished"] + case["unseen"]:
        impl.apply(("W", tuple(t), 64))
    impl.apply(("A", [tuple(t) for t in case["tracked"] + case["vanished"]], 1))
    for t in case["vanished"]:
        impl.apply(("X", tuple(t)))
    rb, hd, mod = impl.rb, impl.handler, impl.rbmod
    rb._task_threads = []

    class Obs:
        def start(self):
            pass
    rb._init_observer = lambda: setattr(rb, "observer", Obs())
    real = mod.list_drf.ilsdrf
    errs = []

    def listing(*a, **k):
        for p in real(*a, **k):
            yield p
        for t in case["late"]:          # the listing is complete; the running observer reports new files
            impl.apply(("W", tuple(t), 64))
            hd.dispatch(impl.ev.FileCreatedEvent(P(t)))
    old_hook = threading.excepthook
    threading.excepthook = lambda a: errs.append("%s: %s" % (a.exc_type.__name__, a.exc_value))
    mod.list_drf.ilsdrf = listing
    try:
        rb._restart()
        for th in rb._task_threads:
            th.join(60)
    finally:
        mod.list_drf.ilsdrf = real
        threading.excepthook = old_hook
    want = sorted(P(t) for t in case["tracked"] + case["unseen"] + case["late"])
    got = sorted(hd.records)
    probs = []
    if errs:
        probs.append(("restart-verification-raised", errs[0][:200]))
    if got != want:
        miss = [os.path.relpath(x, impl.top) for x in want if x not in got]
        extra = [os.path.relpath(x, impl.top) for x in got if x not in want]
        probs.append(("restart-loses-reported-file" if miss else "restart-keeps-vanished-file", {"not tracked": miss, "tracked but gone": extra}))
    n = sum(len(q) for _g, q in hd.queues.items())
    if not probs and n != len(want):
        probs.append(("restart-queues-differ-from-records", {"queued": n, "tracked": len(want)}))
    return probs


def flaky_remove_case(impl, g, errno_name):
    """os.remove of the expired file fails once with a transient error (EBUSY / EACCES / EINTR), or the file is already
    gone (ENOENT): the handler must end with the file off the disk and out of its records, without raising"""
    import errno
    P = lambda t: pstr(impl.top, tuple(t))
    impl.force_mode = "plain"
    impl.reset((None, 1, None))
    for o in props_ops():
        impl.apply(o)
    f0, f1 = (g, key_of(0, g), 0), (g, key_of(1, g), 0)
    impl.apply(("W", f0, 64))
    impl.apply(("C", f0))
    impl.apply(("W", f1, 64))
    real_remove, state = os.remove, {"n": 0}
    code = getattr(errno, errno_name)

    def flaky(path, *a, **k):
        if path == P(f0) and state["n"] == 0:
            state["n"] += 1
            if code == errno.ENOENT:
                real_remove(path)
            raise OSError(code, os.strerror(code), path)
        return real_remove(path, *a, **k)
    os.remove = flaky
    exc = None
    try:
        impl.handler.dispatch(impl.ev.FileCreatedEvent(P(f1)))
    except Exception as e:  # noqa
        exc = "%s: %s" % (type(e).__name__, e)
    finally:
        os.remove = real_remove
    probs = []
    if exc:
        probs.append(("expiry-raises-on-failed-remove", exc[:200]))
    if os.path.exists(P(f0)):
        probs.append(("expired-file-left-on-disk", {"file": os.path.relpath(P(f0), impl.top), "remove failed once with": errno_name,
                                                    "tracked": sorted(os.path.relpath(x, impl.top) for x in impl.handler.records)}))
    if sorted(impl.handler.records) != [P(f1)]:
        probs.append(("records-wrong-after-failed-remove", sorted(os.path.relpath(x, impl.top) for x in impl.handler.records)))
    return probs


def cli_case(argv):
    """`drf ringbuffer <argv>` up to the construction of DigitalRFRingbuffer: the limits it is constructed with"""
    import argparse
    import signal
    from digital_rf import ringbuffer as M
    got = {}

    class Stop(Exception):
        pass

    class Fake:
        def __init__(self, path, **kw):
            got.update(kw)
            raise Stop()
    real, old = M.DigitalRFRingbuffer, signal.getsignal(signal.SIGTERM)
    M.DigitalRFRingbuffer = Fake
    try:
        parser = M._build_ringbuffer_parser(argparse.ArgumentParser)
        args = parser.parse_args(argv)
        try:
            args.func(args)
        except Stop:
            pass
    finally:
        M.DigitalRFRingbuffer = real
        signal.signal(signal.SIGTERM, old)
    return got


CLI_CASES = [
    # argv (after the path)                      size (bytes)      count  duration (ms)
    (["-l", "2.5"],                              None,             None,  2500.0),
    (["-l", "0.5"],                              None,             None,  500.0),
    (["-l", "3"],                                None,             None,  3000.0),
    (["-l", "60*60"],                            None,             None,  3600000.0),
    (["-c", "7"],                                None,             7,     None),
    (["-z", "1500"],                             1500,             None,  None),
    (["-z", "2KB"],                              2000,             None,  None),
    (["-z", "2KiB"],                             2048,             None,  None),
    (["-z", "1.5MB"],                            1500000.0,        None,  None),
    (["-z", "3GiB", "-c", "2", "-l", "1.25"],    3 * 1024 ** 3,    2,     1250.0),
    ([],                                         -200e6,           None,  None),
]


def cli_leg(res):
    """the command line in front of the handler: the limits the user types are the limits the handler enforces"""
    for argv, size, count, dur in CLI_CASES:
        res.count("command-line-limits")
        try:
            got = cli_case(["/nonexistent-verif"] + argv)
            obs = [got.get("size"), got.get("count"), got.get("duration")]
        except BaseException as e:  # noqa
            obs = ["exc", repr(e)[:200]]
        if obs != [size, count, dur]:
            res.violation("command-line-limit-differs", "`drf ringbuffer` hands the ring buffer another limit than the one typed",
                          {"cli_argv": argv}, {"size": size, "count": count, "duration_ms": dur}, obs)
            return


def restart_leg(res):
    rng = res.rng
    impl = Impl()
    for i in range(12 if res.tier == "quick" else 120):
        pool = [(g, key_of(j, g), s) for g in (0, 1, 2, 3) for j in range(NKEYS) for s in (0, 1)]
        rng.shuffle(pool)
        a, b, c, d = rng.randrange(1, 5), rng.randrange(0, 3), rng.randrange(0, 3), rng.randrange(1, 4)
        case = {"tracked": pool[:a], "vanished": pool[a:a + b], "unseen": pool[a + b:a + b + c], "late": pool[a + b + c:a + b + c + d]}
        case = {k: [list(t) for t in v] for k, v in case.items()}
        res.count("restart-with-event-in-flight")
        for sig, detail in restart_case(impl, case):
            res.violation(sig, "DigitalRFRingbuffer._restart with file events delivered between the listing and the comparison",
                          {"restart_case": case}, "after _restart the handler tracks exactly the files on disk "
                          "(tracked + unseen + reported during the listing; the vanished ones dropped)", detail)
    for g in (0, 1, 2, 3):
        for en in ("ENOENT", "EBUSY", "EACCES", "EINTR"):
            res.count("expiry-with-failing-remove")
            for sig, detail in flaky_remove_case(impl, g, en):
                res.violation(sig, "the deletion of an expired file fails once", {"flaky_remove": [g, en]},
                              "count limit 1: after the second file is reported the first is off the disk and untracked", detail)


def run(res):
    try:
        _run(res)
        restart_leg(res)
        cli_leg(res)
    finally:
        global _POOL
        try:
            if globals().get("_POOL") is not None:
                _POOL.terminate()
                _POOL = None
        except Exception:  # noqa
            pass
        for d in _SHM:
            shutil.rmtree(d, True)


def _run(res):
    rng = res.rng
    quick = res.tier == "quick"
    res.rule = ("history = files written/removed behind the handler's back + created/modified/deleted/moved events "
                "(via dispatch) + add/modify/remove batch calls (sorted, unsorted, generator) + re-scans, over 1, 2 or 4 "
                "channels (rf and metadata), every combination of size/count/duration limits with size >= one largest "
                "file per channel; non-trivial = distinct history in which the ring buffer deleted at least one file; "
                "after every step the real handler's records, queues, active_size, files on disk and deletions are "
                "compared with the extracted model and the property oracle is evaluated on the implementation")
    agree_all, detail_all = [], []
    # 0. the recorded witness of the duplicate-accounting defect (fixed): three 100-byte files, limit 350
    wit = props_ops() + [x for j in range(3) for x in (("W", (1, key_of(j, 1), 0), 100), ("C", (1, key_of(j, 1), 0)))] + [("C", (1, key_of(2, 1), 0))]
    a, d, _r = check_batch(res, [((350, None, None), wit)], "witness")
    agree_all.append(a)
    detail_all.append(d)
    # 0b. the recorded witness of the stale-record defect (fixed): a sorted batch that names one path twice; handling the
    #     first record expires the file, the second (made before) put the deleted file back among the tracked ones
    wit2 = props_ops() + [
            ("W", (2, 1500000005000, 0), 250),
            ("W", (2, 1500000004000, 0), 100),
            ("W", (3, 1500000004000, 0), 100),
            ("W", (3, 1500000005000, 0), 250),
            ("S", [(0, 1500000000000, 1), (1, 1500000001000, 0), (2, 1500000005000, 0)]),
            ("W", (0, 1500000002500, 0), 250),
            ("C", (0, 1500000002500, 0)),
            ("W", (2, 1500000004000, 0), 250),
            ("M", (2, 1500000004000, 0)),
            ("W", (0, 1500000000000, 0), 100),
            ("A", [(0, 1500000001000, 0), (2, 1500000001000, 1), (0, 1500000000000, 0), (0, 1500000000000, 0)], True)]
    a, d, _r = check_batch(res, [((1000, 2, 1000), wit2)], "witness")
    agree_all.append(a)
    detail_all.append(d)
    # 1. exhaustive short histories
    L = 3 if quick else 4
    groups, nkeys = ([1, 2], 2)
    al = exhaustive_alphabet(groups, nkeys)
    cfgs = [(500, None, None), (500, 1, 1000), (None, 1, None), (None, None, 1000), (500, 2, None)] if quick else all_cfgs([None, 500, 800])
    for cfg in cfgs:
        batch = []
        for n in range(1, L + 1):
            if not quick and n == L and cfg not in [(500, None, None), (500, 1, 1000), (None, 1, None), (800, 2, 2000)]:
                continue
            for combo in itertools.product(range(len(al)), repeat=n):
                if n == L and quick and (combo[0] % 5) not in (0, 2):
                    continue      # quick tier: full-length histories start with a write
                if n == 4 and (combo[0] % 5) not in (0, 2):
                    continue      # depth 4 (thorough): histories that start with a write (a third of them)
                ops = props_ops() + [o for c in combo for o in al[c]]
                batch.append((cfg, ops))
        a, d, _r = check_batch(res, batch, "exhaustive")
        agree_all.append(a)
        detail_all.append(d)
    # 1b. lock-step recorders and a re-scan: two channels whose files carry the same time stamps; some of their files are
    #     tracked; one more file of the first channel is written behind the handler's back and then reported in ONE sorted
    #     batch together with the (already tracked) file of the same time of the other channel -- every subset of three
    #     earlier files, both sizes, both size limits
    batch = []
    for ga in (1, 2):
        gb = 3 - ga
        if key_of(0, ga) != key_of(0, gb):
            continue
        pre_all = [(gb, key_of(0, gb), 0), (gb, key_of(1, gb), 0), (ga, key_of(1, ga), 0)]
        for limit in (500, 800):
            for mask in range(1, 8):
                for sz in itertools.product((100, 250), repeat=2):
                    ops = list(props_ops())
                    for j, p in enumerate(pre_all):
                        if mask >> j & 1:
                            ops += [("W", p, sz[j % 2]), ("C", p)]
                    late = (ga, key_of(0, ga), 0)
                    ops += [("W", late, sz[1]), ("A", [late, pre_all[0]], True), ("S", "CUR")]
                    batch.append(((limit, None, None), ops))
    a, d, _r = check_batch(res, batch, "lock-step")
    agree_all.append(a)
    detail_all.append(d)
    # 2. long random histories
    nh = 60 if quick else 1500
    batch = []
    for i in range(nh):
        groups, sizes, limits = UNIVERSES[i % 3]
        cfg = rng.choice(all_cfgs(limits))
        ops = gen_random_history(rng, groups, sizes, 200)
        batch.append((cfg, ops))
    a, d, results = check_batch(res, batch, "random")
    agree_all.append(a)
    detail_all.append(d)
    res.sample({"cfg": list(batch[0][0]), "ops": [list(o) for o in batch[0][1][:12]], "note": "first 12 steps of a random history"})
    settle_variant(res, agree_all, detail_all)
    # 3. outside the size hypothesis the implementation raises IndexError and the model sets err
    bad = props_ops() + [("W", (2, key_of(0, 2), 0), 50), ("C", (2, key_of(0, 2), 0)), ("W", (2, key_of(0, 2), 0), 250),
                         ("M", (2, key_of(0, 2), 0)), ("W", (1, key_of(0, 1), 0), 50), ("C", (1, key_of(0, 1), 0))]
    impl = Impl()
    impl.reset((100, None, None))
    excs = [impl.apply(o) for o in bad]
    m = parse_dump(common.run_model("ringbuffer", [enc_history((100, None, None), 0, bad)])[0], len(bad))
    res.count("outside-hypothesis")
    if m[-1]["err"] != 1 or not (excs[-1] or "").startswith("IndexError"):
        res.disagree("size limit below one file per channel: model err flag vs implementation IndexError",
                     [list(o) for o in bad], m[-1]["err"], excs[-1])
    # 4. guard the extraction with vm_compute on a few histories
    sub = [(batch[i][0], results[i][0]) for i in range(0, len(batch), max(1, len(batch) // 3))][:3]
    encs = [enc_history(cfg, 0, ops[:40]) for cfg, ops in sub]
    exprs = ["(run 1 [%s])" % "; ".join("(%d)" % x for x in e[1:]) for e in encs]
    vm = common.run_model_vm("From DRF Require Import Extract.RingbufferRunner.", exprs)
    ex = common.run_model("ringbuffer", encs)
    res.count("vm_compute_crosscheck", len(sub))
    if vm != ex:
        res.disagree("extracted OCaml vs vm_compute (ring-buffer runner)", None, None, None)
    res.extra["traces_validated_against_impl"] = res.evaluations
    res.assumptions += [
        "group and key of a path are functions of the path (regex groups of _get_file_record); the model's path is the triple (group, key, sub)",
        "os.stat / os.remove / os.rmdir behave as the model's disk map (files only; directories are not modelled)",
        "watchdog delivers the events; threads are serialised by the handler's record lock (the model is sequential)",
        "list_drf.ilsdrf finds exactly the trackable files of channel directories that hold a properties file (exercised in every re-scan step)",
    ]
    res.trusted += ["Model/Ringbuffer.v is a hand model of ringbuffer.py tied by per-step state comparison on real files"]


def dec_op(o):
    k = o[0]
    if k in ("W", "X", "C", "M", "D"):
        return (k, tuple(o[1])) + tuple(o[2:])
    if k == "V":
        return (k, tuple(o[1]), tuple(o[2]))
    return (k, [tuple(t) for t in o[1]]) + tuple(o[2:])


def replay(res, rp):
    impl = Impl()
    i = rp["input"]
    if "cli_argv" in i:
        common.use_impl()
        got = cli_case(["/nonexistent-verif"] + i["cli_argv"])
        obs = {"size": got.get("size"), "count": got.get("count"), "duration_ms": got.get("duration")}
        print("drf ringbuffer <path> %s  ->  DigitalRFRingbuffer(size=%r, count=%r, duration=%r ms)" % (" ".join(i["cli_argv"]), obs["size"], obs["count"], obs["duration_ms"]))
        print("expected", rp.get("expected"))
        bad = obs != rp.get("expected")
        print("replay verdict:", "STILL VIOLATING" if bad else "no longer violating")
        return 1 if bad else 0
    if "flaky_remove" in i:
        probs = flaky_remove_case(impl, *i["flaky_remove"])
        print("count limit 1, os.remove of the expired file fails once with", i["flaky_remove"][1], "(channel group %d)" % i["flaky_remove"][0])
        for pr in probs:
            print("VIOLATION", pr)
        return 1 if probs else 0
    if "restart_case" in i:
        probs = restart_case(impl, i["restart_case"])
        print("restart with events in flight:", i["restart_case"])
        for pr in probs:
            print("VIOLATION", pr)
        return 1 if probs else 0
    impl.force_mode = i.get("path_mode") or "plain"
    print("watched tree:", {"plain": "a plain directory", "symdir": "reached through a symbolic link to the directory",
                            "symfiles": "data files are symbolic links into an archive outside the tree"}[impl.force_mode])
    cfg = tuple(i["cfg"])
    ops = [dec_op(o) for o in i["ops"]]
    ops, states, viols = run_history_impl(impl, cfg, ops)
    for k, (op, st) in enumerate(zip(ops, states)):
        print("step", k, op, "-> active_size", st["act"], "tracked", len(st["recs"]), "deleted", st["dels"])
    for k, v in viols:
        print("VIOLATION at step", k, v)
    print("expected", rp.get("expected"), "observed-then", rp.get("observed"))
    return 1 if viols else 0
