"""C13 -- Digital Metadata file placement agrees between writer and reader.
Tie: correspondence between Model/MdPlace.v (extracted) and the scratch build of /repo:
on-disk paths after DigitalMetadataWriter.write, DigitalMetadataReader._get_file_list,
read(k, k), range reads and read_latest.  The property oracle (Python big integers) is applied
directly to the implementation; the model/implementation diff is separate."""
import calendar
import datetime
import os

import numpy as np

import common

RATES = [(10 ** 8, 7), (10 ** 9, 7), (10 ** 6, 3), (200, 3), (25 * 10 ** 6, 3), (1, 1), (100, 1)]
# rates whose present-day indices satisfy k*d >= 2^64 (k itself < 2^63): a 64-bit evaluation of k*d wraps
BIG_RATES = [(10 ** 11, 1001), (20000000123, 1000), (12345678901, 10)]
FCS = [1, 3, 60, 3600]
SCS = [3600, 86400]
PREFIX = "metadata"
# the file-name prefix is the caller's choice: anything without '/' and '@' (a '%' must stay a '%')
PREFIXES = ["metadata", "metadata", "duty50%%", "m%s_d", "pre fix", "x.y-z"]


def set_prefix(p):
    """the prefix every helper of this module (and of c12 / c20, which read c13.PREFIX) uses from now on"""
    global PREFIX
    PREFIX = p


WITNESS = {"n": 10 ** 8, "d": 7, "fc": 3, "sc": 3600, "k": 21428571600000000}


def cdiv(a, b):
    return -(-a // b)


def spec_path(n, d, fc, sc, k):
    """the property statement, in exact integers"""
    sec = k * d // n
    T = (sec // fc) * fc
    S = (T // sc) * sc
    return S, T


def sub_name(S):
    return datetime.datetime.fromtimestamp(S, tz=datetime.timezone.utc).strftime("%Y-%m-%dT%H-%M-%S")


def rel(S, T):
    return "%s/%s@%d.h5" % (sub_name(S), PREFIX, T)


def boundary_groups(rng, fc, sc, tier):
    """groups of file numbers j whose boundary sample ceil(j*fc*n/d) (and neighbours) are tried; one
    channel per group (forward fill enumerates every cadence slot between the first and the queried
    sample, so a channel must not span decades)"""
    j0 = 1500000000 // fc
    day = 86400 // fc
    js = set(range(j0, j0 + min(day, 400 if tier == "quick" else 2000)))
    if len(js) < day:
        js.update(j0 + rng.randrange(0, day) for _ in range(300 if tier == "quick" else 1000))
    groups = [("day-2017-07-14", sorted(js))]
    groups.append(("epoch", [0, 1, 2, 3]))
    groups.append(("name-gains-a-digit", [cdiv(10 ** 9, fc) + o for o in (-2, -1, 0, 1)]))
    for nm, base in (("subdir-edge", 1500000000), ("day-edge", 1500076800), ("leap-day-2000", 951782400),
                     ("year-2100", 4102444800)):
        jb = cdiv(cdiv(base, sc) * sc, fc)
        groups.append((nm, [jb + o for o in (-1, 0, 1) if jb + o >= 0]))
    return groups


def walk_samples(top):
    """index -> relative path of the file that holds it (h5py, independent of the reader)"""
    import h5py
    out = {}
    files = []
    for root, _dirs, fs in os.walk(top):
        for f in fs:
            if f == "dmd_properties.h5":
                continue
            p = os.path.join(root, f)
            r = os.path.relpath(p, top)
            files.append(r)
            with h5py.File(p, "r") as h:
                for key in h.keys():
                    out.setdefault(int(key), []).append(r)
    return out, sorted(files)


def model_paths(a, n, d, fc, sc, ks):
    return common.run_model("metadata", [[1, a, n, d, fc, sc, k] for k in ks])


def regenerate(res):
    """T7: placement arithmetic of digital_metadata.py -> coq/Gen/MdPlaceGen.v"""
    import sys
    sys.path.insert(0, os.path.join(common.VERIF, "translate"))
    import c2gallina
    import mdplace2gallina
    try:
        text = mdplace2gallina.translate(common.REPO)
    except c2gallina.Unsupported as e:
        res.broken.append("translator T7 (mdplace2gallina) rejects the current placement code: %s" % e)
        return
    common.write_if_changed(os.path.join(common.COQ, "Gen", "MdPlaceGen.v"), text)
    common.regenerate_with(res, "mdfront2gallina", "MdFrontGen.v", "T22: DigitalMetadataWriter.write / _write front end (verbatim guard)")


def run_config(res, n, d, fc, sc, ks, queries, stats):
    """one channel: write ks (ascending; singles and batches), then observe"""
    import digital_rf
    rng = res.rng
    top = common.scratch_dir()
    nf = common.number_form
    forms = [nf(rng, sc), nf(rng, fc), nf(rng, n), nf(rng, d)]
    arg_types = [type(x).__name__ for x in forms]      # how (subdir cadence, file cadence, numerator, denominator) are passed
    set_prefix(rng.choice(PREFIXES))
    w = digital_rf.DigitalMetadataWriter(common.path_form(top), forms[0], forms[1], forms[2], forms[3], PREFIX)
    # a reader opened on the channel while it is still empty (a monitor started together with the recorder): it must
    # find every sample in the file the writer puts it in, like a reader opened afterwards
    try:
        rd_early = digital_rf.DigitalMetadataReader(common.path_form(top))
    except Exception:  # noqa
        rd_early = None
    i = 0
    unsorted_call = {}
    call_form = {}
    # every third channel is recorded back to front in two halves: the later half first, then the monitor opened at the
    # start asks for the bounds and the latest sample, then the EARLIER half is back-filled (into earlier files and
    # subdirectories).  Where a sample is looked for does not depend on what the reader was asked before.
    sorted_ks = ks
    poll_at = None
    if len(ks) >= 4 and rng.random() < 0.34:
        h = len(ks) // 2
        ks = ks[h:] + ks[:h]
        poll_at = len(ks) - h
        res.count("channel-back-filled-after-a-poll")
    while i < len(ks):
        if poll_at is not None and i >= poll_at:
            poll_at = None
            if rd_early is not None:
                try:
                    rd_early.get_bounds()
                    rd_early.read_latest()
                    rd_early.read(ks[0], method="ffill")
                except Exception:  # noqa
                    pass
        m = rng.choice([1, 1, 2, 3, 5])
        chunk = ks[i:i + m]
        if poll_at is not None and i < poll_at < i + m:
            chunk = ks[i:poll_at]
        vals = list(range(i, i + len(chunk)))
        if len(chunk) >= 3 and rng.random() < 0.35:
            # the indices of one call in another order than ascending: two neighbours first and last, the rest between
            # them (a sample's file is a function of its index, not of its position in the call)
            a = rng.randrange(len(chunk) - 1)
            order = [a] + [t for t in range(len(chunk)) if t not in (a, a + 1)] + [a + 1]
            if rng.random() < 0.3:
                order.reverse()
            chunk, vals = [chunk[t] for t in order], [vals[t] for t in order]
            for x in chunk:
                unsorted_call[x] = list(chunk)
            res.count("write:call-not-ascending")
        # the form of the index list: Python ints, a list that MIXES numpy unsigned scalars with Python ints (what
        # `[reader_bound, k]` is in a caller's code), a uint64 array, a list of numpy scalars
        form = rng.randrange(5)
        sarg = chunk
        if form == 1 and len(chunk) >= 2:
            sarg = [np.uint64(c) if t % 2 == 0 else c for t, c in enumerate(chunk)]
        elif form == 2:
            sarg = np.array(chunk, dtype=np.uint64)
        elif form == 3:
            sarg = [np.uint64(c) for c in chunk]
        if form in (1, 2, 3):
            res.count("write:index-list-form-%d" % form)
            if len(chunk) >= 2:
                for x in chunk:
                    unsorted_call.setdefault(x, list(chunk))
                    call_form[x] = form
        try:
            if len(chunk) == 1 and rng.random() < 0.5:
                w.write(chunk[0] if form != 3 else np.uint64(chunk[0]), {"v": i})
            elif rng.random() < 0.5:
                w.write(sarg, {"v": vals})
            else:
                w.write(sarg, [{"v": v} for v in vals])
        except Exception as e:  # noqa
            res.violation("write-of-new-indices-refused", "a write of indices that were never written raises",
                          {"n": n, "d": d, "fc": fc, "sc": sc, "k": chunk[0], "call": list(chunk), "call_form": form if len(chunk) >= 2 else 0,
                           "arg_types": arg_types, "prefix": PREFIX}, "accepted", repr(e)[:200])
            return sorted(walk_samples(top)[1])
        i += len(chunk)
    ks = sorted_ks
    where, files = walk_samples(top)
    fileset = set(files)
    rd = digital_rf.DigitalMetadataReader(common.path_form(top))
    cfgi = {"n": n, "d": d, "fc": fc, "sc": sc, "arg_types": arg_types, "prefix": PREFIX}
    # ---- model (both variants) for every written sample
    mE = model_paths(0, n, d, fc, sc, ks)
    mL = model_paths(1, n, d, fc, sc, ks)
    mW = model_paths(2, n, d, fc, sc, ks)
    subs = sorted({m[0] for m in mE} | {m[0] for m in mL} | {m[0] for m in mW})
    parts = dict(zip(subs, common.run_model("metadata", [[3, s] for s in subs])))

    def mrel(m):
        y, mo, dd, hh, mi, ss = parts[m[0]]
        return "%04d-%02d-%02dT%02d-%02d-%02d/%s@%d.h5" % (y, mo, dd, hh, mi, ss, PREFIX, m[1])
    cand_cases = [[2, 0, n, d, fc, sc, k, k] for k in ks] + [[2, 0, n, d, fc, sc, a, b] for a, b in queries]
    cand_cases_l = [[c[0], 1] + c[2:] for c in cand_cases]
    candE = common.run_model("metadata", cand_cases)
    candL = common.run_model("metadata", cand_cases_l)
    allsubs = sorted({x for c in candE + candL for x in c[0::2]} - set(parts))
    parts.update(zip(allsubs, common.run_model("metadata", [[3, s] for s in allsubs])))

    def mlist(c):
        return [r for r in (mrel((c[t], c[t + 1])) for t in range(0, len(c), 2)) if r in fileset]
    for t, k in enumerate(ks):
        S, T = spec_path(n, d, fc, sc, k)
        exp = rel(S, T)
        got = where.get(k, [])
        j = T // fc
        onb = k in (cdiv(j * fc * n, d), cdiv((j + 1) * fc * n, d) - 1)
        res.case(("place", n, d, fc, sc, k), nontrivial=True)
        res.count("write:boundary-sample" if onb else "write:interior-sample")
        inp = dict(cfgi, k=k, others=[x for x in ks[max(0, t - 2):t + 3] if x != k])
        if k in unsorted_call:
            inp["call"] = unsorted_call[k]
            inp["call_form"] = call_form.get(k, 0)
        if got != [exp]:
            sig = "writer-file-not-exact" if [g.split("/")[1] for g in got] != [exp.split("/")[1]] \
                else "subdir-not-exact"
            res.violation(sig, "sample stored in a file other than <prefix>@floor(k*d/n) rounded down to the cadence",
                          inp, [exp], got)
        stats["E"] += (got == [mrel(mE[t])])
        stats["L"] += (got == [mrel(mL[t])])
        stats["W"] += (got == [mrel(mW[t])])
        stats["N"] += 1
        if k * d >= 2 ** 64:
            res.count("write:k*d>=2^64")
        if mE[t] != mL[t]:
            res.count("write:longdouble-variant-differs-here")
        if got != [mrel(mE[t])]:
            res.disagree("model (Exact variant) vs implementation: on-disk path of a sample", inp, mrel(mE[t]), got)
        # reader: file list and point read
        fl = [os.path.relpath(p, top) for p in rd._get_file_list(k, k)]
        stats["rE"] += (fl == mlist(candE[t]))
        stats["rL"] += (fl == mlist(candL[t]))
        stats["rN"] += 1
        if fl != mlist(candE[t]):
            res.disagree("model (Exact variant) vs implementation: _get_file_list(k, k)", inp, mlist(candE[t]), fl)
        if fl != [exp]:
            res.violation("reader-looks-in-other-file", "reader does not look for the sample in the exact file",
                          inp, [exp], fl)
        keys = [int(x) for x in rd.read(k, k).keys()]
        if keys != [k]:
            res.violation("reader-misses-sample" if got == [exp] else "writer-reader-disagree",
                          "read(k, k) does not return the written sample k", inp, [k], keys)
        if t % 3 == 1:
            # the forward-fill path looks for the same sample in the same file (it must not depend on a time computed in
            # floating point from the sample index)
            res.count("point-read:ffill")
            try:
                keysf = [int(x) for x in rd.read(k, k, method="ffill").keys()]
            except Exception as e:  # noqa
                keysf = repr(e)[:120]
            if keysf != [k]:
                res.violation("ffill-reader-misses-sample", "read(k, k, method='ffill') does not return the written sample k",
                              inp, [k], keysf)
        if rd_early is not None and t % 3 == 0:
            res.count("point-read:reader-opened-on-the-empty-channel")
            try:
                fl2 = [os.path.relpath(p, top) for p in rd_early._get_file_list(k, k)]
                keys2 = [int(x) for x in rd_early.read(k, k).keys()]
            except Exception as e:  # noqa
                fl2, keys2 = repr(e)[:120], None
            if keys2 != [k]:
                res.violation("early-reader-misses-sample", "a reader opened while the channel was still empty does not find the "
                              "written sample k (it looks in %r)" % (fl2,), dict(inp, reader="opened before the first write"), [k], keys2)
            try:
                keys3 = [int(x) for x in rd_early.read(k, k, method="ffill").keys()]
            except Exception as e:  # noqa
                keys3 = repr(e)[:120]
            if keys3 != [k]:
                res.violation("early-reader-misses-sample", "a reader opened while the channel was still empty (and polled before "
                              "earlier samples were back-filled) does not find the written sample k by a forward-fill read",
                              dict(inp, reader="opened before the first write", method="ffill"), [k], keys3)
    if rd_early is not None and ks:
        try:
            b_e = tuple(int(x) for x in rd_early.get_bounds())
        except Exception as e:  # noqa
            b_e = repr(e)[:120]
        if b_e != (min(ks), max(ks)):
            res.violation("early-reader-bounds-wrong", "a reader opened while the channel was still empty reports other bounds than "
                          "the first and last written index", dict(cfgi, k=min(ks), others=sorted(ks)[:6], reader="opened before the first write"),
                          [min(ks), max(ks)], b_e)
    # ---- range queries
    sks = sorted(ks)
    for qi, (a, b) in enumerate(queries):
        c = candE[len(ks) + qi]
        fl = [os.path.relpath(p, top) for p in rd._get_file_list(a, b)]
        res.case(("range", n, d, fc, sc, a, b), nontrivial=True)
        res.count("query:range")
        inp = dict(cfgi, k=a, end=b, written=[x for x in sks if a - 3 <= x <= b + 3][:40])
        Ta, Tb = spec_path(n, d, fc, sc, a)[1], spec_path(n, d, fc, sc, b)[1]
        expfl = [f for f in files if Ta <= int(f.split("@")[1][:-3]) <= Tb]
        expfl.sort(key=lambda f: int(f.split("@")[1][:-3]))
        stats["rE"] += (fl == mlist(c))
        stats["rL"] += (fl == mlist(candL[len(ks) + qi]))
        stats["rN"] += 1
        if fl != mlist(c):
            res.disagree("model (Exact variant) vs implementation: _get_file_list(a, b)", inp, mlist(c), fl)
        if fl != expfl:
            res.violation("reader-file-list-not-exact", "reader candidate files differ from the exact cadence slots",
                          inp, expfl, fl)
        keys = [int(x) for x in rd.read(a, b).keys()]
        exp = [x for x in sks if a <= x <= b]
        if keys != exp:
            res.violation("range-read-wrong", "read(a, b) differs from the written indices in [a, b]", inp, exp, keys)
    if sks:
        res.case(("latest", n, d, fc, sc, sks[-1]))
        res.count("query:read_latest")
        try:
            keys = [int(x) for x in rd.read_latest().keys()]
        except Exception as e:  # noqa
            keys = ["exc", repr(e)]
        if keys != [sks[-1]]:
            res.violation("latest-wrong", "read_latest() is not the sample with the highest index",
                          dict(cfgi, k=sks[-1], others=sks[-4:-1]), [sks[-1]], keys)
    return files


def tree_hash(top):
    import hashlib
    out = {}
    for root, dirs, files in os.walk(top):
        dirs.sort()
        out[os.path.relpath(root, top) + "/"] = "dir"
        for f in sorted(files):
            with open(os.path.join(root, f), "rb") as fh:
                out[os.path.relpath(os.path.join(root, f), top)] = hashlib.sha1(fh.read()).hexdigest()
    return out


def run_sessions(res, n, d, fc, sc):
    """two writer sessions on one channel: re-opening with identical parameters must be accepted and keep
    one placement rule; re-opening with any single parameter changed must be refused, tree untouched"""
    import shutil
    import digital_rf
    W = digital_rf.DigitalMetadataWriter
    # harness assumption: the scratch build's development version (0.1.devN) makes the unmodified writer
    # refuse to re-open ANY existing channel; give it the version window of a released package
    if W._max_version < W._writer_version:
        W._max_version = W._writer_version
    rng = res.rng
    cfgi = {"n": n, "d": d, "fc": fc, "sc": sc}
    top = common.scratch_dir()
    j0 = 1500000000 // fc + rng.randrange(0, 86400 // fc)
    w = W(top, sc, fc, n, d, PREFIX)
    ks1 = sorted({k for j in (j0, j0 + 1) for k in
                  (cdiv(j * fc * n, d), cdiv(j * fc * n, d) + 1, (cdiv(j * fc * n, d) + cdiv((j + 1) * fc * n, d)) // 2,
                   cdiv((2 * j + 1) * fc * n, 2 * d), cdiv((j + 1) * fc * n, d) - 1)})
    w.write(ks1, {"v": list(range(len(ks1)))})
    del w
    res.count("sessions:channels")
    # ---- (b) every single-parameter change is refused, on a copy of the directory
    changes = [("file_cadence_secs", dict(fc=f2)) for f2 in (fc * 2, fc // 2, fc // 3, fc + 1) if f2 >= 1 and f2 != fc and sc % f2 == 0]
    changes += [("subdir_cadence_secs", dict(sc=s2)) for s2 in (sc * 2, sc // 2, 86400 if sc != 86400 else 3600) if s2 % fc == 0 and s2 != sc]
    changes += [("sample_rate_numerator", dict(n=n + 1)), ("sample_rate_denominator", dict(d=d + 1)),
                ("file_name", dict(prefix=PREFIX + "x"))]
    for what, ch in changes:
        cp = common.scratch_dir()
        shutil.rmtree(cp)
        shutil.copytree(top, cp)
        p2 = dict(n=n, d=d, fc=fc, sc=sc, prefix=PREFIX)
        p2.update(ch)
        h0 = tree_hash(cp)
        try:
            w2 = W(cp, p2["sc"], p2["fc"], p2["n"], p2["d"], p2["prefix"])
            got = "accepted"
        except ValueError as e:
            w2, got = None, "ValueError" if "Mismatched" in str(e) else repr(e)
        except Exception as e:  # noqa
            w2, got = None, repr(e)
        h1 = tree_hash(cp)
        res.case(("reopen", n, d, fc, sc, what, tuple(sorted(ch.items()))), nontrivial=True)
        res.count("sessions:reopen-with-different-" + what)
        inp = dict(cfgi, k=ks1[-1], others=ks1, reopen=p2, what=what)
        if what != "file_name":
            m = common.run_model("metadata", [[30, n, d, fc, sc, p2["n"], p2["d"], p2["fc"], p2["sc"]]])[0]
            if (m == [1]) != (got == "accepted"):
                res.disagree("model (open_writer) vs implementation: re-opening a channel", inp, m, got)
        if got != "ValueError" or h0 != h1:
            lost = []
            if w2 is not None:
                del w2
                rd = digital_rf.DigitalMetadataReader(cp)
                lost = [k for k in ks1 if [int(x) for x in rd.read(k, k).keys()] != [k]]
            res.violation("reopen-with-different-parameters-accepted",
                          "a second writer with a different %s was not refused (or touched the channel); readers "
                          "then look for earlier samples in other files" % what, inp,
                          {"constructor": "ValueError(Mismatched ...)", "tree": "unchanged", "samples_not_found": []},
                          {"constructor": got, "tree": "unchanged" if h0 == h1 else "changed", "samples_not_found": lost})
    # ---- (a) identical parameters: accepted; old and new samples at their exact files, duplicates refused
    inp = dict(cfgi, k=ks1[-1], others=ks1, reopen=dict(n=n, d=d, fc=fc, sc=sc, prefix=PREFIX), what="identical")
    res.case(("reopen", n, d, fc, sc, "identical"), nontrivial=True)
    res.count("sessions:reopen-identical")
    try:
        w = W(top, sc, fc, n, d, PREFIX)
    except Exception as e:  # noqa
        res.violation("reopen-identical-refused", "a second writer with identical parameters was refused", inp,
                      "accepted", repr(e))
        return
    if common.run_model("metadata", [[30, n, d, fc, sc, n, d, fc, sc]])[0] != [1]:
        res.disagree("model (open_writer) refuses identical parameters", inp, 0, 1)
    ks2 = [ks1[-1] + 1, ks1[-1] + 2, cdiv((j0 + 2) * fc * n, d), cdiv((j0 + 3) * fc * n, d) - 1]
    ks2 = sorted(set(ks2) - set(ks1))
    w.write(ks2, [{"v": 100 + t} for t in range(len(ks2))])
    try:
        w.write(ks1[0], {"v": -1})
        dup = "accepted"
    except IOError:
        dup = "IOError"
    if dup != "IOError":
        res.violation("duplicate-across-sessions-accepted", "a sample written in an earlier session was overwritten",
                      inp, "IOError", dup)
    where, _files = walk_samples(top)
    rd = digital_rf.DigitalMetadataReader(common.path_form(top))
    for k in ks1 + ks2:
        exp = rel(*spec_path(n, d, fc, sc, k))
        keys = [int(x) for x in rd.read(k, k).keys()]
        res.case(("session-sample", n, d, fc, sc, k), nontrivial=True)
        res.count("sessions:sample-checked")
        if where.get(k) != [exp] or keys != [k]:
            res.violation("session-placement-differs", "after re-opening, a sample is not in / not found in its exact file",
                          dict(inp, k=k), [exp, [k]], [where.get(k), keys])
    vals = [int(v["v"]) for v in rd.read(ks1[0], (ks1 + ks2)[-1]).values()]
    if vals != list(range(len(ks1))) + [100 + t for t in range(len(ks2))]:
        res.violation("session-values-differ", "samples of the two sessions do not read back in order with their values",
                      inp, list(range(len(ks1))) + [100 + t for t in range(len(ks2))], vals)


def raise_stack_limit():
    """the extracted model recurses over candidate-file lists (one element per cadence slot, 86400 per
    day at 1 s cadence); child processes inherit the limit"""
    import resource
    soft, hard = resource.getrlimit(resource.RLIMIT_STACK)
    try:
        resource.setrlimit(resource.RLIMIT_STACK, (hard, hard))
    except (ValueError, OSError):
        pass


def run(res):
    common.use_impl()
    raise_stack_limit()
    rng = res.rng
    quick = res.tier == "quick"
    res.rule = ("channels over rates {10^8/7,10^9/7,10^6/3,200/3,25e6/3,1,100} and {10^11/1001,20000000123/1000,"
                "12345678901/10} (present-day k*d >= 2^64) x file cadences {1,3,60,3600} x "
                "subdir cadences {3600,86400}; samples k = ceil(j*cadence*n/d)+{-1,0,1} for file numbers j of a "
                "day from 2017-07-14 plus epoch / digit-change / subdirectory / leap-day edges, preferring the j "
                "on which the LongDouble variant of the model differs from the exact one; written as singles and "
                "as batches straddling the boundary (dict and list forms); observed: on-disk path (h5py walk), "
                "_get_file_list(k,k), read(k,k), range reads, read_latest; non-trivial = distinct (config, k) or "
                "(config, range)")
    stats = {"E": 0, "L": 0, "W": 0, "N": 0, "rE": 0, "rL": 0, "rN": 0}
    nmodel = 0
    per_cfg = 30 if quick else 60
    first = True
    ci = 0
    allrates = RATES + BIG_RATES
    for (n, d) in allrates:
        for fc in (FCS if (n, d) in RATES or not quick else [FCS[(allrates.index((n, d)) + t) % 4] for t in (0, 2)]):
            # (1 s files in day-long subdirectories make every candidate list 86400 long: one rate only in thorough)
            for sc in ((SCS if fc > 1 or (n, d) == RATES[0] else SCS[:1]) if not quick
                       else [SCS[(FCS.index(fc) + allrates.index((n, d))) % 2]]):
                ci += 1
                groups = boundary_groups(rng, fc, sc, res.tier)
                if quick:   # the day group plus one rotating edge group
                    groups = [groups[0], groups[1 + ci % (len(groups) - 1)]]
                for gname, js in groups:
                    allk = sorted({k for j in js for k in (cdiv(j * fc * n, d) + o for o in (-1, 0, 1)) if k >= 0})
                    # model on all of them, both variants; exact variant against the statement (cheap, high volume)
                    mE = model_paths(0, n, d, fc, sc, allk)
                    mL = model_paths(1, n, d, fc, sc, allk)
                    nmodel += len(allk)
                    for k, m in zip(allk, mE):
                        if tuple(m) != spec_path(n, d, fc, sc, k):
                            res.disagree("model (Exact variant) vs big-integer statement", [n, d, fc, sc, k], m,
                                         spec_path(n, d, fc, sc, k))
                            break
                    hot = [k for k, a, b in zip(allk, mE, mL) if a != b]
                    res.count("model:points-where-longdouble-variant-is-wrong", len(hot))
                    hotj = sorted({spec_path(n, d, fc, sc, k)[1] // fc for k in hot} & set(js))
                    rng.shuffle(hotj)
                    edge = [j for j in js if (j * fc) % sc == 0 or ((j + 1) * fc) % sc == 0][:6]
                    pick = set(hotj[:per_cfg // 2]) | set(edge)
                    rest = [j for j in js if j not in pick]
                    rng.shuffle(rest)
                    pick |= set(rest[:max(0, per_cfg - len(pick))])
                    ks = sorted({k for j in pick for k in (cdiv(j * fc * n, d) + o for o in (-1, 0, 1)) if k >= 0})
                    if (n, d, fc) == (WITNESS["n"], WITNESS["d"], WITNESS["fc"]) and gname.startswith("day"):
                        ks = sorted(set(ks) | {WITNESS["k"] - 1, WITNESS["k"], WITNESS["k"] + 1})
                    queries = []
                    lim = min(3 * sc, 500 * fc) * n // d          # keep the candidate enumeration small
                    for _ in range(12 if quick else 40):
                        a = rng.choice(ks) + rng.choice([-1, 0, 0, 1])
                        near = [x for x in ks if a <= x <= a + lim]
                        b = rng.choice([a, a + 1, rng.choice(near or [a]), rng.choice(near or [a]) + 1,
                                        a + rng.randrange(0, lim + 1)])
                        if 0 <= a <= b:
                            queries.append((a, b))
                    files = run_config(res, n, d, fc, sc, ks, queries, stats)
                    res.count("channels")
                    res.count("group:" + gname)
                    res.count("files", len(files))
                    if first:
                        res.sample({"config": [n, d, fc, sc], "k": ks[len(ks) // 2],
                                    "path": rel(*spec_path(n, d, fc, sc, ks[len(ks) // 2]))})
                    first = False
    # ---- writer sessions (re-open with identical / changed parameters)
    sess = [(200, 3, 60, 3600), (10 ** 8, 7, 3, 3600), (10 ** 6, 3, 3600, 86400), (10 ** 11, 1001, 60, 86400),
            (1, 1, 1, 3600), (25 * 10 ** 6, 3, 60, 3600)]
    for (n, d, fc, sc) in (sess[:4] if quick else sess + [(nn, dd, f, s) for (nn, dd) in RATES[:4] for f in (3, 60) for s in SCS]):
        run_sessions(res, n, d, fc, sc)
    res.extra["model_points_checked_against_statement"] = nmodel
    res.extra["variant_agreement"] = dict(stats)
    exact_ok = stats["E"] == stats["N"] and stats["rE"] == stats["rN"]
    ld_ok = stats["L"] == stats["N"] and stats["rL"] == stats["rN"]
    res.extra["variant_selected"] = "Exact" if exact_ok else ("LongDouble" if ld_ok else "none")
    if not exact_ok and stats["W"] == stats["N"]:
        res.extra["variant_selected"] = "writer=U64Wrap"
        res.notes.append("the writer agrees with the U64Wrap variant (k*d evaluated modulo 2^64) on every case: "
                         "C13_u64wrap_variant_refuted applies")
    if not exact_ok and ld_ok:
        res.notes.append("the implementation agrees with the LongDouble (pre-fix) variant on every case: "
                         "C13_longdouble_variant_refuted applies; witness n=1e8 d=7 cadence=3 k=21428571600000000")
    # ---- names: guard the extraction / name model by vm_compute on a sample
    subs = [1499997600, 0, 951782400, 4102444800, 1500076800, 86400 * 365]
    vm = common.run_model_vm("From DRF Require Import Base.Dec Model.MdPlace.\nFrom Coq Require Import String.",
                             ["codes (subdir_name %d)" % s for s in subs] +
                             ['codes (file_basename "%s" %d)' % (PREFIX, t) for t in (0, 999999999, 1500000012)] +
                             ["(let '(a, b) := w_path Exact (mkCfg 100000000 7 3 3600) 21428571600000000 in [a; b])",
                              "(let '(a, b) := w_path LongDouble (mkCfg 100000000 7 3 3600) 21428571600000000 in [a; b])"])
    exp = [list(sub_name(s).encode()) for s in subs] + \
          [list(("%s@%d.h5" % (PREFIX, t)).encode()) for t in (0, 999999999, 1500000012)] + \
          common.run_model("metadata", [[1, 0, 10 ** 8, 7, 3, 3600, WITNESS["k"]], [1, 1, 10 ** 8, 7, 3, 3600, WITNESS["k"]]])
    res.count("vm_compute_crosscheck", len(vm))
    if vm != exp:
        res.disagree("name model / extraction vs vm_compute vs strftime", None, vm, exp)
    for s in subs:
        assert calendar.timegm(datetime.datetime.strptime(sub_name(s), "%Y-%m-%dT%H-%M-%S").timetuple()) == s
    res.extra["traces_validated_against_impl"] = res.evaluations
    res.assumptions += [
        "sample indices 0 <= k < 2^63 and times before year 9999 (np.uint64 / np.int64 conversions in write/read are not modelled)",
        "no bound on k*d: the code computes int(s)*d//n in Python integers (unbounded), which is Z arithmetic; rates with "
        "present-day k*d >= 2^64 are generated on every run and a 64-bit evaluation is kept as the refuted U64Wrap variant",
        "Python int // and * are Coq Z.div / Z.mul on non-negative operands; h5py/os path handling is glue covered by the correspondence",
        "writer sessions: DigitalMetadataWriter._max_version is raised to the writer's format version (2.5) inside the "
        "harness, as in a released package; the scratch build's 0.1.devN version would otherwise refuse every re-open",
        "the LongDouble variant (Model/Ld80.v) models x87 80-bit round-to-nearest-even for positive normal values only; used for the pre-fix code, not for any theorem about the current code",
    ]
    res.trusted.append("Base/Civil.v as the model of datetime.strftime (compared on every subdirectory name each run)")


def replay(res, rp):
    common.use_impl()
    import digital_rf
    i = rp["input"]
    n, d, fc, sc, k = i["n"], i["d"], i["fc"], i["sc"], i["k"]
    top = common.scratch_dir()
    if "reopen" in i:
        W = digital_rf.DigitalMetadataWriter
        if W._max_version < W._writer_version:
            W._max_version = W._writer_version
        w = W(top, sc, fc, n, d, PREFIX)
        w.write(i["others"], {"v": list(range(len(i["others"])))})
        del w
        p2 = i["reopen"]
        h0 = tree_hash(top)
        try:
            W(top, p2["sc"], p2["fc"], p2["n"], p2["d"], p2["prefix"])
            got = "accepted"
        except ValueError as e:
            got = "ValueError: %s" % e
        same = p2 == dict(n=n, d=d, fc=fc, sc=sc, prefix=PREFIX)
        print("channel n=%d d=%d file_cadence=%d subdir_cadence=%d prefix=%s with %d samples; second writer with %s"
              % (n, d, fc, sc, PREFIX, len(i["others"]), p2))
        print(" constructor ->", got, "; tree", "unchanged" if tree_hash(top) == h0 else "CHANGED",
              "; required:", "accepted" if same else "ValueError(Mismatched ...), tree unchanged")
        rd = digital_rf.DigitalMetadataReader(common.path_form(top))
        lost = [x for x in i["others"] if [int(y) for y in rd.read(x, x).keys()] != [x]]
        print(" samples a new reader no longer finds:", lost)
        bad = (got == "accepted") != same or tree_hash(top) != h0 and not same or bool(lost)
        print("REPRODUCED" if bad else "not reproduced")
        return 1 if bad else 0
    at = i.get("arg_types") or ["int"] * 4
    F = common.number_from_form
    set_prefix(i.get("prefix") or "metadata")
    print("subdir cadence, file cadence, numerator, denominator passed as", at, "; file name prefix", repr(PREFIX))
    w = digital_rf.DigitalMetadataWriter(top, F(at[0], sc), F(at[1], fc), F(at[2], n), F(at[3], d), PREFIX)
    ks = sorted(set([k] + list(i.get("others", [])) + list(i.get("written", []))))
    call = [int(x) for x in i.get("call") or []]
    if call:
        cf = i.get("call_form", 0)
        carg = call
        if cf == 1:
            carg = [np.uint64(c) if t % 2 == 0 else c for t, c in enumerate(call)]
        elif cf == 2:
            carg = np.array(call, dtype=np.uint64)
        elif cf == 3:
            carg = [np.uint64(c) for c in call]
        print("written in ONE call, in this order:", call, {0: "(Python ints)", 1: "(numpy uint64 scalars and Python ints mixed)",
                                                              2: "(a uint64 array)", 3: "(a list of numpy uint64 scalars)"}[cf])
        w.write(carg, {"v": list(range(len(call)))})
    for x in ks:
        if x not in call:
            w.write(x, {"v": 1})
    ks = sorted(set(ks) | set(call))
    where, files = walk_samples(top)
    rd = digital_rf.DigitalMetadataReader(common.path_form(top))
    S, T = spec_path(n, d, fc, sc, k)
    print("config n=%d d=%d file_cadence=%d subdir_cadence=%d  sample k=%d  floor(k*d/n)=%d" % (n, d, fc, sc, k, k * d // n))
    print(" required file :", rel(S, T))
    print(" stored in     :", where.get(k))
    print(" reader looks in:", [os.path.relpath(p, top) for p in rd._get_file_list(k, i.get("end", k))])
    got = [int(x) for x in rd.read(k, i.get("end", k)).keys()]
    exp = [x for x in ks if k <= x <= i.get("end", k)]
    print(" read(%d, %d) ->" % (k, i.get("end", k)), got, " required:", exp)
    bad = where.get(k) != [rel(S, T)] or got != exp
    print("REPRODUCED" if bad else "not reproduced")
    return 1 if bad else 0
