"""C17 -- mirror fidelity, staged publication, no loss in move mode.
Proof over a protocol model (Model/Mirror.v: mirror_to_dest as a sequence of atomic file-system
operations, the handler set per method, the count=1 ring buffer on source metadata).  Tie: the REAL
DigitalRFMirror handler set (observer never started) driven by dispatch() on real files, for copy /
move / link, same and different file systems: after every event the source tree, the destination tree
(including tmp. names) and the ring buffer's records are compared with the extracted model, the
mirror's own file-system calls (copyfile, link, rename, unlink, remove) are traced in-process and
compared with the model's operation sequence, and the property oracle is evaluated on snapshots taken
before / in the middle of / after every such call."""
import errno
import os
import shutil
import tempfile

import common

T0 = 1500000000
SUB = "2017-07-14T02-00-00"
RFCH = {0: "ch0", 2: "a/ch1"}                 # even groups: RF channels
MDCH = {1: "ch0/metadata", 3: "md2"}          # odd groups: metadata channels
NKEYS = 4
LEVEL = "proof"


def regenerate(res):
    """T15: the handler list DigitalRFMirror.__init__ builds -> coq/Gen/MirrorInitGen.v"""
    import sys
    sys.path.insert(0, os.path.join(common.VERIF, "translate"))
    import c2gallina
    import mirrorinit2gallina
    try:
        text = mirrorinit2gallina.translate(common.REPO)
    except c2gallina.Unsupported as e:
        res.broken.append({"what": "T15 translator: DigitalRFMirror.__init__ left the supported shape", "log": str(e)})
        return
    except Exception as e:  # noqa
        res.broken.append({"what": "T15 translator failed", "log": repr(e)})
        return
    common.write_if_changed(os.path.join(common.COQ, "Gen", "MirrorInitGen.v"), text)
    res.trusted.append("translate/mirrorinit2gallina.py (T15: handler list of DigitalRFMirror.__init__ from Python's ast, fail-closed)")
    # the mirror's handlers inherit DigitalRFEventHandler.dispatch: T2 (patterns) + T19 (__init__ / dispatch)
    from props import c15 as _c15
    _c15.regenerate(res)
    common.regenerate_with(res, "mirrordest2gallina", "MirrorDestGen.v", "T20: DigitalRFMirrorHandler.mirror_to_dest")
METH = {0: "copy", 1: "move", 2: "link"}


def key_of(j):
    return (T0 + j) * 1000


def rel(p):
    g, k, s = p
    if g >= 0:
        if g % 2 == 0:
            return os.path.join(RFCH[g], SUB, "rf@%d.%03d.h5" % divmod(k, 1000))
        return os.path.join(MDCH[g], SUB, "metadata@%d.h5" % (k // 1000))
    if g == -1:
        return os.path.join(RFCH[s], "drf_properties.h5")
    if g == -2:
        return os.path.join(MDCH[s], "dmd_properties.h5")
    if k == 0:
        return os.path.join(RFCH[s], SUB, "tmp.rf@%d.000.h5" % T0)       # what a writer stages
    return os.path.join(RFCH[s], "notes.txt")


def content(p, c):
    r = rel(tuple(p)).encode()
    return r + b"|%d|" % c + bytes((c * 7 + i) % 251 for i in range(40 + (c * 37) % 300))


def all_paths():
    ps = [(g, key_of(j), 0) for g in (0, 2, 1, 3) for j in range(NKEYS)]
    ps += [(-1, 0, 0), (-1, 0, 2), (-2, 0, 1), (-2, 0, 3), (-3, 0, 0), (-3, 1, 0)]
    return ps


def kind(p):
    g = p[0]
    return "rf" if g >= 0 and g % 2 == 0 else "md" if g >= 0 else "prop" if g in (-1, -2) else "other"


FLAGS = [(True, True), (True, False), (False, True)]       # (include_drf, include_dmd), at least one


def selected(flags, p):
    """is p of a selected kind: RF data and drf_properties with include_drf, metadata and dmd_properties with include_dmd"""
    g = p[0]
    if g >= 0:
        return flags[0] if g % 2 == 0 else flags[1]
    return flags[0] if g == -1 else flags[1] if g == -2 else False


# ----------------------------------------------------------------------------- implementation side

def scratch_pair(cross):
    """(src top, dest top); cross=True puts them on different file systems when possible"""
    base = common.scratch_dir("drfc17-")
    if cross and os.path.isdir("/dev/shm") and os.access("/dev/shm", os.W_OK):
        import atexit
        other = tempfile.mkdtemp(prefix="drfc17-", dir="/dev/shm")      # auto-removed, like common.scratch_dir
        atexit.register(shutil.rmtree, other, True)
        _SHM.append(other)
        if os.stat(other).st_dev != os.stat(base).st_dev:
            return os.path.join(other, "src"), os.path.join(base, "dest")
    return os.path.join(base, "src"), os.path.join(base, "dest")


def read_tree(top):
    out = {}
    for root, _d, files in os.walk(top):
        for f in files:
            p = os.path.join(root, f)
            try:
                with open(p, "rb") as fh:
                    out[os.path.relpath(p, top)] = fh.read()
            except OSError:
                pass
    return out


class Impl:
    def __init__(self, cross):
        common.use_impl()
        from digital_rf import mirror as mm
        from watchdog import events
        self.mm, self.ev = mm, events
        self.src, self.dest = scratch_pair(cross)
        os.makedirs(self.src, exist_ok=True)
        os.makedirs(self.dest, exist_ok=True)
        self.same_fs = os.stat(self.src).st_dev == os.stat(self.dest).st_dev
        self.relmap = {rel(p): p for p in all_paths()}
        self.snap_cb = None
        self.log = []

    def reset(self, meth, flags=(True, True)):
        """every third history has its source directory reached through a symbolic link (/data -> /mnt/disk1/data):
        events and listings carry the link's spelling, and relative paths under the destination must not change"""
        self.flags = tuple(flags)
        self.nreset = getattr(self, "nreset", 0) + 1
        self.src_symlinked = (self.nreset % 3 == 0) if getattr(self, "force_symlink", None) is None else self.force_symlink
        real = self.src + "_real"
        if os.path.islink(self.src):
            os.unlink(self.src)
        for top in (self.src, self.dest, real):
            shutil.rmtree(top, ignore_errors=True)
        os.makedirs(self.dest)
        if self.src_symlinked:
            os.makedirs(real)
            os.symlink(real, self.src)
        else:
            os.makedirs(self.src)
        cls = self.mm.DigitalRFMirror
        orig = cls._init_observer
        cls._init_observer = lambda _self: None          # never create or start observer threads
        try:
            self.mirror = cls(self.src, self.dest, method=METH[meth], include_drf=flags[0], include_dmd=flags[1])
        finally:
            cls._init_observer = orig
        self.meth = meth

    # ---- tracing of the mirror's own file-system calls
    def _patched(self):
        impl = self
        real = {"rename": os.rename, "link": os.link, "unlink": os.unlink, "remove": os.remove,
                "copyfile": shutil.copyfile}

        def snap(tag):
            if impl.snap_cb:
                impl.snap_cb(tag)

        def rename(a, b, *x, **k):
            snap("before")
            # fault leg: the k-th publishing rename (tmp.<name> -> <name> under the destination) fails once
            if getattr(impl, "fail_publish_at", 0) and str(b).startswith(impl.dest + os.sep) and \
                    os.path.basename(str(a)).startswith("tmp."):
                impl.publish_count = getattr(impl, "publish_count", 0) + 1
                if impl.publish_count == impl.fail_publish_at:
                    impl.log.append(("rename-failed", a, b))
                    raise OSError(errno.ENOSPC, "No space left on device (injected)", b)
            r = real["rename"](a, b, *x, **k)
            impl.log.append(("rename", a, b))
            snap("after")
            return r

        def link(a, b, *x, **k):
            snap("before")
            r = real["link"](a, b, *x, **k)
            impl.log.append(("link", a, b))
            snap("after")
            return r

        def unlink(a, *x, **k):
            snap("before")
            r = real["unlink"](a, *x, **k)
            impl.log.append(("unlink", a))
            snap("after")
            return r

        def remove(a, *x, **k):
            snap("before")
            r = real["remove"](a, *x, **k)
            impl.log.append(("remove", a))
            snap("after")
            return r

        def copyfile(a, b, *x, **k):
            snap("before")
            # as the real shutil.copyfile: copying a file onto itself (two names of one inode, or a link to it) is refused
            try:
                same = os.path.exists(b) and os.path.samefile(a, b)
            except OSError:
                same = False
            if same:
                raise shutil.SameFileError("%r and %r are the same file" % (a, b))
            with open(a, "rb") as fa:
                data = fa.read()
            with open(b, "wb") as fb:               # the file exists under its name before it is complete
                fb.write(data[:len(data) // 2])
                fb.flush()
                snap("mid-copy")
                fb.write(data[len(data) // 2:])
            impl.log.append(("copy", a, b))
            snap("after")
            return b
        return real, {"rename": rename, "link": link, "unlink": unlink, "remove": remove, "copyfile": copyfile}

    def dispatch(self, ev):
        """one event to every handler in event_handlers order; returns exception text or None"""
        def go():
            for hd in self.mirror.event_handlers:
                hd.dispatch(ev)
        return self.traced(go)

    def replay_existing(self):
        """DigitalRFMirror.start() with the observer stubbed out: the real start-up replay of the files
        already in the source.  Returns (exception text or None, the replayed paths in order)."""
        class _NoObserver(object):
            def start(self):
                pass
        self.mirror.observer = _NoObserver()
        h0 = self.mirror.event_handlers[0]
        orig = h0.dispatch
        seen = []

        def logging_dispatch(ev, **kw):
            seen.append(ev.src_path)
            return orig(ev, **kw)
        h0.dispatch = logging_dispatch
        try:
            exc = self.traced(self.mirror.start)
        finally:
            del h0.dispatch
        out = []
        for pth in seen:
            r = os.path.relpath(pth, self.src)
            out.append(self.relmap.get(r, r))
        return exc, out

    def traced(self, fn):
        self.log = []
        real, fake = self._patched()
        os.rename, os.link, os.unlink, os.remove = fake["rename"], fake["link"], fake["unlink"], fake["remove"]
        shutil.copyfile = fake["copyfile"]
        devnull = open(os.devnull, "w")
        import sys
        so = sys.stdout
        sys.stdout = devnull
        try:
            fn()
        except Exception as e:  # noqa
            return "%s: %s" % (type(e).__name__, e)
        finally:
            sys.stdout = so
            devnull.close()
            os.rename, os.link, os.unlink, os.remove = real["rename"], real["link"], real["unlink"], real["remove"]
            shutil.copyfile = real["copyfile"]
        return None

    def apply(self, e):
        S = lambda p: os.path.join(self.src, rel(tuple(p)))
        k = e[0]
        self.log = []
        if k == "W":
            p = S(e[1])
            os.makedirs(os.path.dirname(p), exist_ok=True)
            # rewrite in place (same inode), as a metadata writer appends to its file
            with open(p, "wb") as f:
                f.write(content(e[1], e[2]))
            return None
        if k == "X":
            try:
                os.remove(S(e[1]))
            except OSError:
                pass
            return None
        ev = self.ev
        if k == "C":
            return self.dispatch(ev.FileCreatedEvent(S(e[1])))
        if k == "M":
            return self.dispatch(ev.FileModifiedEvent(S(e[1])))
        if k == "D":
            return self.dispatch(ev.FileDeletedEvent(S(e[1])))
        if k == "V":
            return self.dispatch(ev.FileMovedEvent(S(e[1]), S(e[2])))
        raise ValueError(k)

    def ring_records(self):
        for hd in self.mirror.event_handlers:
            if hasattr(hd, "records"):
                return sorted(os.path.relpath(p, self.src) for p in hd.records)
        return []


def canon_impl(impl, exc):
    """state in the model's vocabulary; unknown names stay strings, unknown contents are flagged"""
    def ident(r, data, tree):
        t = r
        tmp = 0
        d, b = os.path.split(r)
        if b.startswith("tmp.") and os.path.join(d, b[4:]) in impl.relmap and tree == "dst":
            tmp, r2 = 1, os.path.join(d, b[4:])
            t = impl.relmap[r2]
        elif r in impl.relmap:
            t = impl.relmap[r]
        else:
            return tmp, r, "?", 0
        for c in range(0, 64):
            if content(t, c) == data:
                return tmp, list(t), c, 1
        for c in range(0, 64):
            full = content(t, c)
            if data == full[:len(full) // 2]:
                return tmp, list(t), c, 0
        return tmp, list(t), "?", 0
    src = sorted([[ident(r, d, "src")[1], ident(r, d, "src")[2]] for r, d in read_tree(impl.src).items()], key=repr)
    dst = sorted([list(ident(r, d, "dst")) for r, d in read_tree(impl.dest).items()], key=repr)
    ring = sorted([list(impl.relmap.get(r, r)) for r in impl.ring_records()], key=repr)
    return {"src": src, "dst": dst, "ring": ring, "err": 1 if exc else 0}


def impl_fsops(impl):
    """the traced calls in the vocabulary of the model's operation codes"""
    out = []

    def name(path):
        for top, tag in ((impl.src, None), (impl.dest, "dest:")):
            if path.startswith(top + os.sep):
                r = os.path.relpath(path, top)
                t = impl.relmap.get(r)
                if tag is None:
                    return list(t) if t else r
                return tag + r
        return path
    for rec in impl.log:
        op, a = rec[0], rec[1]
        insrc = a.startswith(impl.src + os.sep)
        if op == "rename":
            if insrc:
                out.append(["renamein", name(a)])
            else:
                rb = os.path.relpath(rec[2], impl.dest)
                out.append(["rename", list(impl.relmap[rb]) if rb in impl.relmap else "dest:" + rb])
        else:
            out.append([op, name(a)])
    return out


# ----------------------------------------------------------------------------- model side

def enc_event(e):
    k = e[0]
    if k == "W":
        return [1] + list(e[1]) + [e[2]]
    if k == "X":
        return [2] + list(e[1])
    if k in ("C", "M", "D"):
        return [{"C": 3, "M": 4, "D": 5}[k]] + list(e[1])
    if k == "V":
        return [6] + list(e[1]) + list(e[2])
    raise ValueError(k)


def enc_history(meth, same_fs, evs, flags=(True, True)):
    out = [1, meth, int(same_fs), int(same_fs), int(flags[0]), int(flags[1])]
    for e in evs:
        out += enc_event(e)
    return out


def parse_dump(flat, n):
    it = iter(flat)
    nx = lambda: next(it)
    P = lambda: [nx(), nx(), nx()]
    steps = []
    for _ in range(n):
        fsops = []
        pend = None
        for _f in range(nx()):
            code, p = nx(), P()
            dl = [P() for _d in range(nx())]
            if code == 3:
                pend = p
            elif code == 4:
                fsops.append(["copy", p])
            elif code == 5:
                fsops.append(["link", p])
            elif code == 6:
                fsops.append(["renamein", p])
            elif code == 7:
                fsops.append(["unlink", p])
            elif code == 8:
                fsops.append(["rename", p])
            elif code == 9:
                fsops += [["remove", d] for d in dl]
        src = sorted([[P(), nx()] for _s in range(nx())], key=repr)
        dst = sorted([[nx(), P(), nx(), nx()] for _s in range(nx())], key=repr)
        ring = sorted([P() for _s in range(nx())], key=repr)
        err = nx()
        steps.append({"src": src, "dst": dst, "ring": ring, "err": err, "fsops": fsops})
    return steps


# ----------------------------------------------------------------------------- oracle on the implementation

class Oracle:
    """accumulates what the harness wrote, checks snapshots and the final state"""

    def __init__(self, impl, meth, flags=(True, True)):
        self.impl, self.meth, self.flags = impl, meth, tuple(flags)
        self.versions = {}        # rel -> set of byte strings ever written
        self.last = {}            # rel -> last written bytes
        self.rf_written = {}      # rel -> bytes   (RF data, written once)
        self.viol = []            # (event index, (signature, title, expected, observed))
        self.env_removed = set()
        self.idx = 0

    def add(self, sig, title, exp, obs):
        self.viol.append((self.idx, (sig, title, exp, obs)))

    def wrote(self, p, c):
        r = rel(tuple(p))
        b = content(p, c)
        self.versions.setdefault(r, set()).add(b)
        self.last[r] = b
        if kind(p) == "rf":
            self.rf_written[r] = b

    def snapshot(self, tag):
        dst = read_tree(self.impl.dest)
        for r, data in dst.items():
            base = os.path.basename(r)
            if base.startswith("tmp."):
                continue
            t = self.impl.relmap.get(r)
            if t is not None and kind(t) != "other" and not selected(self.flags, t):
                self.add("deselected-kind-mirrored", "a file of a kind that is not selected (include_drf / include_dmd) "
                         "appears under the destination", "nothing of a deselected kind", {"when": tag, "file": r})
            elif data not in self.versions.get(r, ()):
                self.add("partial-file-under-final-name", "a destination file is visible under its final name "
                                  "with content the source never had (incomplete or corrupt)", "one of the written versions",
                                  {"when": tag, "file": r, "size": len(data)})
        if self.meth == 1 and self.flags[0]:
            src = read_tree(self.impl.src)
            for r, b in self.rf_written.items():
                if r in self.env_removed:
                    continue
                d, base = os.path.split(r)
                if src.get(r) == b or dst.get(r) == b or dst.get(os.path.join(d, "tmp." + base)) == b:
                    continue
                self.add("move-loses-data-file", "move mode: at some moment no intact copy of a data file exists "
                                  "in the source or under the destination", "intact copy", {"when": tag, "file": r})

    def final(self, ring_deleted):
        """after every file's last write has been followed by an event"""
        src = read_tree(self.impl.src)
        dst = read_tree(self.impl.dest)
        for r, data in dst.items():
            if os.path.basename(r).startswith("tmp.") :
                self.add("tmp-left-behind", "a tmp. file is left in the destination", None, r)
            elif r not in self.versions:
                self.add("foreign-file-mirrored", "a file of no selected kind was mirrored", None, r)
        for r, b in self.last.items():
            p = self.impl.relmap[r]
            kd = kind(p)
            if kd == "other" or r in self.env_removed:
                continue
            if not selected(self.flags, p):
                # a deselected kind: never mirrored (checked on every snapshot and here), never touched
                if r in dst:
                    self.add("deselected-kind-mirrored", "a file of a kind that is not selected (include_drf / include_dmd) "
                             "appears under the destination", "nothing of a deselected kind", {"when": "final", "file": r})
                if src.get(r) != b:
                    self.add("source-changed", "the mirror changed or removed a source file of a deselected kind", None, r)
                continue
            if self.meth == 1 and kd == "rf":
                if dst.get(r) != b:
                    self.add("move-data-file-not-at-destination", "move mode: a reported data file is not intact at "
                                      "the destination", "identical content", r)
                if r in src:
                    self.add("move-left-source", "move mode: a mirrored data file is still in the source", None, r)
                continue
            if r in src:
                if dst.get(r) != src[r]:
                    self.add("mirror-content-differs", "a finalized source file of a selected kind is missing or "
                                      "different at the destination", "identical content", r)
                if self.meth == 1 and kd in ("prop",) and src[r] != b:
                    self.add("source-changed", "the mirror changed a source file", None, r)
            elif r in ring_deleted:
                # deleted from the source by the count=1 ring buffer: must have been mirrored in its final state
                if r not in dst:
                    self.add("move-metadata-lost", "move mode: a reported metadata file was deleted from the source without ever "
                             "having been mirrored: it exists on neither side", "the file at the destination", r)
                elif dst.get(r) != b:
                    self.add("move-metadata-stale-after-reordered-events",
                                      "move mode: a metadata file was deleted from the source (newer file reported) before "
                                      "its last modification was mirrored; the destination keeps a stale version",
                                      "last written content", r)
        if self.meth == 1 and self.flags[1]:
            # the newest metadata file of every channel stays in the source
            for g, ch in MDCH.items():
                written = sorted(r for r in self.last if r.startswith(ch + os.sep + SUB) and r not in self.env_removed)
                reported = [r for r in written]
                if reported and reported[-1] not in src:
                    self.add("newest-metadata-removed", "move mode: the newest metadata file of a channel was "
                                      "removed from the source", reported[-1], sorted(x for x in src if x.startswith(ch)))


# ----------------------------------------------------------------------------- histories

def run_history(impl, meth, evs, snapshots=True, flags=(True, True)):
    """returns (groups, states, violations): one implementation step per element of evs; groups[i] is the
    list of model events it corresponds to (the start-up replay ("R",) expands into the creation events that
    DigitalRFMirror.start() really dispatched)"""
    impl.reset(meth, flags)
    orc = Oracle(impl, meth, flags)
    impl.snap_cb = orc.snapshot if snapshots else None
    groups, states, ring_deleted = [], [], set()
    for i, e in enumerate(evs):
        orc.idx = i
        if e[0] == "W":
            orc.wrote(e[1], e[2])
        if e[0] == "X":
            orc.env_removed.add(rel(tuple(e[1])))
        if e[0] == "R":
            exc, replayed = impl.replay_existing()
            bad = [x for x in replayed if not isinstance(x, tuple)]
            if bad:
                orc.add("replay-foreign-file", "the start-up replay dispatched a file of no known kind", [], bad)
            groups.append([("C", x) for x in replayed if isinstance(x, tuple)])
            on_src = read_tree(impl.src)
            # every existing file of a selected kind in a complete channel is replayed
            for r in on_src:
                t = impl.relmap.get(r)
                if t is None or not selected(flags, t) or t in replayed:
                    continue
                chprop = (-1, 0, t[0]) if kind(t) == "rf" else (-2, 0, t[0]) if kind(t) == "md" else t
                if rel(chprop) in on_src:
                    orc.add("replay-misses-selected-file", "the start-up replay skipped an existing file of a selected kind",
                            r, [list(x) if isinstance(x, tuple) else x for x in replayed])
        else:
            exc = impl.apply(e)
            groups.append([e])
        st = canon_impl(impl, exc)
        st["fsops"] = impl_fsops(impl)
        for op in st["fsops"]:
            if op[0] == "remove" and isinstance(op[1], list):
                ring_deleted.add(rel(tuple(op[1])))
        if exc:
            orc.add("mirror-raises", "a handler raised", "no exception", exc)
        states.append(st)
    impl.snap_cb = None
    orc.final(ring_deleted)
    if impl.src_symlinked:
        # (index, (signature, title, expected, observed)) -- the observed part says how the source was reached
        orc.viol = [(k, (v[0], v[1], v[2], {"source_through_symlink": True, "observed": v[3]})) for k, v in orc.viol]
    return groups, states, orc.viol


def gen_history(rng, meth, n, reorder=True, replay=True):
    """writes by a recorder, each followed -- immediately or later, once or twice -- by its event;
    events for vanished files; at the end every pending event is delivered"""
    evs, pending = [], []
    nxt = {g: 0 for g in (0, 2, 1, 3)}
    ver = {}
    have = set()
    props = [(-1, 0, 0), (-1, 0, 2), (-2, 0, 1), (-2, 0, 3)]

    def write(p, first):
        ver[p] = ver.get(p, 0) + 1
        evs.append(("W", p, ver[p]))
        have.add(p)
        pending.append(("C" if first else "M", p))

    def deliver(k):
        e = pending.pop(k)
        evs.append(e)
        if rng.random() < 0.2:
            evs.append(e)                           # duplicated event

    for p in props:
        if rng.random() < 0.9:
            write(p, True)
    for _ in range(n):
        r = rng.random()
        if r < 0.28:                                # next RF file of a channel
            g = rng.choice((0, 2))
            if nxt[g] < NKEYS:
                write((g, key_of(nxt[g]), 0), True)
                nxt[g] += 1
        elif r < 0.45:                              # next metadata file
            g = rng.choice((1, 3))
            if nxt[g] < NKEYS:
                write((g, key_of(nxt[g]), 0), True)
                nxt[g] += 1
        elif r < 0.58:                              # append to the current (newest) metadata file
            g = rng.choice((1, 3))
            if nxt[g] > 0:
                p = (g, key_of(nxt[g] - 1), 0)
                if p in have:
                    write(p, False)
        elif r < 0.62:
            p = rng.choice(props)
            write(p, p not in have)
        elif r < 0.66:                              # a writer's staged file and its rename event
            evs.append(("W", (-3, 0, 0), 1))
            g = 0
            if nxt[g] < NKEYS:
                p = (g, key_of(nxt[g]), 0)
                nxt[g] += 1
                ver[p] = 1
                evs.append(("W", p, 1))
                have.add(p)
                pending.append(("V", (-3, 0, 0), p))
        elif r < 0.70 and meth != 1:                # a file vanishes (another process), events may follow
            cands = [p for p in have if kind(p) in ("rf", "md")]
            if cands:
                p = rng.choice(sorted(cands))
                evs.append(("X", p))
                have.discard(p)
                if rng.random() < 0.5:
                    pending.append(("D", p))
        elif r < 0.74:
            evs.append((rng.choice(("C", "M", "D")), rng.choice(all_paths())))     # stray / stale event
        elif r < 0.78 and replay:
            evs.append(("R",))                      # (re)start: existing files replayed as creation events
        elif pending:
            if reorder:
                deliver(rng.randrange(len(pending)))
            else:
                deliver(0)
        if pending and (not reorder or rng.random() < 0.55):
            deliver(0 if (not reorder or rng.random() < 0.6) else rng.randrange(len(pending)))
    while pending:
        deliver(rng.randrange(len(pending)) if reorder else 0)
    return evs


def check_histories(res, impl, meth, hists, tag, flags=(True, True)):
    results = [run_history(impl, meth, evs, flags=flags) for evs in hists]
    flat = [[e for g in groups for e in g] for groups, _s, _v in results]
    outs = common.run_model("mirror", [enc_history(meth, impl.same_fs, f, flags) for f in flat])
    ftag = "%s%s" % ("drf" if flags[0] else "", "dmd" if flags[1] else "")
    for evs, fl, out, (groups, states, viols) in zip(hists, flat, outs, results):
        nontriv = any(st["fsops"] for st in states)
        res.case((tag, meth, impl.same_fs, flags, tuple(map(repr, evs))), nontrivial=nontriv)
        res.count("%s-%s-%s-%s" % (tag, METH[meth], ftag, "samefs" if impl.same_fs else "crossfs"))
        res.count("events", len(fl))
        res.count("startup-replays", sum(1 for e in evs if e[0] == "R"))
        res.count("fs-operations-traced", sum(len(st["fsops"]) for st in states))
        inp = {"meth": meth, "cross_fs": not impl.same_fs, "flags": list(flags), "events": [list(e) for e in evs]}
        try:
            ms = parse_dump(out, len(fl))
        except (StopIteration, RuntimeError):
            ms = None
        if ms is None:
            res.disagree("mirror model output unparsable", inp, None, None)
        else:
            k, last = 0, {"src": [], "dst": [], "ring": [], "err": 0}
            for i, (g, st) in enumerate(zip(groups, states)):
                steps = ms[k:k + len(g)]
                k += len(g)
                m = dict(steps[-1] if steps else last)
                m["fsops"] = [op for x in steps for op in x["fsops"]]
                last = {kk: m[kk] for kk in ("src", "dst", "ring", "err")}
                if m != st:
                    res.disagree("mirror model vs implementation (%s, include_drf=%s include_dmd=%s, %s) at event %d" % (
                        METH[meth], flags[0], flags[1], "same fs" if impl.same_fs else "cross fs", i),
                        dict(inp, events=[list(e) for e in evs[:i + 1]]), m, st)
                    break
        for i, v in viols:
            sig, title, exp, obs = v
            sym = isinstance(obs, dict) and obs.get("source_through_symlink")
            res.violation(sig, title, dict(inp, failing_event=i, source_through_symlink=bool(sym)), exp, obs)


# ----------------------------------------------------------------------------- a real recording end to end

def real_recording(res, meth, flags=(True, True)):
    """a real recording (DigitalRFWriter + DigitalMetadataWriter) mirrored by the real start-up replay
    (DigitalRFMirror.start() with the observer stubbed out), then every event again late and duplicated"""
    import numpy as np
    import digital_rf
    from watchdog import events
    base = common.scratch_dir("drfc17r-")
    src, dest = os.path.join(base, "src"), os.path.join(base, "dest")
    os.makedirs(src)
    os.makedirs(dest)
    sps = 100                  # 1 s files
    start = T0 * sps
    data = {}
    for ch, fcad in (("cha", 1000), ("chb", 250)):          # chb: four files per second (name times with milliseconds)
        os.makedirs(os.path.join(src, ch, "metadata"))
        w = digital_rf.DigitalRFWriter(os.path.join(src, ch), np.int16, 3600, fcad, start, sps, 1, uuid_str="u", is_complex=False, marching_periods=False)
        arr = (np.arange(350) + (7 if ch == "chb" else 0)).astype(np.int16)
        w.rf_write(arr)
        w.close()
        data[ch] = arr
        mw = digital_rf.DigitalMetadataWriter(os.path.join(src, ch, "metadata"), 3600, 1, sps, 1, "metadata")
        for j in range(3):
            mw.write(start + j * sps, {"v": j})
    before = read_tree(src)

    def is_md(k):
        return os.sep + "metadata" + os.sep in k or k.endswith("dmd_properties.h5")
    want = {k: v for k, v in before.items() if (flags[1] if is_md(k) else flags[0])}
    cls = digital_rf.mirror.DigitalRFMirror
    orig = cls._init_observer
    cls._init_observer = lambda _s: None
    try:
        m = cls(src, dest, method=METH[meth], include_drf=flags[0], include_dmd=flags[1])
    finally:
        cls._init_observer = orig

    class _NoObserver(object):
        def start(self):
            pass
    m.observer = _NoObserver()
    import sys
    so, dn = sys.stdout, open(os.devnull, "w")
    sys.stdout = dn
    try:
        m.start()
        for k in sorted(before, reverse=True):                  # every event also late and duplicated
            for hd in m.event_handlers:
                hd.dispatch(events.FileCreatedEvent(os.path.join(src, k)))
    finally:
        sys.stdout = so
        dn.close()
    after = read_tree(dest)
    res.count("real-recording-%s-%s%s" % (METH[meth], "drf" if flags[0] else "", "dmd" if flags[1] else ""))
    res.case(("real", meth, flags), nontrivial=True)
    inp = {"meth": meth, "flags": list(flags), "real_recording": True}
    if after != want:
        missing = sorted(set(want) - set(after))
        extra = sorted(set(after) - set(want))
        diff = sorted(k for k in want if k in after and want[k] != after[k])
        res.violation("real-recording-not-mirrored", "destination tree differs from the selected kinds of the source recording",
                      inp, "exactly the files of the selected kinds, identical", {"missing": missing, "extra": extra, "different": diff})
        return
    rd = digital_rf.DigitalRFReader(dest) if flags[0] else None
    for ch, arr in data.items():
        if flags[0]:
            got = rd.read_vector_raw(start, len(arr), ch).reshape(-1)
            if not (got == arr).all():
                res.violation("real-recording-read-differs", "data read from the mirrored recording differs", inp, None, ch)
        if flags[1]:
            mr = digital_rf.DigitalMetadataReader(os.path.join(dest, ch, "metadata"))
            md = mr.read(start, start + 3 * sps)
            if sorted(md) != [start + j * sps for j in range(3)]:
                res.violation("real-recording-metadata-differs", "metadata read from the mirrored recording differs", inp,
                              [start + j * sps for j in range(3)], sorted(md))
    left = read_tree(src)
    expect_left = dict(before)
    if meth == 1:
        if flags[0]:
            expect_left = {k: v for k, v in expect_left.items() if "rf@" not in k}
        if flags[1]:
            for ch in data:
                mds = sorted(k for k in before if k.startswith(os.path.join(ch, "metadata")) and "metadata@" in k)
                for k in mds[:-1]:
                    expect_left.pop(k)
    if left != expect_left:
        res.violation("source-changed", "the source tree after mirroring is not what the method allows (move: data files moved, "
                      "older metadata files removed, the newest metadata file and the properties stay; copy/link: untouched)",
                      inp, sorted(expect_left), sorted(left))


def windowed_start(res, meth, form):
    """a mirror started with a time window over a recording that already exists: after the start-up
    replay the destination holds exactly what a listing with the same kinds and window selects -- which
    includes the metadata file in force at the start time (its name time is earlier) -- plus the
    properties files"""
    import datetime
    import numpy as np
    import digital_rf
    base = common.scratch_dir("drfc17w-")
    src, dest = os.path.join(base, "src"), os.path.join(base, "dest")
    os.makedirs(src)
    os.makedirs(dest)
    sps = 100
    start = T0 * sps
    for ch, fcad in (("cha", 1000), ("chb", 250)):          # chb: four files per second (name times with milliseconds)
        os.makedirs(os.path.join(src, ch, "metadata"))
        w = digital_rf.DigitalRFWriter(os.path.join(src, ch), np.int16, 3600, fcad, start, sps, 1, uuid_str="u", is_complex=False, marching_periods=False)
        w.rf_write(np.arange(450).astype(np.int16))
        w.close()
        mw = digital_rf.DigitalMetadataWriter(os.path.join(src, ch, "metadata"), 3600, 1, sps, 1, "metadata")
        for j in range(4):
            mw.write(start + j * sps, {"v": j})
    utc = datetime.timezone.utc
    st = datetime.datetime.fromtimestamp(T0 + 1, utc) + datetime.timedelta(milliseconds=500)     # not on a file boundary
    en = datetime.datetime.fromtimestamp(T0 + 3, utc) + datetime.timedelta(milliseconds=200)
    if form == 1:
        st, en = st.replace(tzinfo=None), en.replace(tzinfo=None)
    elif form == 2:
        z = datetime.timezone(datetime.timedelta(hours=5, minutes=30))
        st, en = st.astimezone(z), en.astimezone(z)
    before = read_tree(src)
    sel = set(digital_rf.lsdrf(src, include_drf=False, include_dmd=False, include_drf_properties=True, include_dmd_properties=True))
    sel |= set(digital_rf.lsdrf(src, starttime=st, endtime=en, include_drf=True, include_dmd=True,
                                include_drf_properties=False, include_dmd_properties=False))
    want = {os.path.relpath(p, src): before[os.path.relpath(p, src)] for p in sel}
    cls = digital_rf.mirror.DigitalRFMirror
    orig = cls._init_observer
    cls._init_observer = lambda _s: None
    try:
        m = cls(src, dest, method=METH[meth], starttime=st, endtime=en)
    finally:
        cls._init_observer = orig

    class _NoObserver(object):
        def start(self):
            pass
    m.observer = _NoObserver()
    import sys
    so, dn = sys.stdout, open(os.devnull, "w")
    sys.stdout = dn
    try:
        m.start()
    finally:
        sys.stdout = so
        dn.close()
    after = read_tree(dest)
    res.count("windowed-start-%s" % METH[meth])
    res.case(("windowed-start", meth, form), nontrivial=True)
    # ---- the same window applied to LIVE events: a second mirror that ignores existing files receives a
    #      creation event for every file; exactly the files whose name time lies in the window are mirrored
    #      (plus the properties files of the start-up replay)
    if after == want:
        import re
        from watchdog import events
        dest2 = os.path.join(base, "dest2")
        os.makedirs(dest2)
        src_now = read_tree(src)
        cls._init_observer = lambda _s: None
        try:
            m2 = cls(src, dest2, method=METH[meth], starttime=st, endtime=en, ignore_existing=True)
        finally:
            cls._init_observer = orig
        m2.observer = _NoObserver()
        so, dn = sys.stdout, open(os.devnull, "w")
        sys.stdout = dn
        try:
            m2.start()
            for k in sorted(src_now):
                for hd in m2.event_handlers:
                    hd.dispatch(events.FileCreatedEvent(os.path.join(src, k)))
        finally:
            sys.stdout = so
            dn.close()
        lo = (T0 + 1) * 1000 + 500
        hi = (T0 + 3) * 1000 + 200
        want2 = {}
        for k, v in src_now.items():
            mm = re.search(r"@(\d+)(?:\.(\d{3}))?\.h5$", k)
            if mm is None:
                want2[k] = v                                   # properties files
            elif lo <= int(mm.group(1)) * 1000 + int(mm.group(2) or 0) <= hi:
                want2[k] = v
        after2 = read_tree(dest2)
        res.count("windowed-live-%s" % METH[meth])
        if after2 != want2:
            res.violation("windowed-live-events-not-mirrored", "live creation events of files inside the mirror's time window were not "
                          "mirrored (or files outside it were)", {"meth": meth, "windowed_live": True, "starttime": str(st), "endtime": str(en)},
                          sorted(want2), {"missing": sorted(set(want2) - set(after2)), "extra": sorted(set(after2) - set(want2))})
    if after != want:
        res.violation("windowed-start-not-mirrored", "after the start-up replay of a mirror with a time window the destination is not what "
                      "the listing with the same window selects (incl. the metadata file in force at the start time)",
                      {"meth": meth, "windowed_start": True, "starttime": str(st), "endtime": str(en)},
                      sorted(want), {"missing": sorted(set(want) - set(after)), "extra": sorted(set(after) - set(want)),
                                     "different": sorted(k for k in want if k in after and want[k] != after[k])})
    shutil.rmtree(base, True)


# ----------------------------------------------------------------------------- entry points

WITNESS_STALE = [("W", (-2, 0, 1), 1), ("C", (-2, 0, 1)),
                 ("W", (1, key_of(0), 0), 1), ("C", (1, key_of(0), 0)),
                 ("W", (1, key_of(0), 0), 2),                       # last modification of the older file ...
                 ("W", (1, key_of(1), 0), 1), ("C", (1, key_of(1), 0)),   # ... reported after the newer file's creation
                 ("M", (1, key_of(0), 0))]


_SHM = []     # scratch directories outside common.scratch_root() (tmpfs); the check body runs in a child that
              # leaves through os._exit, so they are removed explicitly


def handler_table_leg(res):
    """the regenerated handler table (Gen/MirrorInitGen.v, vm_compute) against real DigitalRFMirror objects:
    per handler its kind (copy-like / shutil.move / ring buffer with its count) and which of an RF file, a
    metadata file, drf_properties.h5, dmd_properties.h5 its regexes accept; every method x link x flags"""
    common.use_impl()
    import shutil as _sh
    import digital_rf
    from digital_rf import ringbuffer as _rb
    cls = digital_rf.mirror.DigitalRFMirror
    work = common.scratch_dir()
    probes = ["ch/2017-07-14T02-40-00/rf@1500000000.000.h5", "ch/metadata/2017-07-14T02-40-00/metadata@1500000000.h5",
              "ch/drf_properties.h5", "ch/metadata/dmd_properties.h5"]
    cases, exprs = [], []
    for method in ("copy", "move", "link"):
        for link in (False, True):
            for drf, dmd in ((True, True), (True, False), (False, True)):
                orig = cls._init_observer
                cls._init_observer = lambda _s: None
                try:
                    m = cls(os.path.join(work, "s"), os.path.join(work, "d"), method=method, link=link, include_drf=drf, include_dmd=dmd)
                finally:
                    cls._init_observer = orig
                got = []
                for hd in m.event_handlers:
                    if isinstance(hd, _rb.DigitalRFRingbufferHandlerBase):
                        code = 100 + int(getattr(hd, "count", -1))
                    elif getattr(hd, "mirror_fun", None) is _sh.move:
                        code = 2
                    elif getattr(hd, "mirror_fun", None) is _sh.copy2 or type(getattr(hd, "mirror_fun", None)).__name__ == "LinkWithFallback":
                        code = 1
                    else:
                        code = 9
                    got += [code] + [int(any(r.match(os.path.join(m.src, q)) for r in hd.regexes)) for q in probes]
                mv = "true" if m.method == "move" else "false"
                cases.append(((method, link, drf, dmd), got))
                exprs.append("(concat (map (fun gf : gfun * gflags => [match fst gf with GCopyLike => 1 | GShutilMove => 2 | GRingbuffer c => 100 + c end; "
                             "b2z (g_match (snd gf) (mkP 0 0 0)); b2z (g_match (snd gf) (mkP 1 0 0)); b2z (g_match (snd gf) (mkP (-1) 0 0)); "
                             "b2z (g_match (snd gf) (mkP (-2) 0 0))]) (gen_event_handlers %s %s %s)))" %
                             (mv, "true" if drf else "false", "true" if dmd else "false"))
    try:
        rows = common.run_model_vm("From DRF Require Import Model.Ringbuffer Model.MirrorInitBase Gen.MirrorInitGen Proofs.MirrorInitGenProofs.\n"
                                   "From Coq Require Import ZArith List.\nDefinition b2z (b : bool) : Z := if b then 1%Z else 0%Z.", exprs)
    except common.Broken as e:
        res.broken.append({"what": "regenerated handler table cannot be evaluated", "log": str(e)[-1500:]})
        return
    for (cfg, got), row in zip(cases, rows):
        res.count("handler-table-vs-real-mirror")
        if row != got:
            res.disagree("Gen/MirrorInitGen.gen_event_handlers vs the handlers of a real DigitalRFMirror "
                         "(per handler: kind, accepts RF / metadata / drf_properties / dmd_properties)",
                         {"method": cfg[0], "link": cfg[1], "include_drf": cfg[2], "include_dmd": cfg[3]}, row, got)


def leftover_leg(res):
    """an earlier mirror run was interrupted between staging a file and publishing it: the destination holds
    tmp.<name> (a hard link of the source file in link mode, a complete or partial copy otherwise).  The mirror is
    started again and the events arrive (twice): every selected file must end up under its final name with the
    source's content, and no tmp. entry of a mirrored file may remain"""
    import sys as _sys
    rng = res.rng
    impl = Impl(False)
    for h in range(9 if res.tier == "quick" else 60):
        meth = h % 3
        impl.force_symlink = False
        impl.reset(meth, (True, True))
        files = [(-1, 0, 0), (-2, 0, 1)] + [(g, key_of(j), 0) for g in (0, 1) for j in range(3)]
        for p in files:
            impl.apply(("W", p, 1))
        stale = [p for p in files if p[0] >= 0 and rng.random() < 0.6] or [files[2]]
        how = {}
        for p in stale:
            sp = os.path.join(impl.src, rel(p))
            dp = os.path.join(impl.dest, rel(p))
            os.makedirs(os.path.dirname(dp), exist_ok=True)
            tp = os.path.join(os.path.dirname(dp), "tmp." + os.path.basename(dp))
            # what the SAME method leaves behind when interrupted: a hard link in link mode, a (partial) copy otherwise.
            # (A hard link left by a link-mode run and a restart in copy mode is outside the statement: DESIGN 0.3)
            kindof = "hard link" if meth == 2 else rng.choice(["complete copy", "partial copy"])
            how[rel(p)] = kindof
            if kindof == "hard link":
                os.link(sp, tp)
            else:
                data = open(sp, "rb").read()
                with open(tp, "wb") as f:
                    f.write(data if kindof == "complete copy" else data[:len(data) // 2])
        se = _sys.stderr
        _sys.stderr = open(os.devnull, "w")
        try:
            order = files + files[::-1]
            for p in order:
                impl.apply(("C", p))
        finally:
            _sys.stderr.close()
            _sys.stderr = se
        src_t, dst_t = read_tree(impl.src), read_tree(impl.dest)
        res.case(("leftover", METH[meth], tuple(sorted(how.items()))), nontrivial=True)
        res.count("leftover-staging-file:" + METH[meth])
        inp = {"leftover_leg": {"meth": meth, "stale": how}}
        for p in files:
            r = rel(p)
            want = content(p, 1)
            if meth == 1:
                ok = dst_t.get(r) == want                      # RF moved; older metadata expired from the source by the ring buffer
            else:
                ok = dst_t.get(r) == want and src_t.get(r) == want
            if not ok:
                res.violation("leftover-staging-blocks-publication", "after an interrupted run left tmp.<name> (%s) in the "
                              "destination, the restarted mirror (%s) does not publish the file" % (how.get(r, "none"), METH[meth]),
                              dict(inp, file=r), "the source's content under the final name",
                              {"dest_has_final": r in dst_t, "dest_entries": sorted(k for k in dst_t if os.path.dirname(k) == os.path.dirname(r))})
                break


def consumer_case(impl, meth, repeat):
    """something downstream consumes the destination: after the first files of a subdirectory were mirrored it takes
    them away and removes the emptied subdirectory (a second-stage `mirror mv`, a ring buffer on the destination: both
    rmdir what they emptied).  Later events for that subdirectory -- new files, and repeated events for files whose
    source still exists -- must be mirrored as if the directory had never been seen.  -> (taken dirs, problem or None)"""
    import sys as _sys
    impl.force_symlink = False
    impl.reset(meth, (True, True))
    first = [(-1, 0, 0), (-2, 0, 1)] + [(g, key_of(0), 0) for g in (0, 1)]
    later = [(g, key_of(j), 0) for g in (0, 1) for j in (1, 2)]
    se = _sys.stderr
    _sys.stderr = open(os.devnull, "w")
    taken = []
    try:
        for p in first:
            impl.apply(("W", p, 1))
            impl.apply(("C", p))
        for g in (0, 1):                       # the consumer takes the data subdirectories, whole
            d = os.path.dirname(os.path.join(impl.dest, rel((g, key_of(0), 0))))
            if os.path.isdir(d):
                taken.append(os.path.relpath(d, impl.dest))
                shutil.rmtree(d)
        for p in later:
            impl.apply(("W", p, 1))
            impl.apply(("C", p))
        if repeat:
            for p in first[2:]:
                impl.apply(("M", p))           # a repeated event for a file mirrored before the clean-up
    finally:
        _sys.stderr.close()
        _sys.stderr = se
    src_t, dst_t = read_tree(impl.src), read_tree(impl.dest)
    for p in later:
        r = rel(p)
        want = content(p, 1)
        if dst_t.get(r) != want:
            return taken, (r, {"dest_has_final": r in dst_t, "still_in_source": src_t.get(r) == want,
                               "dest_entries": sorted(k for k in dst_t if os.path.dirname(k) == os.path.dirname(r))})
    return taken, None


def consumer_leg(res):
    impl = Impl(False)
    for h in range(6 if res.tier == "quick" else 30):
        meth, repeat = h % 3, (h // 3) % 2
        taken, prob = consumer_case(impl, meth, repeat)
        res.case(("consumer", METH[meth], repeat), nontrivial=True)
        res.count("destination-subdirectory-consumed:" + METH[meth])
        if prob:
            res.violation("not-mirrored-after-destination-cleanup", "a file created after a consumer removed the (emptied) "
                          "destination subdirectory is not mirrored (%s)" % METH[meth],
                          {"consumer_leg": {"meth": meth, "repeat": repeat, "taken": taken}, "file": prob[0]},
                          "the source's content under the final name in the destination", prob[1])
            return


def mirrordest_case(pr):
    """the real mirror_to_dest with every primitive it calls scripted by pr = (dest_dir_exists, makedirs_ok,
    dest_exists, cmp (None = raises OSError), stage_ok, rename_ok, src_isfile) -> codes of the actions it attempts"""
    import filecmp
    import io
    import sys as _sys
    import traceback
    from digital_rf import mirror as M
    de, mk, ex, cmp, stg, ren, isf = pr
    src, dest = "/nonexistent-verif/src", "/nonexistent-verif/dest"
    sp = src + "/ch/2017-07-14T02-00-00/rf@1500000000.000.h5"
    dp = dest + "/ch/2017-07-14T02-00-00/rf@1500000000.000.h5"
    ddir, tmp = os.path.dirname(dp), os.path.join(os.path.dirname(dp), "tmp." + os.path.basename(dp))
    acts = []

    def fail():
        raise OSError(errno.EIO, "scripted failure")

    def exists(p):
        if p == ddir:
            return de
        if p == dp:
            return ex
        acts.append(900)
        return False

    def makedirs(p, *a, **k):
        acts.append((11 if mk else 10) if p == ddir else 901)
        mk or fail()

    def fcmp(a, b, *r, **k):
        if (a, b) != (sp, dp):
            acts.append(902)
        if cmp is None:
            fail()
        return cmp

    def stage(a, b):
        acts.append((21 if stg else 20) if (a, b) == (sp, tmp) else 903)
        stg or fail()

    def rename(a, b):
        acts.append((31 if ren else 30) if (a, b) == (tmp, dp) else 904)
        ren or fail()

    def isfile(p):
        if p != sp:
            acts.append(905)
        return isf

    def rmdir(p):
        acts.append(5 if p == os.path.dirname(sp) else 906)
        fail()
    h = M.DigitalRFMirrorHandler(src, dest, mirror_fun=stage)
    saved = (os.path.exists, os.makedirs, filecmp.cmp, os.rename, os.path.isfile, os.rmdir, traceback.print_exc, _sys.stdout)
    os.path.exists, os.makedirs, filecmp.cmp, os.rename, os.path.isfile, os.rmdir = exists, makedirs, fcmp, rename, isfile, rmdir
    traceback.print_exc = lambda *a, **k: acts.append(4)
    _sys.stdout = io.StringIO()
    exc = None
    try:
        h.mirror_to_dest(sp)
    except BaseException as e:  # noqa
        exc = e
    finally:
        os.path.exists, os.makedirs, filecmp.cmp, os.rename, os.path.isfile, os.rmdir, traceback.print_exc, _sys.stdout = saved
    if exc is not None:
        acts.append(999)
    return acts


def mirrordest_leg(res):
    """T20's reading of mirror_to_dest against the method itself: for every outcome of the primitives (192) the real
    method, with the primitives scripted, attempts exactly the actions the regenerated function lists"""
    import itertools
    B = (True, False)
    prs = list(itertools.product(B, B, B, (None, True, False), B, B, B))
    cb = lambda b: "true" if b else "false"
    enc = ("(map (fun a => match a with AMakedirs b => if b then 11 else 10 | AStage b => if b then 21 else 20 | "
           "APublish b => if b then 31 else 30 | AReport => 4 | ARmdirSrc => 5 end) (gen_mirror_to_dest (mkPr %s %s %s %s %s %s %s)))")
    exprs = [enc % (cb(de), cb(mk), cb(ex), "None" if c is None else "(Some %s)" % cb(c), cb(stg), cb(ren), cb(isf))
             for de, mk, ex, c, stg, ren, isf in prs]
    model = common.run_model_vm("From DRF Require Import Model.MirrorDestBase Gen.MirrorDestGen.", exprs)
    for pr, m in zip(prs, model):
        got = mirrordest_case(pr)
        res.count("mirror_to_dest-with-scripted-primitives")
        if got != m:
            res.disagree("regenerated mirror_to_dest (T20) vs the method run with scripted primitives "
                         "(dest_dir_exists, makedirs_ok, dest_exists, cmp, stage_ok, rename_ok, src_isfile)", list(pr), m, got)
            return


def fault_leg(res):
    """move mode, one publishing rename (tmp.<name> -> <name> under the destination) fails: whatever the mirror does
    about it, an intact copy of every data file exists in the source or under the destination at every moment, and
    nothing incomplete appears under a final name (the two snapshot oracles; the rest of the final state is not
    claimed under a fault, and the model is not consulted)"""
    import sys as _sys
    rng = res.rng
    impl = Impl(False)
    for h in range(12 if res.tier == "quick" else 150):
        evs = gen_history(rng, 1, 30, reorder=(h % 3 != 0))
        impl.fail_publish_at = rng.randrange(1, 8)
        impl.publish_count = 0
        se = _sys.stderr
        _sys.stderr = open(os.devnull, "w")          # the mirror prints the traceback of the failed rename
        try:
            groups, states, viols = run_history(impl, 1, evs, flags=(True, True))
        finally:
            _sys.stderr.close()
            _sys.stderr = se
        fired = impl.publish_count >= impl.fail_publish_at
        k = impl.fail_publish_at
        impl.fail_publish_at = 0
        res.count("fault-leg:publishing-rename-failed" if fired else "fault-leg:history-too-short")
        res.case(("fault", h, k), nontrivial=fired)
        for i, v in viols:
            sig, title, exp, obs = v
            if sig in ("move-loses-data-file", "partial-file-under-final-name"):
                res.violation(sig, title + " (after a failed publishing rename)",
                              {"meth": 1, "cross_fs": False, "flags": [True, True], "events": [list(e) for e in evs],
                               "failing_event": i, "fail_publish_at": k,
                               "source_through_symlink": isinstance(obs, dict) and bool(obs.get("source_through_symlink"))}, exp, obs)


def run(res):
    try:
        _run(res)
    finally:
        global _POOL
        try:
            if globals().get("_POOL") is not None:
                _POOL.terminate()
                _POOL = None
        except Exception:  # noqa
            pass
        for d in _SHM:
            shutil.rmtree(d, True)


def _run(res):
    rng = res.rng
    quick = res.tier == "quick"
    res.rule = ("for every combination of include_drf / include_dmd (at least one): history = a recorder writing RF, metadata and properties files (metadata rewritten in place) and the "
                "resulting created/modified/moved events delivered immediately, late, twice or out of order, the real start-up replay "
                "of existing files (DigitalRFMirror.start() with the observer stubbed out), plus events for "
                "vanished or foreign files, for copy / move / link with source and destination on the same and on "
                "different file systems; non-trivial = distinct history in which the mirror performed at least one "
                "file-system operation; after every event source tree, destination tree (tmp. names included), ring-buffer "
                "records and the traced call sequence are compared with the model; the oracle reads both trees before, in "
                "the middle of and after every traced call")
    impls = [Impl(False)]
    cross = Impl(True)
    if not cross.same_fs:
        impls.append(cross)
    else:
        res.notes.append("no second file system available: cross-fs variant (copy+unlink move, link fallback) not exercised")
    nh = (18 if quick else 240)
    for impl in impls:
        check_histories(res, impl, 1, [WITNESS_STALE], "witness")
        for flags in FLAGS:
            for meth in (0, 1, 2):
                hists = [gen_history(rng, meth, 40, reorder=(i % 4 != 0)) for i in range(nh)]
                # a recording that exists before the mirror starts: nothing is reported, everything is replayed
                pre = [("W", pp, 1) for pp in ((-1, 0, 0), (-1, 0, 2), (-2, 0, 1), (-2, 0, 3))]
                pre += [e for e in gen_history(rng, meth, 25, replay=False) if e[0] == "W" and e[1][0] >= 0]
                hists.append(pre + [("R",)])
                hists.append(pre + [("R",), ("R",)])
                check_histories(res, impl, meth, hists, "random", flags)
    for flags in FLAGS:
        for meth in (0, 1, 2):
            real_recording(res, meth, flags)
    for meth in (0, 1, 2):
        for form in (0, 1, 2):
            windowed_start(res, meth, form)
    res.sample({"method": "move", "events": [list(e) for e in WITNESS_STALE],
                "note": "witness of C17_finalized_refuted (stale metadata after reordered events)"})
    # guard the extraction with vm_compute
    hs = [gen_history(rng, m, 12, replay=False) for m in (0, 1, 2)]
    encs = [enc_history(m, True, h, fl) for m, h, fl in zip((0, 1, 2), hs, FLAGS)]
    exprs = ["(run 1 [%s])" % "; ".join("(%d)" % x for x in e[1:]) for e in encs]
    vm = common.run_model_vm("From DRF Require Import Extract.MirrorRunner.", exprs)
    ex = common.run_model("mirror", encs)
    res.count("vm_compute_crosscheck", len(encs))
    if vm != ex:
        res.disagree("extracted OCaml vs vm_compute (mirror runner)", None, None, None)
    handler_table_leg(res)
    fault_leg(res)
    leftover_leg(res)
    consumer_leg(res)
    mirrordest_leg(res)
    res.extra["traces_validated_against_impl"] = res.dist.get("fs-operations-traced", 0)
    res.assumptions += [
        "os.rename and os.link are atomic; shutil.copy2 writes the destination name before the content is complete (traced: copyfile is replaced by a two-chunk copy to observe the middle)",
        "filecmp.cmp (shallow: size and mtime) agrees with content equality (contents of different versions differ in size here)",
        "watchdog delivers events to every handler; one event is handled at a time (the model is sequential); source files are not rewritten while being copied",
        "crash of the mirror process itself (a tmp. file left behind and later published by the link method) is outside the model",
    ]
    res.trusted += ["Model/Mirror.v is a hand model of mirror.py tied by per-event tree comparison and call tracing"]


def replay(res, rp):
    i = rp["input"]
    if "consumer_leg" in i:
        L = i["consumer_leg"]
        taken, prob = consumer_case(Impl(False), L["meth"], L["repeat"])
        print("mirror (%s); after the first file of each channel was mirrored a consumer removed %s from the destination; "
              "then two more files per channel were written and reported" % (METH[L["meth"]], taken))
        if prob:
            print("VIOLATION: %s is not under the destination:" % prob[0], prob[1])
        print("replay verdict:", "STILL VIOLATING" if prob else "no longer violating")
        return 1 if prob else 0
    if "leftover_leg" in i:
        import sys as _sys
        L = i["leftover_leg"]
        meth = L["meth"]
        impl = Impl(False)
        impl.force_symlink = False
        impl.reset(meth, (True, True))
        files = [(-1, 0, 0), (-2, 0, 1)] + [(g, key_of(j), 0) for g in (0, 1) for j in range(3)]
        for p in files:
            impl.apply(("W", p, 1))
        for p in files:
            kindof = L["stale"].get(rel(p))
            if not kindof:
                continue
            sp, dp = os.path.join(impl.src, rel(p)), os.path.join(impl.dest, rel(p))
            os.makedirs(os.path.dirname(dp), exist_ok=True)
            tp = os.path.join(os.path.dirname(dp), "tmp." + os.path.basename(dp))
            if kindof == "hard link":
                os.link(sp, tp)
            else:
                data = open(sp, "rb").read()
                open(tp, "wb").write(data if kindof == "complete copy" else data[:len(data) // 2])
        for p in files + files[::-1]:
            impl.apply(("C", p))
        dst_t = read_tree(impl.dest)
        bad = [rel(p) for p in files if dst_t.get(rel(p)) != content(p, 1)]
        print("mirror (%s) restarted over leftover staging files %s" % (METH[meth], L["stale"]))
        print("destination:", sorted(dst_t))
        print("not published with the source's content:", bad)
        print("replay verdict:", "STILL VIOLATING" if bad else "no longer violating")
        return 1 if bad else 0
    flags = tuple(i.get("flags", (True, True)))
    if i.get("real_recording"):
        real_recording(res, i["meth"], flags)
        for v in res.violations:
            print("VIOLATION", v["signature"], v["observed"])
        return 1 if res.violations else 0
    impl = Impl(bool(i.get("cross_fs")))
    impl.force_symlink = bool(i.get("source_through_symlink"))
    impl.fail_publish_at = int(i.get("fail_publish_at") or 0)
    impl.publish_count = 0
    if impl.fail_publish_at:
        print("publishing rename number %d under the destination fails with ENOSPC" % impl.fail_publish_at)
    if impl.force_symlink:
        print("the source directory is reached through a symbolic link")
    evs = [tuple(tuple(x) if isinstance(x, list) else x for x in e) for e in i["events"]]
    groups, states, viols = run_history(impl, i["meth"], evs, flags=flags)
    if impl.fail_publish_at:
        viols = [(k, v) for k, v in viols if v[0] in ("move-loses-data-file", "partial-file-under-final-name")]
    print("method", METH[i["meth"]], "include_drf", flags[0], "include_dmd", flags[1])
    for k, (e, st) in enumerate(zip(evs, states)):
        print("event", k, e, "->", st["fsops"])
    for k, v in viols:
        print("VIOLATION at event", k, v)
    return 1 if viols else 0
