"""C07 -- continuous-mode gap fill semantics."""
import os

import numpy as np

import common
import writerlib as wl

LEVEL = "proof"
CELLS = [(k, s) for k in ("i", "u") for s in (1, 2, 4, 8)] + [("f", 4), ("f", 8)]


def regenerate(res):
    """T4: the extension's element-type table -> coq/Gen/DtypeTable.v"""
    import sys
    sys.path.insert(0, os.path.join(common.VERIF, "translate"))
    import c2gallina
    import dtype2gallina
    try:
        text = dtype2gallina.translate(common.REPO)
    except c2gallina.Unsupported as e:
        res.broken.append("translator T4 (dtype2gallina) rejects get_hdf5_data_type: %s" % e)
        return
    common.write_if_changed(os.path.join(common.COQ, "Gen", "DtypeTable.v"), text)
    import fill2gallina
    try:
        text = fill2gallina.translate(common.REPO)
    except c2gallina.Unsupported as e:
        res.broken.append("translator T5 (fill2gallina) cannot execute digital_rf_set_fill_value: %s" % e)
        return
    common.write_if_changed(os.path.join(common.COQ, "Gen", "FillTable.v"), text)


def stored_type(path, cx):
    """(kind, size, big-endian) of the component type HDF5 stores in rf_data"""
    import h5py
    with h5py.File(path, "r") as h:
        t = h["rf_data"].id.get_type()
        if cx:
            t = t.get_member_type(0)
        cls = t.get_class()
        if cls == h5py.h5t.FLOAT:
            k = "f"
        else:
            k = "i" if t.get_sign() == h5py.h5t.SGN_2 else "u"
        ds = h["rf_data"]
        fill = list(np.asarray(ds.fillvalue, dtype=ds.dtype).tobytes())
        return [k, t.get_size(), int(t.get_order() == h5py.h5t.ORDER_BE)], fill


def layouts(cfg):
    """write sequences (relative start, length) with a gap inside a file, at the head of the first file,
    at the tail of the last, and spanning whole files"""
    pf = cfg.per_file()
    if pf < 6:
        return {
            "gap-inside-file": [(0, 1), (2 * pf + 2, 1)],
            "head-of-first-file": [(1, 1)],
            "tail-of-last-file": [(0, 3 * pf + 1)],
            "gap-spanning-files": [(0, 2), (5 * pf + 1, 2)],
            "one-sample": [(pf, 1)],
        }
    return {
        "gap-inside-file": [(0, 3), (5, 2)],
        "head-of-first-file": [(3, pf - 3)],
        "tail-of-last-file": [(0, pf + 2)],
        "gap-spanning-files": [(0, 2), (3 * pf + 1, 2)],
        "one-sample": [(pf // 2, 1)],
    }


def run(res):
    common.use_impl()
    import digital_rf
    rng = res.rng
    work = common.scratch_dir()
    res.rule = ("complete enumeration of element types {i,u}x{1,2,4,8}+{f4,f8} x byte order x real/complex x "
                "subchannels {1,3} x 5 gap layouts (inside a file, head of first file, tail of last file, spanning "
                "whole files, single sample) in continuous mode without compression: DigitalRFReader over whole "
                "files and raw rf_data; then random histories in every mode against the Coq writer model, and "
                "continuous+compression/checksum against gapped with the same filters; non-trivial = distinct case")
    res.extra["exhaustive"] = True
    n_cells = 0
    dtype_seen = {}
    for kind, size in CELLS:
        for order in ("<", ">"):
            if size == 1 and order == ">":
                continue
            for cx in (False, True):
                for nsub in (1, 3):
                    cfgs = [wl.Cfg(100, 1, 1, 100, 150000000000 + 7, True, 0, False, kind, size, order, cx, nsub)]
                    # start 7 samples into a file: 100 Hz, 100 ms files -> 10 samples/file
                    if (kind, size) in (("i", 2), ("f", 4), ("u", 8)):
                        # windows of unequal size: 25 Hz with 100 ms files = 2.5 samples per file; 200/3 Hz, 400 ms
                        cfgs.append(wl.Cfg(25, 1, 1, 100, 37500000000 + 1, True, 0, False, kind, size, order, cx, nsub))
                        cfgs.append(wl.Cfg(200, 3, 2, 400, 100000000000 + 5, True, 0, False, kind, size, order, cx, nsub))
                    for cfg0 in cfgs:
                      for lname, segs in layouts(cfg0).items():
                          n_cells += 1
                          chdir = os.path.join(work, "c%d" % n_cells, "ch")
                          ops = []
                          tag = 1
                          for (s, ln) in segs:
                              ops.append(("w", s, ln, tag))
                              tag += ln
                          ops.append(("c",))
                          reports, w = wl.run_impl(cfg0, ops, chdir)
                          hist = {"cfg": cfg0.as_dict(), "layout": lname, "ops": [list(o) for o in ops]}
                          res.case((cfg0.key(), lname))
                          res.count("cell:%s%d%s%s" % (kind, size, order, "c" if cx else "r"))
                          m = wl.abs_of_history(cfg0, ops, reports)
                          exp = wl.expected_with_fill(cfg0, m)
                          files = wl.dump_files(chdir)
                          if files and (kind, size, order, cx) not in dtype_seen:
                              dtype_seen[(kind, size, order, cx)] = (stored_type(files[0]["path"], cx),
                                                                     [ord(w.byteorder), ord(w.realdtype.kind), w.realdtype.itemsize], hist)
                          # a file exists only if at least one slot was written
                          want_files = sorted({wl.F_of(cfg0, k) for k in m})
                          if [f["ms"] for f in files] != want_files:
                              res.violation("file-set-wrong", "files exist that hold no written slot (or are missing)",
                                            hist, want_files, [f["ms"] for f in files])
                          for f in files:
                              lo, hi = wl.file_start(cfg0, f["ms"]), wl.file_start(cfg0, f["ms"] + cfg0.fc)
                              if f["rows"] != [(lo, 0)] or f["data"].shape[0] != hi - lo:
                                  res.violation("not-one-full-block", "a continuous file does not expose every slot of its window as a single block",
                                                dict(hist, file=f["name"]), [[(lo, 0)], hi - lo], [f["rows"], f["data"].shape[0]])
                                  continue
                              tags = [exp.get(k, -1) for k in range(lo, hi)]
                              if not wl.arrays_equal(cfg0, wl.enc(cfg0, tags), f["data"]):
                                  bad = [k for k in range(lo, hi) if exp.get(k, -1) == -1]
                                  sig = "fill-not-missing-value:%s%s%d" % (order, kind, size)
                                  res.violation(sig, "never-written slots do not read as the documented missing value (or written data differs)",
                                                dict(hist, file=f["name"]), "missing value %r at %r" % (wl.missing_value(cfg0), bad[:4]),
                                                repr(f["data"][:4].tolist())[:300])
                          # through the reader
                          r = digital_rf.DigitalRFReader(os.path.dirname(chdir))
                          b = r.get_bounds("ch")
                          if files:
                              lo = wl.file_start(cfg0, files[0]["ms"])
                              hi = wl.file_start(cfg0, files[-1]["ms"] + cfg0.fc) - 1
                              got = r.read(lo, hi, "ch")
                              runs = wl.runs_of(exp, lo, hi)
                              ok = sorted(int(k) for k in got) == [s for s, _ in runs] and all(
                                  wl.arrays_equal(cfg0, wl.enc(cfg0, t), np.asarray(got[s]).reshape(len(t), -1) if not cx else got[s])
                                  for s, t in runs) if True else False
                              if not ok:
                                  res.violation("reader-fill-differs:%s%s%d" % (order, kind, size),
                                                "DigitalRFReader.read over whole files does not return written data + missing values",
                                                hist, [(s, len(t)) for s, t in runs], sorted((int(k), len(v)) for k, v in got.items()))
    res.sample({"cells_x_layouts": n_cells})
    # the regenerated element-type table (Gen/DtypeTable.v) and the hand-written description of what the
    # Python front end passes (Model/Dtype.v) against what the real writer passed and HDF5 stored
    keys = sorted(dtype_seen)
    import sys
    sys.path.insert(0, os.path.join(common.VERIF, "translate"))
    import c2gallina
    import fill2gallina
    try:
        fill_fn = c2gallina.clang_ast(os.path.join(common.REPO, "c/lib/rf_write_hdf5.c"), "digital_rf_set_fill_value", common.REPO)
    except c2gallina.Unsupported:
        fill_fn = None
    kc = {"i": "KI", "u": "KU", "f": "KF"}
    terms = []
    for (kind, size, order, cx) in keys:
        d = "(mkNp %s %d %s)" % (kc[kind], size, "true" if order == ">" else "false")
        terms.append("(let d := %s in [byteorder_char d; kind_char d; nsz d] ++ match get_hdf5_data_type (byteorder_char d) (kind_char d) (nsz d) "
                     "with Some n => match h5_predef n with Some (k, sz, be) => [1; (match k with KI => 105 | KU => 117 | KF => 102 end); sz; "
                     "(if be then 1 else 0)] | None => [0] end | None => [-1] end)" % d)
    outs = common.run_model_vm("From DRF Require Import Model.FillValue Model.Dtype Gen.DtypeTable.", terms)
    for key, out in zip(keys, outs):
        (st, fill), passed, hist = dtype_seen[key]
        res.count("dtype_table_rows_compared")
        # T5: the regenerated fill table row of the cell HDF5 actually stores, against the fill bytes in the file
        if fill_fn is not None:
            try:
                ret, calls = fill2gallina.run_cell(fill_fn, {"i": "KI", "u": "KU", "f": "KF"}[st[0]], st[1], bool(st[2]), key[3])
            except c2gallina.Unsupported as e:
                ret, calls = "translator T5 cannot execute the function: %s" % e, []
            res.count("fill_table_rows_compared")
            if ret != 0 or len(calls) != 1 or calls[0][1] != fill:
                res.disagree("fill table (digital_rf_set_fill_value executed by translator T5) vs the fill value stored in a real file",
                             dict(hist, dtype=list(key)), [ret, calls], fill)
                break
        impl = passed + [1, ord(st[0]), st[1], st[2]]
        if key[1] == 1:
            out, impl = out[:6], impl[:6]        # one-byte types: the byte order of the stored type is immaterial
        if out != impl:
            res.disagree("element-type table (regenerated from get_hdf5_data_type) / front-end description vs what the real writer "
                         "passed and HDF5 stored", dict(hist, dtype=list(key)), out, impl)
            break

    # chunked continuous == gapped representation (same filters), and model correspondence in all modes
    def oracle(cfg, ops, reports, files, chdir, mrep, mfiles, hist):
        if cfg.cont and not cfg.chunk and all(r[0] in (0, 1) for r in reports):
            # the property itself on an arbitrary history (empty writes, multi-block calls, refused calls):
            # every file is one full block; written slots hold their value, every other slot the missing value
            m = wl.abs_of_history(cfg, ops, reports)
            exp = wl.expected_with_fill(cfg, m)
            res.count("history-fill-oracle")
            for f in files:
                if f["tmp"]:
                    continue
                lo, hi = wl.file_start(cfg, f["ms"]), wl.file_start(cfg, f["ms"] + cfg.fc)
                if [tuple(r) for r in f["rows"]] != [(lo, 0)] or f["data"].shape[0] != hi - lo:
                    res.violation("not-one-full-block", "a continuous file does not expose every slot of its window as a single block",
                                  dict(hist, file=f["name"]), [[(lo, 0)], hi - lo], [f["rows"], f["data"].shape[0]])
                    return
                tags = [exp.get(k, -1) for k in range(lo, hi)]
                if not wl.arrays_equal(cfg, wl.enc(cfg, tags), f["data"]):
                    res.violation("fill-or-data-misplaced", "a continuous file does not hold the written values at the written "
                                  "slots and the missing value everywhere else", dict(hist, file=f["name"]),
                                  "values at their slots, missing value elsewhere", "differs")
                    return
        if cfg.cont and cfg.chunk:
            g = wl.Cfg(cfg.n, cfg.d, cfg.sc, cfg.fc, cfg.start, False, cfg.comp, cfg.cksum, cfg.kind, cfg.size,
                       cfg.order, cfg.is_complex, cfg.nsub)
            ch2 = os.path.join(os.path.dirname(chdir), "gapped", "ch")
            rep2, w2 = wl.run_impl(g, ops, ch2)
            try:
                w2.close()
            except Exception:  # noqa
                pass
            f2 = wl.dump_files(ch2)
            same = ([(f["ms"], f["rows"]) for f in files] == [(f["ms"], f["rows"]) for f in f2]
                    and all(wl.arrays_equal(cfg, a["data"], b["data"]) for a, b in zip(files, f2))
                    and [r[:5] for r in reports] == [r[:5] for r in rep2])
            res.count("chunked-continuous-vs-gapped")
            if not same:
                res.violation("chunked-continuous-differs-from-gapped", "continuous mode with compression/checksum does not store gaps as gapped mode does",
                              hist, [(f["ms"], f["rows"]) for f in f2], [(f["ms"], f["rows"]) for f in files])

    wl.run_histories(res, 60 if res.tier == "quick" else 1500, oracle, modes=["cont", "cont+comp", "cont+cksum", "cont"])
    legacy_props_leg(res)
    res.trusted += ["translate/fill2gallina.py (T5): an interpreter of the clang AST of digital_rf_set_fill_value, run once per cell with the "
                    "HDF5 type queries stubbed and a little-endian host; NAN = canonical quiet NaN bits; the resulting bytes are "
                    "compared with the fill read back from real files for every cell",
                    "translate/dtype2gallina.py (T4): if/else-chain of get_hdf5_data_type from clang's JSON AST, fail-closed; "
                    "Model/Dtype.v h5_predef is HDF5's meaning of its predefined types (compared with h5py on every run)"]
    res.assumptions += ["HDF5 applies the fill value it was given to every unwritten element of a contiguous dataset",
                        "Model/FillValue.v is a hand model of digital_rf_set_fill_value on a little-endian host, tied by the complete cell enumeration above"]


def legacy_props_case(attr, dtype_kind="i2"):
    """a continuous (no compression, no checksums) channel whose drf_properties.h5 lacks one attribute -- written by
    another version of the library, or damaged.  A new recorder either refuses the channel or, if it goes on, every
    file it makes is still one full block over its window.  -> ("refused" | "accepted", problem or None)"""
    import h5py
    import digital_rf  # noqa
    work = common.scratch_dir("c07legacy-")
    chdir = os.path.join(work, "top", "ch")
    cfg = wl.Cfg(100, 1, 2, 1000, 1500000000 * 100, True, 0, False, "i", 2, "<", False, 1)
    pf = cfg.per_file()
    rep, w = wl.run_impl(cfg, [("w", 0, pf // 2, 1), ("c",)], chdir)
    with h5py.File(os.path.join(chdir, "drf_properties.h5"), "r+") as h:
        if attr not in h.attrs:
            return "absent", None
        del h.attrs[attr]
    c2 = wl.Cfg(cfg.n, cfg.d, cfg.sc, cfg.fc, wl.file_start(cfg, wl.F_of(cfg, cfg.start) + 3 * cfg.fc) + 30, True, 0, False,
                cfg.kind, cfg.size, cfg.order, cfg.is_complex, cfg.nsub)
    before = {f["name"] for f in wl.dump_files(chdir)}
    try:
        w2 = wl.make_writer(c2, chdir)
    except Exception:  # noqa
        return "refused", None
    try:
        w2.rf_write(np.arange(40, dtype="i2") + 1)
        w2.rf_write(np.arange(10, dtype="i2") + 1, 55)
        w2.close()
    except Exception as e:  # noqa
        return "accepted", ("write-fails", repr(e)[:200])
    for f in wl.dump_files(chdir):
        if f["tmp"] or f["name"] in before:
            continue
        lo, hi = wl.file_start(cfg, f["ms"]), wl.file_start(cfg, f["ms"] + cfg.fc)
        if [tuple(r) for r in f["rows"]] != [(lo, 0)] or f["data"].shape[0] != hi - lo:
            return "accepted", (f["name"], [[(lo, 0)], hi - lo], [f["rows"], f["data"].shape[0]])
    return "accepted", None


LEGACY_ATTRS = ["is_continuous", "is_complex", "num_subchannels", "file_cadence_millisecs", "subdir_cadence_secs",
                "sample_rate_numerator", "sample_rate_denominator", "H5Tget_class", "H5Tget_size", "H5Tget_order",
                "H5Tget_precision", "H5Tget_offset", "digital_rf_version", "epoch"]


def legacy_props_leg(res):
    for attr in LEGACY_ATTRS:
        what, prob = legacy_props_case(attr)
        res.count("properties-file-lacking-an-attribute:" + what)
        if prob:
            res.violation("not-one-full-block", "a continuous recorder that goes on over a properties file lacking `%s` makes a file "
                          "that is not one full block over its window" % attr, {"legacy_properties_without": attr},
                          prob[1] if len(prob) > 2 else "files of one full block", prob[2] if len(prob) > 2 else list(prob))
            return


def replay(res, rp):
    if isinstance(rp.get("input"), dict) and "legacy_properties_without" in rp["input"]:
        common.use_impl()
        a = rp["input"]["legacy_properties_without"]
        what, prob = legacy_props_case(a)
        print("continuous channel (100 Hz, one file per second) whose drf_properties.h5 lacks `%s`: the second recorder is %s" % (a, what))
        if prob:
            print("VIOLATION:", prob)
        print("replay verdict:", "STILL VIOLATING" if prob else "no longer violating")
        return 1 if prob else 0
    return wl.replay(res, rp)
