"""C11 -- multi-session and multi-directory continuity without overwrite."""
import hashlib
import os

import numpy as np

import attrlib
import common
import writerlib as wl
from props import c01

LEVEL = "proof"


def regenerate(res):
    attrlib.regenerate(res)


def final_hashes(chdir):
    out = {}
    for root, _, files in os.walk(chdir):
        for f in files:
            if f.startswith("rf@"):
                p = os.path.join(root, f)
                out[os.path.relpath(p, chdir)] = hashlib.sha256(open(p, "rb").read()).hexdigest()
    return out


def gen_sessions(rng, cfg, nsess):
    """ops for several sessions; later sessions start later than / earlier than / inside recorded periods"""
    pf = cfg.per_file()
    ops = []
    tag = 1
    lo = hi = None          # absolute range touched so far
    start = cfg.start
    for s in range(nsess):
        if s > 0:
            kind = rng.choice(["later", "later", "earlier", "inside", "inside-same-file", "just-after"])
            if kind == "later":
                start = hi + rng.choice([1, pf, 3 * pf])
            elif kind == "just-after":
                start = hi + 1
            elif kind == "earlier":
                start = max(0, lo - rng.choice([pf // 2 + 1, 2 * pf, 5 * pf]))
            elif kind == "inside":
                start = rng.randrange(lo, hi + 1)
            else:
                start = lo + rng.choice([0, 1])
            ops.append(("session", start))
        cur = 0
        for _ in range(rng.randrange(1, 4)):
            gap = rng.choice([0, 0, 1, pf, 2 * pf])
            ln = max(1, rng.choice([1, pf - 1, pf, pf + 1, 2 * pf + 1]))
            if rng.random() < 0.35:
                # one rf_write_blocks call whose blocks lie in different file periods (in a later session some
                # of them recorded already, others free): a refusal of any block must surface
                nb = rng.choice([2, 2, 3])
                G, D, off, g = [], [], 0, cur + gap
                for _b in range(nb):
                    bl = max(1, rng.choice([1, 2, pf - 1, pf]))
                    G.append(g)
                    D.append(off)
                    off += bl
                    g += bl + rng.choice([1, pf, 2 * pf, 3 * pf + 1])
                ops.append(("b", off, tag, G, D))
                ln = (G[-1] + (off - D[-1])) - (cur + gap)
                a, b = start + cur + gap, start + cur + gap + ln - 1
                lo = a if lo is None else min(lo, a)
                hi = b if hi is None else max(hi, b)
                cur += gap + ln
                tag += off
                continue
            ops.append(("w", cur + gap, ln, tag))
            a, b = start + cur + gap, start + cur + gap + ln - 1
            lo = a if lo is None else min(lo, a)
            hi = b if hi is None else max(hi, b)
            cur += gap + ln
            tag += ln
        if rng.random() < 0.4:
            # retry into the same place (may be refused twice), then a clearly later period
            ops.append(("w", cur, 1, tag))
            tag += 1
            ops.append(("w", cur + 1, 1, tag))
            tag += 1
            far = (hi - start) + 3 * pf + 1 if hi - start > cur else cur + 3 * pf + 1
            ops.append(("w", far, 2, tag))
            hi = max(hi, start + far + 1)
            tag += 2
    ops.append(("c",))
    return ops


def run(res):
    common.use_impl()
    import digital_rf
    rng = res.rng
    work = common.scratch_dir()
    nh = 80 if res.tier == "quick" else 2000
    res.rule = ("2-4 sessions per channel directory with start indices later than, just after, earlier than and "
                "inside the recorded periods (including the same file period, retried twice, then a later period); "
                "every call's result, the files and the cursor are compared with the Coq writer model; oracle: "
                "finalized files of earlier sessions keep their bytes, a write that needs an existing file is "
                "rejected, accepted samples read back, a later period stays writable; every single-parameter "
                "mismatch is refused with the directory untouched; same-named channels under several top-level "
                "directories read back as the union; non-trivial = distinct history")
    gaprule = wl.detect_gaprule(res)
    hs = []
    for i in range(nh):
        cfg = wl.gen_cfg(rng, modes=["gapped", "gapped", "cont", "cont+comp"])
        hs.append((cfg, gen_sessions(rng, cfg, rng.randrange(2, 5))))
    mo = common.run_model("writer", [wl.encode_case(c, o, gaprule) for c, o in hs])
    ndis = 0
    for i, ((cfg, ops), out) in enumerate(zip(hs, mo)):
        chdir = os.path.join(work, "s%d" % i, "ch")
        snaps = []

        live = [None]

        def hook(when, j, op, w, before=None, rep=None, chdir=chdir, snaps=snaps, live=live, cfg=cfg):
            if when == "before" and op[0] == "session":
                w.close()
                snaps.append(final_hashes(chdir))
                # a reader kept alive across the sessions: after every session it reads from well before to well
                # after what exists (also where no subdirectory exists yet); at the end it must see the union
                try:
                    if live[0] is None:
                        live[0] = digital_rf.DigitalRFReader(os.path.dirname(chdir))
                    b = live[0].get_bounds("ch")
                    if b[0] is not None:
                        pfile = max(1, cfg.per_file())
                        live[0].read(max(0, b[0] - 3 * pfile), b[1] + 8 * pfile, "ch")
                except Exception:  # noqa  (judged at the end)
                    pass
        reports, w = wl.run_impl(cfg, ops, chdir, hook=hook)
        files = wl.dump_files(chdir)
        mrep, mfiles = wl.parse_model(out, len(ops))
        hist = {"cfg": cfg.as_dict(), "ops": [list(o) for o in ops], "directory_spelling": getattr(w, "_verif_pform", None)}
        res.case((cfg.key(), str(ops)))
        res.count("session_histories")
        res.count("sessions", 1 + sum(1 for o in ops if o[0] == "session"))
        if i < 1:
            res.sample(hist)
        for r in reports:
            res.count("class:%s" % r[0])
        if ndis < 5:
            for j, (ri, rm) in enumerate(zip(reports, mrep)):
                rm2 = [rm[0], 0] + rm[2:] if rm[0] != 0 else rm
                if ri[:5] != rm2[:5]:
                    res.disagree("writer model vs implementation (sessions): report after call %d" % j, hist, rm2[:5], ri[:5])
                    ndis += 1
                    break
            else:
                diff = wl.compare_files(cfg, mfiles, files)
                if diff and "sequence_num" not in diff:
                    res.disagree("writer model vs implementation (sessions): " + diff, hist, None, None)
                    ndis += 1
        bad = wl.misplaced_files(cfg, files)
        if bad:
            res.violation("file-in-wrong-subdirectory", "a data file is not in the subdirectory the layout names for its time",
                          hist, bad[0][2], list(bad[0][:2]))
        # oracle 1: files finalized by earlier sessions keep their bytes
        endh = final_hashes(chdir)
        for k, snap in enumerate(snaps):
            for p, hsh in snap.items():
                if endh.get(p) != hsh:
                    res.violation("finalized-file-altered", "a data file finalized by an earlier session was replaced or altered",
                                  dict(hist, file=p, session=k), hsh, endh.get(p))
        # oracle 2: accepted samples read back; nothing else except partial effects of refused calls
        m_acc = wl.abs_of_history(cfg, ops, reports)
        stored = {}
        for f in files:
            rows, nd = f["rows"], f["data"].shape[0]
            for ii, (g, o) in enumerate(rows):
                o2 = rows[ii + 1][1] if ii + 1 < len(rows) else nd
                for jj in range(o2 - o):
                    stored[g + jj] = 1
        missing = [k for k in m_acc if k not in stored]
        if missing:
            res.violation("accepted-sample-lost", "a sample of an accepted write is not stored after later sessions", hist, "stored", missing[:3])
        # oracle 0: a new session with the parameters of the channel is accepted (only a differing parameter refuses it)
        for j, (op, r) in enumerate(zip(ops, reports)):
            if op[0] == "session" and r[0] != 0:
                res.violation("same-parameter-session-refused", "a new session on the same channel directory with identical "
                              "parameters (the recorder passes the same path object again) was refused", dict(hist, call=j),
                              "accepted", r[:2])
                break
        # oracle 3: refusal leaves the writer usable for a later period
        start = cfg.start
        seen_refusal_files = set()
        for j, (op, r) in enumerate(zip(ops, reports)):
            if op[0] == "session":
                start = op[1]
                seen_refusal_files = set()
            if op[0] == "w" and op[1] is not None:
                K0 = start + op[1]
                F0 = wl.F_of(cfg, K0)
                later = all(F0 > f["ms"] for f in files if f["ms"] != F0 and any(
                    (g <= K0 + 10 ** 9) for g, _ in f["rows"])) if False else None
            if op[0] == "w" and r[0] == 2:
                seen_refusal_files.add(j)
            if op[0] == "w" and r[0] == 2 and seen_refusal_files and j - 1 in seen_refusal_files and j - 2 in seen_refusal_files:
                # third consecutive refusal: the generator's third write goes to a period beyond all data
                K0 = start + op[1]
                F0 = wl.F_of(cfg, K0)
                if all(f["ms"] < F0 for f in files):
                    res.violation("writer-unusable-after-refusal", "after a refused write into a finalized period the writer refuses a later, free period too",
                                  dict(hist, call=j), "accepted", "RuntimeError")
        # oracle 4: union readable through the reader
        exp = wl.expected_with_fill(cfg, {k: None for k in stored}) if False else None
        try:
            rd = digital_rf.DigitalRFReader(os.path.dirname(chdir))
            b = rd.get_bounds("ch")
            if stored and (b[0], b[1]) != (min(stored), max(stored)):
                res.violation("bounds-not-union", "bounds are not those of the union of the sessions", hist, [min(stored), max(stored)], list(b))
            if stored and live[0] is not None:
                fresh = rd.read(min(stored), max(stored), "ch")
                old_r = live[0].read(min(stored), max(stored), "ch")
                res.count("reader-kept-across-sessions")
                if [(int(k), len(v)) for k, v in sorted(fresh.items())] != [(int(k), len(v)) for k, v in sorted(old_r.items())]:
                    res.violation("long-lived-reader-misses-later-session", "a reader kept alive across the sessions (it read after "
                                  "every session, also beyond the data) does not return the union of all sessions", hist,
                                  [(int(k), len(v)) for k, v in sorted(fresh.items())], [(int(k), len(v)) for k, v in sorted(old_r.items())])
        except Exception as e:  # noqa
            res.violation("reader-fails-on-multi-session", "reader fails on a multi-session channel", hist, "ok", repr(e)[:200])

    # ---- parameter mismatch refused, directory untouched
    from props.c05 import tree_hash
    nm = 0
    decisions = []
    # (and cadences beyond 2**31 - 1 and 2**32 - 1 milliseconds: files of a month; the stored values are 64-bit)
    big = [wl.Cfg(1, 1, 2592000, 2592000000, 1500000000, False, 0, False, "i", 2, "<", False, 1),
           wl.Cfg(1, 1, 4294967, 4294967000, 1500000000, False, 0, False, "i", 2, "<", False, 1),
           wl.Cfg(10, 1, 2147484, 2147484000, 15000000000, False, 0, False, "f", 4, "<", True, 2)]
    mcfgs = [wl.gen_cfg(rng) for _ in range(12 if res.tier == "quick" else 100)] + big
    for i, cfg in enumerate(mcfgs):
        for with_data in (False, True):
            chdir = os.path.join(work, "m%d_%d" % (i, with_data), "ch")
            os.makedirs(chdir)
            w = wl.make_writer(cfg, chdir)
            if with_data:
                w.rf_write(wl.enc(cfg, range(1, 6)), 0)
            w.close()
            h0 = tree_hash(chdir)
            alts = {
                "n": dict(n=cfg.n + 1), "d": dict(d=cfg.d + 1), "unreduced-fraction": dict(n=cfg.n * 2, d=cfg.d * 2), "sc": dict(sc=cfg.sc * 2), "fc": dict(fc=cfg.fc * 2 if (cfg.sc * 1000) % (cfg.fc * 2) == 0 else cfg.fc // 2 or 1),
                "cont": dict(cont=not cfg.cont), "complex": dict(is_complex=not cfg.is_complex), "nsub": dict(nsub=cfg.nsub + 1),
                "size": dict(size=8 if cfg.size != 8 else 4), "kind": dict(kind="f" if cfg.kind != "f" else "i", size=4 if cfg.size not in (4, 8) else cfg.size),
                "order": dict(order=">" if cfg.order == "<" else "<", size=cfg.size if cfg.size > 1 else 2),
            }
            for name, ch in alts.items():
                c2 = wl.Cfg(cfg.n, cfg.d, cfg.sc, cfg.fc, cfg.start + 100000, cfg.cont, cfg.comp, cfg.cksum, cfg.kind, cfg.size,
                            cfg.order, cfg.is_complex, cfg.nsub)
                for k, v in ch.items():
                    setattr(c2, k, v)
                if (c2.sc * 1000) % c2.fc != 0 or c2.key()[:4] + c2.key()[8:] == cfg.key()[:4] + cfg.key()[8:] and c2.cont == cfg.cont:
                    continue
                nm += 1
                res.case(("mismatch", cfg.key(), name, with_data))
                res.count("mismatch:" + name)
                decisions.append((cfg, c2, name, None))
                try:
                    w2 = wl.make_writer(c2, chdir)
                    w2.close()
                    decisions[-1] = (cfg, c2, name, True)
                    res.violation("mismatch-accepted:" + name, "a session with a different channel parameter was accepted",
                                  {"cfg": cfg.as_dict(), "changed": name, "new": c2.as_dict()}, "refused", "accepted")
                except Exception:  # noqa
                    decisions[-1] = (cfg, c2, name, False)
                if tree_hash(chdir) != h0:
                    res.violation("mismatch-touched-directory:" + name, "a refused session changed the channel directory",
                                  {"cfg": cfg.as_dict(), "changed": name}, "untouched", "changed")
            # an identical writer object (later start) must be accepted
            c3 = wl.Cfg(cfg.n, cfg.d, cfg.sc, cfg.fc, cfg.start + 100000, cfg.cont, cfg.comp, cfg.cksum, cfg.kind, cfg.size,
                        cfg.order, cfg.is_complex, cfg.nsub)
            try:
                wl.make_writer(c3, chdir).close()
                decisions.append((cfg, c3, "same", True))
            except Exception:  # noqa
                decisions.append((cfg, c3, "same", False))
                res.violation("same-parameters-refused", "a session with identical channel parameters was refused",
                              {"cfg": cfg.as_dict()}, "accepted", "refused")
    # the regenerated comparison table (Gen/AttrTables.v) decides the same way as the real writer
    outs = common.run_model("attrs", [[3] + attrlib.env(a) + attrlib.env(b) for (a, b, _, _) in decisions])
    for (a, b, name, acc), out in zip(decisions, outs):
        res.count("restart-decision:" + ("accepted" if acc else "refused"))
        if (out[0] == 0) != bool(acc):
            res.disagree("restart comparison model (regenerated from digital_rf_handle_metadata) vs the real writer",
                         {"cfg": a.as_dict(), "new": b.as_dict(), "changed": name}, "accepted" if out[0] == 0 else "refused (%d)" % out[0],
                         "accepted" if acc else "refused")
            break
    # ---- a stale tmp. file left by a killed recorder in the period a new session starts in: the session's
    #      write into that period is refused, and the leftover must never appear under a final name
    for i in range(6 if res.tier == "quick" else 40):
        cfg = wl.gen_cfg(rng, modes=["gapped", "cont", "cont+comp"])
        chdir = os.path.join(work, "stale%d" % i, "ch")
        F = wl.F_of(cfg, cfg.start)
        sub = os.path.join(chdir, wl.expected_subdir(cfg, F))
        os.makedirs(sub)
        stale = os.path.join(sub, "tmp.rf@%d.%03d.h5" % (F // 1000, F % 1000))
        with open(stale, "wb") as fh:
            fh.write(b"\x89HDF\r\n\x1a\n" + b"leftover of a killed recorder" * 3)
        hist = {"cfg": cfg.as_dict(), "stale_tmp": os.path.basename(stale)}
        res.case(("stale-tmp", cfg.key()))
        res.count("stale-tmp")
        common.set_current(dict(hist, api="python"))
        try:
            w = wl.make_writer(cfg, chdir)
        except Exception as e:  # noqa
            res.violation("stale-tmp-blocks-construction", "a leftover tmp. file prevents opening the channel", hist, "writer", repr(e)[:200])
            continue
        refused = False
        try:
            w.rf_write(wl.enc(cfg, range(1, 4)), 0)
        except Exception:  # noqa
            refused = True
        if i % 2 == 1:                # half of the sessions go on to a later period, half are closed right away
            try:
                far = 20 * cfg.per_file()
                w.rf_write(wl.enc(cfg, range(10, 13)), far)
            except Exception:  # noqa
                pass                  # a writer that stops after the refusal is acceptable (I/O failure is sticky)
        try:
            w.close()
        except Exception:  # noqa
            pass
        final = os.path.join(sub, os.path.basename(stale)[4:])
        if os.path.exists(final):
            ok = False
            if not refused:
                try:
                    import h5py
                    with h5py.File(final, "r") as h:
                        ok = h["rf_data"].shape[0] >= 3
                except Exception:  # noqa
                    ok = False
            if not ok:
                res.violation("stale-tmp-published", "a leftover tmp. file of a killed recorder appears under a final name after a later session",
                              dict(hist, write_refused=refused), "no rf@ file for that period (or a complete one written by the session)", os.path.basename(final))
                continue
        try:
            rd = digital_rf.DigitalRFReader(os.path.dirname(chdir))
            b = rd.get_bounds("ch")
            if b[0] is not None:
                rd.read(b[0], b[1], "ch")
        except Exception as e:  # noqa
            res.violation("reader-fails-after-stale-tmp", "the reader fails on a channel that held a leftover tmp. file", hist, "ok", repr(e)[:200])
    # ---- same-named channel under several top-level directories; a directory may hold several
    #      recording periods (sessions) that surround those of another directory
    for i in range(16 if res.tier == "quick" else 200):
        cfg = wl.gen_cfg(rng, modes=["gapped", "cont"])
        pf = cfg.per_file()
        ndirs = rng.choice([2, 2, 3])
        tops = [os.path.join(work, "t%d_%d" % (i, k)) for k in range(ndirs)]
        nper = rng.randrange(ndirs, 6)
        owner = [rng.randrange(ndirs) for _ in range(nper)]
        for k in range(ndirs):              # every directory records at least one period
            if k not in owner:
                owner[rng.randrange(nper)] = k
        exp = {}
        tag = 1
        base = cfg.start
        writers = {}
        nextF = wl.F_of(cfg, base) + cfg.fc
        adjacent = rng.random() < 0.6
        if i % 3 == 0:
            # one period per directory, far apart (so the first and the last directory can be one-sample directories)
            adjacent = False
            nper = ndirs
            owner = list(range(ndirs))
            rng.shuffle(owner)
        periods = []
        for per, k in enumerate(owner):
            if adjacent:
                # the periods follow each other without a hole: a period ends on the last sample of a file and
                # the next one (often in another directory) starts on the first sample of the next file
                off = rng.choice([0, 1, 2]) if per == 0 else 0
                st = wl.file_start(cfg, nextF) + off
                nfiles = rng.choice([1, 2])
                nsamp = wl.file_start(cfg, nextF + nfiles * cfg.fc) - st
                nextF += nfiles * cfg.fc
                ops = [("w", 0, nsamp, tag), ("c",)]
                tag += nsamp
            else:
                st = wl.file_start(cfg, wl.F_of(cfg, base) + cfg.fc * (1 + 12 * per)) + rng.choice([0, 1, 2])
                if per in (0, nper - 1) and owner.count(k) == 1 and rng.random() < 0.6:
                    # a directory whose whole content is ONE sample (a one-sample session), the earliest or the
                    # latest of the union: its first and last index coincide
                    ops = [("w", 0, 1, tag), ("c",)]
                    tag += 1
                    res.count("multidir-one-sample-directory")
                else:
                    ops = [("w", 0, pf + 1, tag), ("w", pf + 3, 2, tag + pf + 1), ("c",)]
                    tag += pf + 3
            c2 = wl.Cfg(cfg.n, cfg.d, cfg.sc, cfg.fc, st, cfg.cont, cfg.comp, cfg.cksum, cfg.kind, cfg.size, cfg.order, cfg.is_complex, cfg.nsub)
            periods.append([k, st, [list(o) for o in ops]])
            reports, w = wl.run_impl(c2, ops, os.path.join(tops[k], "ch"))
            m = wl.abs_of_history(c2, ops, reports)
            exp.update(wl.expected_with_fill(c2, m))
        if adjacent:
            res.count("multidir-adjacent-periods")
        order = list(tops)
        rng.shuffle(order)
        empty_at = None
        if rng.random() < 0.5:
            # a further directory whose channel exists (drf_properties.h5) but holds no data file yet -- a
            # recording that has just been started; it contributes nothing and must not disturb anything
            et = os.path.join(work, "t%d_empty" % i)
            os.makedirs(os.path.join(et, "ch"))
            wl.make_writer(c2, os.path.join(et, "ch")).close()
            empty_at = rng.randrange(0, len(order) + 1)
            order.insert(empty_at, et)
            res.count("multidir-with-empty-channel-directory")
        hist = {"cfg": cfg.as_dict(), "period_owner": owner, "dir_order": [os.path.basename(t) for t in order],
                "multidir_periods": periods, "empty_at": empty_at}
        res.case(("multidir", cfg.key(), tuple(owner), tuple(order)))
        res.count("multidir")
        try:
            tops_arg = [common.path_form(t) for t in order]
            rd = digital_rf.DigitalRFReader(tuple(tops_arg) if i % 2 else tops_arg)
            b = rd.get_bounds("ch")
        except Exception as e:  # noqa
            res.violation("multidir-reader-fails", "a reader over several top-level directories fails (one of them holds the channel "
                          "but no data file yet)" if empty_at is not None else "a reader over several top-level directories fails",
                          hist, "bounds of the union", repr(e)[:200])
            continue
        if (b[0], b[1]) != (min(exp), max(exp)):
            res.violation("multidir-bounds", "bounds over several top-level directories are not those of the union", hist, [min(exp), max(exp)], list(b))
        got = rd.read(min(exp), max(exp), "ch")
        want = wl.runs_of(exp)
        ok = sorted(int(k) for k in got) == [a for a, _ in want] and all(
            wl.arrays_equal(cfg, wl.enc(cfg, t), np.asarray(got[a]).reshape(len(t), -1) if not cfg.is_complex else got[a]) for a, t in want)
        if not ok:
            res.violation("multidir-read-differs", "reading over several top-level directories is not the union of their samples", hist,
                          [(a, len(t)) for a, t in want], [(int(k), len(v)) for k, v in sorted(got.items())])
        # ---- per-sample properties: every recorded period answers for its first sample, whichever directory holds it and
        #      whatever lies around it in the other directories
        for _k, st_, _ops in periods:
            res.count("multidir-per-sample-properties")
            try:
                pr = rd.get_properties("ch", sample=st_)
                okp = int(pr["sample_rate_numerator"]) == cfg.n
            except Exception as e:  # noqa
                okp, pr = False, repr(e)[:200]
            if not okp:
                res.violation("multidir-per-sample-properties-missing", "get_properties(channel, sample=) fails for a written sample of a "
                              "channel spread over several top-level directories", dict(hist, sample=st_), "the properties of its file", str(pr)[:200])
                break
        # ---- windows: edges of the runs and of the directories' periods, single samples; the block map
        #      reported without reading data must agree
        runs = wl.runs_of(exp)
        pts = sorted({x for a, t in runs for x in (a - 1, a, a + 1, a + len(t) - 2, a + len(t) - 1, a + len(t))} |
                     {wl.file_start(cfg, wl.F_of(cfg, k) + cfg.fc) + dlt for k in list(exp)[::max(1, len(exp) // 6)] for dlt in (-1, 0)})
        pts = [x for x in pts if x >= 0]
        for _ in range(12):
            a = rng.choice(pts)
            bnd = rng.choice([a, a, rng.choice(pts), rng.choice(pts)])
            a, bnd = min(a, bnd), max(a, bnd)
            want = wl.runs_of(exp, a, bnd)
            whist = dict(hist, window=[a, bnd])
            res.count("multidir-window-read")
            try:
                got = rd.read(a, bnd, "ch")
                blocks = rd.get_continuous_blocks(a, bnd, "ch")
            except Exception as e:  # noqa
                res.violation("multidir-window-read-fails", "a windowed read over several top-level directories fails", whist,
                              [(x, len(t)) for x, t in want], repr(e)[:200])
                continue
            ok = sorted(int(k) for k in got) == [x for x, _ in want] and all(
                wl.arrays_equal(cfg, wl.enc(cfg, t), np.asarray(got[x]).reshape(len(t), -1) if not cfg.is_complex else got[x]) for x, t in want)
            if not ok:
                res.violation("multidir-window-read-differs", "a windowed read over several top-level directories is not the "
                              "union of their samples restricted to the window", whist,
                              [(x, len(t)) for x, t in want], [(int(k), len(v)) for k, v in sorted(got.items())])
            if [(int(k), int(v)) for k, v in sorted(blocks.items())] != [(x, len(t)) for x, t in want]:
                res.violation("multidir-window-blocks-differ", "get_continuous_blocks over several top-level directories does not "
                              "report the blocks of the union restricted to the window", whist,
                              [(x, len(t)) for x, t in want], [(int(k), int(v)) for k, v in sorted(blocks.items())])
    res.assumptions += ["the same file period is never recorded in two different top-level directories (the format does not allow it)"]
    res.trusted += [T3_TRUST, "Model/WriterCore.v (existing-final refusal, exclusive tmp creation, session restart) is a hand model tied by this correspondence"]


T3_TRUST = ("translate/attrs2gallina.py (T3): symbolic reading of the straight-line HDF5 attribute code of "
            "digital_rf_write_metadata / digital_rf_handle_metadata from clang's JSON AST and of recreate_properties_file from "
            "Python's ast; fail-closed; its output is also compared with the attributes of real files on every run")


def replay(res, rp):
    inp = rp.get("input") or {}
    if "multidir_periods" not in inp:
        return wl.replay(res, rp)
    # ---- a same-named channel under several top-level directories: rebuild, read, compare with the union
    common.use_impl()
    import digital_rf
    cfg = wl.cfg_from_dict(inp["cfg"])
    work = common.scratch_dir()
    exp = {}
    names = {}
    for k, st, ops in inp["multidir_periods"]:
        c2 = wl.Cfg(cfg.n, cfg.d, cfg.sc, cfg.fc, st, cfg.cont, cfg.comp, cfg.cksum, cfg.kind, cfg.size, cfg.order, cfg.is_complex, cfg.nsub)
        ops = [tuple(o) for o in ops]
        top = names.setdefault(k, os.path.join(work, "top%d" % k))
        reports, w = wl.run_impl(c2, ops, os.path.join(top, "ch"))
        exp.update(wl.expected_with_fill(c2, wl.abs_of_history(c2, ops, reports)))
    # the order of the directories as the reader got them (names t<i>_<k>; t<i>_empty = channel without data)
    order = []
    for nm in inp["dir_order"]:
        if nm.endswith("_empty"):
            et = os.path.join(work, "empty")
            os.makedirs(os.path.join(et, "ch"))
            wl.make_writer(c2, os.path.join(et, "ch")).close()
            order.append(et)
        else:
            order.append(names[int(nm.rsplit("_", 1)[1])])
    rd = digital_rf.DigitalRFReader(order)
    a, b = inp.get("window") or [min(exp), max(exp)]
    want = [(x, len(t)) for x, t in wl.runs_of(exp, a, b)]
    print("directories (reader order):", inp["dir_order"], " window:", [a, b])
    bad = 0
    try:
        got = [(int(k), len(v)) for k, v in sorted(rd.read(a, b, "ch").items())]
        blocks = [(int(k), int(v)) for k, v in sorted(rd.get_continuous_blocks(a, b, "ch").items())]
        bnds = rd.get_bounds("ch")
    except Exception as e:  # noqa
        print("reader raised:", repr(e))
        return 1
    print("union of the sessions, runs (start, length):", want)
    print("read()                                    :", got, "" if got == want else "  <-- DIFFER")
    print("get_continuous_blocks()                   :", blocks, "" if blocks == want else "  <-- DIFFER")
    print("get_bounds()                              :", list(bnds), " union:", [min(exp), max(exp)],
          "" if (bnds[0], bnds[1]) == (min(exp), max(exp)) else "  <-- DIFFER")
    bad = int(got != want) + int(blocks != want) + int((bnds[0], bnds[1]) != (min(exp), max(exp)))
    print("replay verdict:", "STILL VIOLATING" if bad else "no longer violating")
    return 1 if bad else 0
