"""C08 -- reader query coherence (and the reader half of C01).

Tie: channels are produced by the REAL writer (tiny files), every rf@*.h5 is read raw with h5py
into the abstract file records of Model/ReaderCore.v (the model's only input, so the reader
model does not depend on any writer model), then a battery of queries is answered by the real
DigitalRFReader and by the extracted model under every listed variant of the two defect sites
(DESIGN 2.6).  In addition the C08 statement itself is evaluated directly on the implementation
(metamorphic relations), so that a violation has a concrete replay."""
import calendar
import glob
import json
import os
import re
import shutil
import time

import numpy as np

import common

LEVEL = "proof"
SENT = -40000                       # tag of a NaN element
CHAN = "ch"

# (n, d, file cadence ms, subdir cadence s, anchor unix second)
CONFIGS = [
    (1, 1, 4000, 8, 1500000000),
    (1, 1, 1000, 3600, 1500001200 - 3),
    (100, 1, 100, 1, 1500000000),
    (100, 1, 250, 1, 1499999999),
    (200, 3, 400, 2, 1500000000),
    (200, 3, 1000, 3600, 1500001200 - 2),
    (2 ** 31 - 1, 10 ** 9, 1000, 4, 1500000002),
    (48000, 1, 1, 1, 1500000000),
    (10 ** 6, 3, 400, 2, 1500000002),
    (10 ** 6, 3, 1, 1, 1500000000),
    (10 ** 8, 7, 1, 1, 1500000000),
    (10 ** 8, 7, 400, 2, 1500000000),
    (25 * 10 ** 6, 3, 1, 2, 1500000001),
    (10 ** 9, 7, 400, 2, 1500000000),
]
DTYPES = [("i2", False), ("f4", False), ("i2", True), ("f4", True), ("i4", False), ("f8", True),
          # stored in the other byte order (the conversions of the vector reads must not depend on it)
          (">i2", True), (">i4", False), (">f4", True)]

# the witness of ReaderProofs.file_list_complete_refuted_longdouble, always part of the batch
WITNESS = {"n": 10 ** 6, "d": 3, "fc": 400, "sc": 2, "k0": 500000000799995, "dtype": "i2", "cplx": False,
           "nsub": 2, "cont": False, "dirs": [[[0, 20], [30, 20]]], "order": [0], "name": "witness-1e6/3"}



def regenerate(res):
    """T8: candidate-file arithmetic of DigitalRFReader._get_file_list -> coq/Gen/RfLookupGen.v"""
    import os
    import sys
    import common
    sys.path.insert(0, os.path.join(common.VERIF, "translate"))
    import c2gallina
    import rfreader2gallina
    try:
        text = rfreader2gallina.translate(common.REPO)
    except c2gallina.Unsupported as e:
        res.broken.append("translator T8 (rfreader2gallina) rejects the current _get_file_list: %s" % e)
        return
    common.write_if_changed(os.path.join(common.COQ, "Gen", "RfLookupGen.v"), text)
    import rfread2gallina
    try:
        text = rfread2gallina.translate(common.REPO)
    except c2gallina.Unsupported as e:
        res.broken.append("translator T9 (rfread2gallina) rejects the current _read: %s" % e)
        return
    common.write_if_changed(os.path.join(common.COQ, "Gen", "RfReadGen.v"), text)
    import bounds2gallina
    try:
        text = bounds2gallina.translate(common.REPO)
    except c2gallina.Unsupported as e:
        res.broken.append("translator T16 (bounds2gallina) rejects the current _get_first_sample / _get_last_sample: %s" % e)
        return
    common.write_if_changed(os.path.join(common.COQ, "Gen", "BoundsGen.v"), text)
    import combine2gallina
    try:
        text = combine2gallina.translate(common.REPO)
    except c2gallina.Unsupported as e:
        res.broken.append("translator T18 (combine2gallina) rejects the current _combine_blocks: %s" % e)
        return
    common.write_if_changed(os.path.join(common.COQ, "Gen", "CombineGen.v"), text)


def cdiv(a, b):
    return -((-a) // b)


def slot_lo(ms, n, d):
    return cdiv(ms * n, 1000 * d)


def exact_ms(k, n, d):
    return k * d * 1000 // n


def float_ms(k, n, d):
    sps = np.longdouble(np.uint64(n)) / np.longdouble(np.uint64(d))
    return int(np.uint64(np.uint64(k) / sps * 1000))


# --------------------------------------------------------------------------- channel specs

def gen_spec(rng, cfgi, idx):
    n, d, fc, sc, anchor = CONFIGS[cfgi]
    cap = fc * n // (1000 * d)                      # samples per file (floor)
    dtype, cplx = rng.choice(DTYPES)
    nsub = rng.choice([1, 1, 2, 3])
    base_ms = (anchor * 1000 // fc) * fc
    if base_ms // 1000 // sc * sc * 1000 > base_ms:
        base_ms += fc
    # file slots used: consecutive, sometimes skipping
    slots = [base_ms]
    for _ in range(rng.choice([2, 3, 4, 6])):
        slots.append(slots[-1] + fc * rng.choice([1, 1, 1, 2, 3]))
    # prefer boundaries where the long-double lookup is off (they exist at ~4 % of boundaries)
    if n > 10 ** 5:
        haz = []
        m = base_ms
        for _ in range(4000):
            m += fc
            k = slot_lo(m, n, d)
            if float_ms(k, n, d) != exact_ms(k, n, d):
                haz.append(m)
                if len(haz) >= 3:
                    break
        if haz and rng.random() < 0.8:
            h = rng.choice(haz)
            slots = [h - fc, h, h + fc, h + 2 * fc] if rng.random() < 0.5 else sorted(set(slots + [h, h + fc]))
    cont = cap <= 30 and cap >= 1 and rng.random() < 0.35
    segs = []
    if cap <= 30 and rng.random() < 0.5:
        # random walk over a few files
        pos = slot_lo(slots[0], n, d) + rng.choice([0, 1, max(cap - 1, 0), rng.randrange(0, max(cap, 1))])
        total = 0
        while total < rng.choice([20, 60, 110]) and len(segs) < 12:
            nxt_edge = slot_lo(exact_ms(pos, n, d) // fc * fc + fc, n, d)
            ln = rng.choice([1, 1, 2, max(cap - 1, 1), max(cap, 1), cap + 1, 2 * cap + 1, rng.randrange(1, 2 * cap + 3)])
            ln = max(1, min(ln, 45))
            segs.append([pos, ln])
            total += ln
            pos += ln
            nxt_edge = slot_lo(exact_ms(pos, n, d) // fc * fc + fc, n, d)
            to_edge = nxt_edge - pos
            gap = rng.choice([0, 0, 1, 1, max(to_edge - 1, 0), to_edge, to_edge + 1, cap, 2 * cap + 3, rng.randrange(0, 2 * cap + 2)])
            if cont:
                gap = min(gap, 2 * cap + 3)
            pos += gap
    else:
        # clusters around file edges
        for m in slots[1:]:
            b = slot_lo(m, n, d)
            a, c = rng.randrange(1, 6), rng.randrange(1, 6)
            pat = rng.choice(["cross", "cross", "end_before", "start_at", "single_at", "single_before", "gap1",
                              "two", "split_at"])
            if pat == "cross":
                segs.append([b - a, a + c])
            elif pat == "end_before":
                segs.append([b - a, a])
            elif pat == "start_at":
                segs.append([b, c])
            elif pat == "single_at":
                segs.append([b, 1])
            elif pat == "single_before":
                segs.append([b - 1, 1])
            elif pat == "gap1":
                if a > 1:
                    segs.append([b - a, a - 1])
                segs.append([b, c])
            elif pat == "two":
                segs.append([b - a, a])
                segs.append([b + 1, c])
            elif pat == "split_at":
                segs.append([b - a, a])
                segs.append([b, c])          # contiguous, written by two calls
    # sort, drop overlaps
    segs.sort()
    out = []
    for s, ln in segs:
        if out and s < out[-1][0] + out[-1][1]:
            continue
        out.append([s, ln])
    if not out:
        out = [[slot_lo(slots[1], n, d), 3]]
    k0 = out[0][0] - rng.choice([0, 0, 0, 1, 2])
    if cont and cap > 0:
        k0 = out[0][0]
    segs = [[s - k0, ln] for s, ln in out]
    # split into one or two top-level directories
    dirs = [segs]
    order = [0]
    if len(segs) >= 2 and not cont and rng.random() < 0.35:
        if len(segs) >= 3 and rng.random() < 0.5:
            # a later-listed directory that both starts earlier and ends later than the first
            # (a "surrounding" session pair, C11): middle sessions in dir 0, outer ones in dir 1
            dirs = [segs[1:-1], [segs[0], segs[-1]]]
            order = rng.choice([[0, 1], [0, 1], [1, 0]])
        else:
            cut = rng.randrange(1, len(segs))
            dirs = [segs[:cut], segs[cut:]]
            order = rng.choice([[0, 1], [1, 0]])
    return {"n": n, "d": d, "fc": fc, "sc": sc, "k0": k0, "dtype": dtype, "cplx": cplx, "nsub": nsub,
            "cont": cont, "dirs": dirs, "order": order, "name": "cfg%d-%d" % (cfgi, idx),
            # compression / checksum change nothing a reader may observe; in continuous mode they make the
            # writer keep one index row per block instead of filling the skipped slots
            "comp": rng.choice([0, 0, 0, 1, 6]), "cksum": rng.random() < 0.25,
            "leftover": rng.random() < 0.3}


_REUSE = [0, None]


def write_channel(spec):
    """run the real writer; returns the list of top-level directories in reader order"""
    import digital_rf
    # every other channel is recorded under the SAME directory names as the one before it (removed, then written
    # again): the same file paths with other contents -- whatever a reader class remembers about a path across
    # reader objects is then wrong
    _REUSE[0] += 1
    if (_REUSE[0] % 2 == 0 or spec.get("_reuse_root")) and _REUSE[1]:
        root = _REUSE[1]
        shutil.rmtree(root, ignore_errors=True)
        os.makedirs(root)
    else:
        root = common.scratch_dir()
        _REUSE[1] = root
    tops = []
    tag = 1
    for di, segs in enumerate(spec["dirs"]):
        top = os.path.join(root, "top%d" % di)
        chdir = os.path.join(top, CHAN)
        os.makedirs(chdir)
        tops.append(top)
        first = segs[0][0]
        w = digital_rf.DigitalRFWriter(chdir, np.dtype(spec["dtype"]), spec["sc"], spec["fc"], spec["k0"] + first,
                                       spec["n"], spec["d"], uuid_str="dir%d" % di, compression_level=spec.get("comp", 0),
                                       checksum=bool(spec.get("cksum", False)), is_complex=spec["cplx"], num_subchannels=spec["nsub"],
                                       is_continuous=spec["cont"], marching_periods=False)
        for off, ln in segs:
            cnt = ln * spec["nsub"]
            t = np.arange(tag, tag + cnt).reshape(ln, spec["nsub"])
            tag += cnt
            if spec["cplx"]:
                if spec["dtype"].lstrip("<>=|")[0] == "f":
                    arr = (t + 1j * (-t)).astype("c8" if spec["dtype"].lstrip("<>=|") == "f4" else "c16")
                else:
                    arr = np.zeros(t.shape, dtype=[("r", spec["dtype"]), ("i", spec["dtype"])])
                    arr["r"] = t
                    arr["i"] = -t
            else:
                arr = t.astype(spec["dtype"])
            w.rf_write(arr, off - first)
        w.close()
        if spec.get("leftover") and di == len(spec["dirs"]) - 1:
            # what a recorder killed between closing a file and renaming it leaves behind: a complete HDF5 file
            # under a tmp. name after everything recorded.  It is produced by the writer itself (a further session
            # writing three samples into a later file period, closed; its file is then renamed back to its tmp.
            # name); readers ignore it
            before = set(glob.glob(os.path.join(chdir, "*", "rf@*.h5")))
            off, ln = segs[-1]
            per_file = -(-spec["n"] * spec["fc"] // (1000 * spec["d"]))
            cnt = 3 * spec["nsub"]
            t = np.arange(tag, tag + cnt).reshape(3, spec["nsub"])
            if spec["cplx"]:
                if spec["dtype"].lstrip("<>=|")[0] == "f":
                    arr = (t + 1j * (-t)).astype("c8" if spec["dtype"].lstrip("<>=|") == "f4" else "c16")
                else:
                    arr = np.zeros(t.shape, dtype=[("r", spec["dtype"]), ("i", spec["dtype"])])
                    arr["r"] = t
                    arr["i"] = -t
            else:
                arr = t.astype(spec["dtype"])
            try:
                w2 = digital_rf.DigitalRFWriter(chdir, np.dtype(spec["dtype"]), spec["sc"], spec["fc"],
                                                spec["k0"] + off + ln + 2 * per_file + 1, spec["n"], spec["d"], uuid_str="left",
                                                compression_level=spec.get("comp", 0), checksum=bool(spec.get("cksum", False)),
                                                is_complex=spec["cplx"], num_subchannels=spec["nsub"],
                                                is_continuous=spec["cont"], marching_periods=False)
                w2.rf_write(arr)
                w2.close()
            except Exception:  # noqa
                pass
            for f in sorted(set(glob.glob(os.path.join(chdir, "*", "rf@*.h5"))) - before):
                os.rename(f, os.path.join(os.path.dirname(f), "tmp." + os.path.basename(f)))
    return [tops[i] for i in spec["order"]]


def tags_of(v):
    """numpy data (n,) or (n, N), plain / complex / ('r','i') -> nested python ints"""
    if v.dtype.names is not None:
        re_, im_ = v["r"].astype(np.float64), v["i"].astype(np.float64)
    elif v.dtype.kind == "c":
        re_, im_ = v.real.astype(np.float64), v.imag.astype(np.float64)
    else:
        re_, im_ = v.astype(np.float64), None
    re_ = np.where(np.isnan(re_), SENT, re_)
    if im_ is None:
        out = re_.astype(np.int64)
    else:
        im_ = np.where(np.isnan(im_), SENT, im_)
        out = re_.astype(np.int64) * 100003 + im_.astype(np.int64)
    return out.tolist()


def load_raw(tops):
    """every data file of every top-level directory, raw, in listing order"""
    import h5py
    from digital_rf import list_drf
    dirs, seqmap, sorted_ok = [], {}, True
    for top in tops:
        files = []
        paths = list(list_drf.ilsdrf(os.path.join(top, CHAN), recursive=False, reverse=False, include_drf=True,
                                     include_dmd=False, include_drf_properties=False))
        on_disk = sorted(glob.glob(os.path.join(top, CHAN, "*", "rf@*.h5")))
        if sorted(paths) != on_disk:
            sorted_ok = False
        for p in paths:
            sub = calendar.timegm(time.strptime(os.path.basename(os.path.dirname(p)), "%Y-%m-%dT%H-%M-%S"))
            m = re.match(r"rf@(\d+)\.(\d+)\.h5$", os.path.basename(p))
            if m is None:
                continue            # (a listing that names something else is judged by the queries: bounds vs reads)
            ms = int(m.group(1)) * 1000 + int(m.group(2))
            with h5py.File(p, "r") as h:
                idx = [[int(a), int(b)] for a, b in h["rf_data_index"][...]]
                data = h["rf_data"][...]
                rows = tags_of(data)
                seq = (h["rf_data"].attrs["uuid_str"].decode() if isinstance(h["rf_data"].attrs["uuid_str"], bytes)
                       else str(h["rf_data"].attrs["uuid_str"]), int(h["rf_data"].attrs["sequence_num"]))
            seqmap[seq] = ms
            files.append({"sub": sub, "ms": ms, "index": idx, "rows": rows})
        if [f["ms"] for f in files] != sorted(f["ms"] for f in files):
            sorted_ok = False
        dirs.append(files)
    return dirs, seqmap, sorted_ok


# --------------------------------------------------------------------------- queries

def edges_of(spec, dirs):
    n, d, fc = spec["n"], spec["d"], spec["fc"]
    E = set()
    kinds = {}

    def add(k, kind):
        for dk in (-1, 0, 1):
            if k + dk >= 0:
                E.add(k + dk)
        kinds.setdefault(k, set()).add(kind)
    for files in dirs:
        for f in files:
            add(slot_lo(f["ms"], n, d), "file")
            add(slot_lo(f["ms"] + fc, n, d) - 1, "file")
            for i, (g, o) in enumerate(f["index"]):
                stop = f["index"][i + 1][1] if i + 1 < len(f["index"]) else len(f["rows"])
                add(g, "block")
                add(g + (stop - o) - 1, "block")
    return sorted(E), kinds


def build_queries(spec, dirs, rng, tier):
    """list of tuples; 1 s e sub | 2 s e | 3 s L sub | 4 | 5 s e | 6 k | 7 | 8 s e"""
    E, kinds = edges_of(spec, dirs)
    nsub = spec["nsub"]
    allk = [g for files in dirs for f in files for g, _ in f["index"]]
    lo, hi = min(E), max(E)
    pairs = [(s, e) for s in E for e in E if s <= e]
    budget = 60 if tier == "quick" else 140
    if len(pairs) > budget:
        keep = [(s, e) for s, e in pairs if s == e][::2]
        keep += rng.sample(pairs, budget)
        pairs = sorted(set(keep))
    # outside the data, and everything
    pairs += [(max(lo - 50, 0), max(lo - 2, 0)), (hi + 2, hi + 40), (max(lo - 30, 0), hi + 30), (lo, hi),
              (max(lo - 1000, 0), max(lo - 990, 0))]
    q = [(4,), (7,), (9,)]
    for s, e in pairs:
        q.append((1, s, e, -1))
        q.append((2, s, e))
        q.append((5, s, e))
        q.append((1, s, e, rng.randrange(nsub)))
    # every split point of short ranges, edge split points of the long one
    short = [(s, e) for s, e in pairs if 1 <= e - s <= 24]
    splits = []
    for s, e in rng.sample(short, min(len(short), 5 if tier == "quick" else 12)):
        splits += [(s, k, e) for k in range(s, e)]
    s, e = max(lo - 3, 0), hi + 3
    splits += [(s, k, e) for k in E if s <= k < e]
    for s, k, e in splits:
        q.append((1, s, e, -1))
        q.append((1, s, k, -1))
        q.append((1, k + 1, e, -1))
    # vector reads
    blens = set()
    for files in dirs:
        for f in files:
            for i, (g, o) in enumerate(f["index"]):
                stop = f["index"][i + 1][1] if i + 1 < len(f["index"]) else len(f["rows"])
                blens.add(stop - o)
    starts = sorted(set(allk) | set(rng.sample(E, min(len(E), 10))))
    for s in starts:
        for L in sorted({1, nsub, 2, 3} | {b for b in list(blens)[:3]} | {b + 1 for b in list(blens)[:3]}):
            if L > 60:
                continue
            q.append((3, s, L, -1))
            q.append((3, s, L, rng.randrange(nsub)))
            q.append((1, s, s + L - 1, -1))
    q.append((3, lo, 0, -1))
    for k in rng.sample(E, min(len(E), 12)) + allk[:6]:
        q.append((6, k))
    # Spec (runs over files_abs) on a few short ranges, first directory only makes sense for 1 dir
    if len(dirs) == 1:
        for s, e in short[:6] + [(max(lo - 3, 0), min(hi + 3, lo + 200))]:
            q.append((8, s, e))
    # dedupe, keep order
    seen, out = set(), []
    for x in q:
        if x not in seen:
            seen.add(x)
            out.append(x)
    return out, kinds, sorted(set(splits))


def encode_case(lk, sq, spec, dirs, queries):
    a = [1, lk, sq, spec["n"], spec["d"], spec["fc"], spec["sc"], spec["nsub"], len(dirs)]
    for files in dirs:
        a.append(len(files))
        for f in files:
            a += [f["sub"], f["ms"], len(f["index"])]
            for g, o in f["index"]:
                a += [g, o]
            a.append(len(f["rows"]))
            for r in f["rows"]:
                a += r
    a.append(len(queries))
    for qq in queries:
        a += list(qq)
    return a


def split_answers(flat, nq):
    out, i = [], 0
    for _ in range(nq):
        ln = flat[i]
        out.append(flat[i + 1:i + 1 + ln])
        i += 1 + ln
    if i != len(flat):
        raise common.Broken("model answer stream malformed")
    return out


def enc_blocks(od):
    out = [len(od)]
    for k, v in od.items():
        t = tags_of(v)
        out += [int(k), len(t)]
        for r in t:
            out += r if isinstance(r, list) else [r]
    return out


def scribble(a):
    """what a caller does with a result it owns: process it in place (taper, detrend, zero).  The arrays a read returns
    are the caller's; nothing the reader returns later may depend on what was done to them"""
    try:
        if isinstance(a, np.ndarray) and a.size and a.flags.writeable:
            a[...] = np.zeros((), dtype=a.dtype)
    except (ValueError, TypeError):
        pass


class Impl:
    """the real reader on one channel, answers in the model's output format (memoised)"""

    def __init__(self, tops, seqmap):
        import digital_rf
        self.r = digital_rf.DigitalRFReader(tops if len(tops) > 1 else tops[0])
        self.seqmap = seqmap
        self.memo = {}
        self.nreads = 0

    def answer(self, q):
        if q in self.memo:
            return self.memo[q]
        a = self._answer(q)
        self.memo[q] = a
        return a

    def _answer(self, q):
        r = self.r
        self.nreads += 1
        if q[0] == 1:
            od = r.read(q[1], q[2], CHAN, None if q[3] < 0 else q[3])
            out = enc_blocks(od)
            for v in od.values():
                scribble(v)
            return out
        if q[0] == 2:
            od = r.get_continuous_blocks(q[1], q[2], CHAN)
            out = [len(od)]
            for k, v in od.items():
                out += [int(k), int(v)]
            return out
        if q[0] == 3:
            try:
                z = r.read_vector_raw(q[1], q[2], CHAN, None if q[3] < 0 else q[3])
            except IOError:
                return [1]
            except TypeError:
                return [2]
            t = np.array(tags_of(z), dtype=np.int64)
            out = [0, z.ndim] + list(z.shape) + t.reshape(-1).tolist()
            scribble(z)
            return out
        if q[0] == 4:
            f, l = r.get_bounds(CHAN)
            return [0 if f is None else 1, 0 if f is None else int(f), 0 if l is None else 1, 0 if l is None else int(l)]
        if q[0] == 5:
            p = r.get_properties(CHAN)
            if "sample_rate_numerator" in getattr(r._get_file_list, "__code__").co_varnames:
                fl = r._get_file_list(q[1], q[2], p["sample_rate_numerator"], p["sample_rate_denominator"],
                                      p["subdir_cadence_secs"], p["file_cadence_millisecs"])
            else:
                fl = r._get_file_list(q[1], q[2], p["samples_per_second"], p["subdir_cadence_secs"],
                                      p["file_cadence_millisecs"])
            out = [len(fl)]
            for path in fl:
                sub = calendar.timegm(time.strptime(os.path.dirname(path), "%Y-%m-%dT%H-%M-%S"))
                m = re.match(r"rf@(\d+)\.(\d+)\.h5$", os.path.basename(path))
                out += [sub, int(m.group(1)) * 1000 + int(m.group(2))]
            return out
        if q[0] == 6:
            try:
                p = r.get_properties(CHAN, q[1])
            except IOError:
                return [1]
            except ValueError:
                return [2]
            return [0, self.seqmap[(p["uuid_str"], int(p["sequence_num"]))]]
        raise AssertionError(q)


# --------------------------------------------------------------------------- the property oracle

def parse_blocks(x, w):
    out, i = [], 1
    for _ in range(x[0]):
        k, ln = x[i], x[i + 1]
        out.append([k, ln, x[i + 2:i + 2 + ln * w]])
        i += 2 + ln * w
    assert i == len(x), (x, w)
    return out


def merged(a, b):
    out = [list(x) for x in a]
    for blk in b:
        if out and out[-1][0] + out[-1][1] == blk[0]:
            out[-1] = [out[-1][0], out[-1][1] + blk[1], out[-1][2] + blk[2]]
        else:
            out.append(list(blk))
    return out


def oracle(res, spec, impl, queries, kinds, dirs, splits):
    """C08 statement evaluated on the implementation only"""
    nsub = spec["nsub"]
    n, d, fc = spec["n"], spec["d"], spec["fc"]
    ident = {k: spec[k] for k in ("n", "d", "fc", "sc", "k0", "dtype", "cplx", "nsub", "cont", "dirs", "order")}
    ident.update(comp=spec.get("comp", 0), cksum=bool(spec.get("cksum", False)), leftover=bool(spec.get("leftover", False)))
    file_firsts = {slot_lo(f["ms"], n, d) for files in dirs for f in files}
    for q in queries:
        if q[0] == 1 and q[3] < 0:
            s, e = q[1], q[2]
            full = parse_blocks(impl.answer(q), nsub)
            # lengths reported without reading = lengths read
            g = impl.answer((2, s, e))
            res.count("oracle_lengths")
            if g != [len(full)] + [x for b in full for x in b[:2]]:
                res.violation("lengths-disagree", "get_continuous_blocks differs from the lengths of read",
                              {"spec": ident, "query": ["lengths", s, e]}, [b[:2] for b in full], g)
            # blocks are inside the range, separated, non-empty
            ok = all(b[1] > 0 and s <= b[0] and b[0] + b[1] - 1 <= e for b in full) and \
                all(full[i][0] + full[i][1] < full[i + 1][0] for i in range(len(full) - 1))
            if not ok:
                res.violation("blocks-not-canonical", "read returned empty/overlapping/adjacent/out-of-range blocks",
                              {"spec": ident, "query": ["read", s, e]}, "canonical blocks inside [s,e]",
                              [b[:2] for b in full])
    for s, k, e in splits:
        a, b, c = (1, s, e, -1), (1, s, k, -1), (1, k + 1, e, -1)
        if True:
            whole = parse_blocks(impl.answer(a), nsub)
            parts = merged(parse_blocks(impl.answer(b), nsub), parse_blocks(impl.answer(c), nsub))
            res.count("oracle_split")
            if whole != parts:
                sig = "split-not-merge"
                if (k in file_firsts or k + 1 in file_firsts or s in file_firsts or e in file_firsts):
                    sig = "split-sub-range-edge-on-first-sample-of-file"
                res.violation(sig, "read(s,e) differs from merge(read(s,k), read(k+1,e))",
                              {"spec": ident, "query": ["split", s, k, e]},
                              [x[:2] for x in whole], [x[:2] for x in parts])
    for q in queries:
        if q[0] == 1 and q[3] >= 0:
            s, e, j = q[1], q[2], q[3]
            full = parse_blocks(impl.answer((1, s, e, -1)), nsub)
            col = parse_blocks(impl.answer(q), 1)
            res.count("oracle_column")
            want = [[b[0], b[1], b[2][j::nsub]] for b in full]
            if col != want:
                res.violation("subchannel-not-column", "read(sub_channel=j) differs from column j of read",
                              {"spec": ident, "query": ["column", s, e, j]}, want[:3], col[:3])
        if q[0] == 3:
            s, L, j = q[1], q[2], q[3]
            res.count("oracle_vector")
            got = impl.answer(q)
            if L < 1:
                if got != [1]:
                    res.violation("vector-nonpositive-length", "read_vector_raw(L<1) did not raise IOError",
                                  {"spec": ident, "query": ["vector", s, L, j]}, [1], got)
                continue
            full = parse_blocks(impl.answer((1, s, s + L - 1, -1)), nsub)
            covered = len(full) == 1 and full[0][0] == s and full[0][1] == L
            if covered:
                vals = full[0][2] if j < 0 else full[0][2][j::nsub]
                shape = [L] if (j >= 0 or nsub == 1) else [L, nsub]
                want = [0, len(shape)] + shape + vals
                if got != want:
                    sig = "vector-length-1-raises" if (L == 1 and got in ([1], [2])) else "vector-not-exact"
                    res.violation(sig, "read_vector_raw on a fully covered range does not return exactly the "
                                       "requested samples",
                                  {"spec": ident, "query": ["vector", s, L, j]}, want[:12], got[:12])
                else:
                    # read_vector / read_vector_1d: lossless conversion to the documented floating type
                    try:
                        z = impl.r.read_vector(s, L, CHAN, None if j < 0 else j)
                        z1 = impl.r.read_vector_1d(s, L, CHAN, max(j, 0))
                        okv = (z.dtype.kind in "fc" and list(z.shape) == shape
                               and np.array(tags_of(z)).reshape(-1).tolist() == vals
                               and z1.ndim == 1 and z1.dtype == z.dtype
                               and tags_of(z1) == full[0][2][max(j, 0)::nsub])
                        raw = impl.r.read_vector_raw(s, L, CHAN, None if j < 0 else j)
                        base = raw.dtype["r"] if raw.dtype.names else raw.dtype
                        exp = np.promote_types("c8" if (raw.dtype.names or raw.dtype.kind == "c") else "f4", base)
                        okv = okv and z.dtype.newbyteorder("=") == exp.newbyteorder("=")
                        zc = impl.r.read_vector_c81d(s, L, CHAN, max(j, 0))
                        okv = okv and zc.dtype == np.dtype("c8") and zc.ndim == 1 and np.array_equal(zc, np.asarray(z1).astype("c8"), equal_nan=True)
                    except Exception as ex:  # noqa
                        okv, z = False, repr(ex)
                    if not okv:
                        res.violation("vector-float-conversion", "read_vector/read_vector_1d not a lossless view "
                                                                 "of read_vector_raw",
                                      {"spec": ident, "query": ["vector_float", s, L, j]}, vals[:8], str(z)[:200])
            else:
                if got != [1]:
                    res.violation("vector-not-failing-closed", "read_vector_raw over a range with a missing index "
                                                               "did not raise IOError",
                                  {"spec": ident, "query": ["vector", s, L, j]}, [1], got[:12])
                elif L > 0:
                    for nm, call in (("read_vector", lambda: impl.r.read_vector(s, L, CHAN, None if j < 0 else j)),
                                     ("read_vector_1d", lambda: impl.r.read_vector_1d(s, L, CHAN, max(j, 0))),
                                     ("read_vector_c81d", lambda: impl.r.read_vector_c81d(s, L, CHAN, max(j, 0)))):
                        try:
                            zz = call()
                            res.violation("vector-not-failing-closed", "%s over a range with a missing index did not raise "
                                          "IOError" % nm, {"spec": ident, "query": ["vector_float", s, L, j]}, "IOError",
                                          "returned shape %s" % (getattr(zz, "shape", None),))
                        except IOError:
                            pass
                        except Exception as ex:  # noqa
                            res.violation("vector-not-failing-closed", "%s over a range with a missing index raised something "
                                          "other than an I/O error" % nm, {"spec": ident, "query": ["vector_float", s, L, j]},
                                          "IOError", repr(ex)[:200])
    # bounds are the first and last index any read can return
    b = impl.answer((4,))
    E = sorted(kinds)
    lo, hi = max(min(E) - 40, 0), max(E) + 40
    wide = parse_blocks(impl.answer((1, lo, hi, -1)), nsub)
    res.count("oracle_bounds")
    want = [1, wide[0][0], 1, wide[-1][0] + wide[-1][1] - 1] if wide else [0, 0, 0, 0]
    if b != want:
        res.violation("bounds-not-extremes", "get_bounds differs from the first/last index a read returns",
                      {"spec": ident, "query": ["bounds"]}, want, b)


# --------------------------------------------------------------------------- main

def specs_for(res):
    rng = res.rng
    per_cfg = 2 if res.tier == "quick" else 10
    specs = [dict(WITNESS)]
    for ci in range(len(CONFIGS)):
        for i in range(per_cfg):
            specs.append(gen_spec(rng, ci, i))
    return specs


def check_channel(res, spec, variants):
    """returns dict variant -> list of disagreeing (query, model, impl)"""
    tops = write_channel(spec)
    dirs, seqmap, sorted_ok = load_raw(tops)
    if not sorted_ok:
        res.disagree("listing (ilsdrf) is not the time-ordered set of data files", spec, None, None)
    queries, kinds, splits = build_queries(spec, dirs, res.rng, res.tier)
    impl = Impl(tops, seqmap)
    impl_ans = [impl.answer(q) if q[0] not in (7, 8, 9) else None for q in queries]
    bad = {}
    model_ans = {}
    cases = [encode_case(lk, sq, spec, dirs, queries) for lk, sq in variants]
    outs = common.run_model("reader", cases)
    for (lk, sq), flat in zip(variants, outs):
        ans = split_answers(flat, len(queries))
        model_ans[(lk, sq)] = ans
        bad[(lk, sq)] = [(q, m, i) for q, m, i in zip(queries, ans, impl_ans) if i is not None and m != i]
    # invariant of the theorems holds on what the writer produced; Spec = proved model
    ex = model_ans[(0, 0)]
    for q, m in zip(queries, ex):
        if q[0] == 7 and len(dirs) == 1 and m != [1]:
            res.disagree("FilesInv (hypothesis of the C08 theorems) does not hold on writer-produced files",
                         {"spec": spec}, m, None)
        if q[0] == 9:
            # side condition of the multi-directory theorems: no file period in two directories
            mss = [f["ms"] for files in dirs for f in files]
            want = [1 if len(set(mss)) == len(mss) else 0]
            res.count("dirs_ok_%d" % want[0])
            if m != want:
                res.disagree("dirs_ok_b (hypothesis of the C08_multi theorems) differs from 'every directory "
                             "FilesInv and no file period twice' on writer-produced directories",
                             {"spec": spec}, m, want)
        if q[0] == 8:
            rd = ex[queries.index((1, q[1], q[2], -1))] if (1, q[1], q[2], -1) in queries else None
            res.count("spec_vs_model")
            if rd is not None and rd != m:
                res.disagree("extracted read (ExactRational) differs from the Spec runs(files_abs)", q, rd, m)
    oracle(res, spec, impl, queries, kinds, dirs, splits)
    # coverage bookkeeping
    for q in queries:
        edge = set()
        for k in q[1:3]:
            for dk in (-1, 0, 1):
                edge |= kinds.get(k + dk, set())
        res.case((spec["name"], spec["n"], spec["d"], spec["fc"], spec["k0"], q), nontrivial=bool(edge) or q[0] in (4, 7, 9))
        res.count("query_%d" % q[0])
    res.count("channels")
    res.count("channels_continuous" if spec["cont"] else "channels_gapped")
    res.count("channels_%ddir" % len(dirs))
    res.count("files", sum(len(f) for f in dirs))
    res.count("impl_calls", impl.nreads)
    res.sample({"channel": {k: spec[k] for k in ("n", "d", "fc", "sc", "k0", "dtype", "cplx", "nsub", "cont")},
                "files": [[f["ms"], f["index"]] for f in dirs[0][:3]], "query": list(queries[5]),
                "model": ex[5][:12], "impl": impl_ans[5][:12] if impl_ans[5] else None})
    impl.r.close()
    return bad, (spec, dirs, queries)


def live_bounds_case(variant, verbose=False):
    """one reader object kept while the channel changes under it: a later session appends, an EARLIER session is
    back-filled into free earlier periods, the oldest file is expired.  After every change the bounds it reports are
    the first and last index a read returns -- the same as a fresh reader's.  -> problem or None"""
    import digital_rf
    root = common.scratch_dir("c08live-")
    top = os.path.join(root, "top")
    chdir = os.path.join(top, CHAN)
    os.makedirs(chdir)
    n, fc, sc = 100, 1000, 2
    k0 = 1500000000 * n
    cont, comp = variant

    def session(first, lens, uuid):
        w = digital_rf.DigitalRFWriter(chdir, np.dtype("i2"), sc, fc, k0 + first, n, 1, uuid_str=uuid, compression_level=comp,
                                       is_complex=False, is_continuous=cont, num_subchannels=1, marching_periods=False)
        off = 0
        for ln, gap in lens:
            w.rf_write(np.arange(ln, dtype="i2") + 1, off + gap)
            off += gap + ln
        w.close()

    def extremes(reader):
        b = reader.get_bounds(CHAN)
        blocks = reader.get_continuous_blocks(b[0] - 50, b[1] + 50, CHAN) if b[0] is not None else {}
        lo = min(blocks) if blocks else None
        hi = max(int(s) + int(ln) - 1 for s, ln in blocks.items()) if blocks else None
        return (None if b[0] is None else int(b[0]), None if b[1] is None else int(b[1])), (lo if lo is None else int(lo), hi)
    session(405, [(130, 0), (40, 25)], "A")                       # periods 4 and 5
    held = digital_rf.DigitalRFReader(top)
    steps = [("the first session", None)]
    steps.append(("a later session appended (period 8)", lambda: session(830, [(90, 0)], "C")))
    steps.append(("an earlier session back-filled (periods 0 and 1)", lambda: session(5, [(120, 0)], "B")))
    steps.append(("the oldest file expired", "expire"))
    steps.append(("a still earlier period back-filled after the expiry", lambda: session(-200 + 7, [(30, 0)], "D")))
    prob = None
    for what, act in steps:
        if act == "expire":
            files = sorted(glob.glob(os.path.join(chdir, "*", "rf@*.h5")), key=os.path.basename)
            os.remove(files[0])
        elif act is not None:
            act()
        fresh = digital_rf.DigitalRFReader(top)
        hb, hx = extremes(held)
        fb, fx = extremes(fresh)
        if verbose:
            print("after %s: held reader bounds %s, extremes of what it reads %s; fresh reader bounds %s" % (what, hb, hx, fb))
        if prob is None and not (hb == fb == hx == fx):
            prob = (what, {"held_reader_bounds": hb, "held_reader_first_last_readable": hx, "fresh_reader_bounds": fb,
                           "fresh_reader_first_last_readable": fx})
    shutil.rmtree(root, True)
    return prob


def two_channel_props_case(verbose=False):
    """two channels recorded side by side (same rate, cadences and times: their data files carry the same names) under
    one top-level directory, one reader: the per-sample properties of a channel are those of ITS file at that sample
    (session uuid, sequence number), whichever channel was asked before; a sample without a file raises IOError"""
    import digital_rf
    root = common.scratch_dir("c08two-")
    top = os.path.join(root, "top")
    n = 100
    k0 = 1500000000 * n
    for ch, uuid, lens in (("cha", "uuid-of-cha", [(250, 0)]), ("chb", "uuid-of-chb", [(120, 0)])):
        d = os.path.join(top, ch)
        os.makedirs(d)
        w = digital_rf.DigitalRFWriter(d, np.dtype("i2"), 3600, 1000, k0, n, 1, uuid_str=uuid, is_complex=False, is_continuous=False,
                                       num_subchannels=1, marching_periods=False)
        off = 0
        for ln, gap in lens:
            w.rf_write(np.arange(ln, dtype="i2"), off + gap)
            off += gap + ln
        w.close()
    r = digital_rf.DigitalRFReader(top)
    prob = None
    for order in (("cha", "chb"), ("chb", "cha")):
        for s in (k0 + 5, k0 + 105, k0 + 205):
            for ch in order:
                want_uuid = "uuid-of-" + ch
                has = (s - k0) < (250 if ch == "cha" else 120)
                try:
                    p = r.get_properties(ch, sample=s)
                    got = (str(p["uuid_str"]), int(p["sequence_num"]))
                except IOError:
                    got = "IOError"
                want = (want_uuid, (s - k0) // 100) if has else "IOError"
                if verbose:
                    print("get_properties(%s, sample=k0+%d) -> %s (expected %s)" % (ch, s - k0, got, want))
                if prob is None and got != want:
                    prob = ({"channel": ch, "sample_offset": s - k0, "asked_in_order": list(order)}, want, got)
    shutil.rmtree(root, True)
    return prob


def live_bounds_leg(res):
    res.count("two-channels-one-reader-per-sample-properties")
    prob = two_channel_props_case()
    if prob:
        res.violation("per-sample-properties-of-another-channel", "get_properties(channel, sample=) of one reader over two channels "
                      "recorded side by side does not report the channel's own file", dict(prob[0], two_channel_props=True), prob[1], prob[2])
    for variant in ((False, 0), (True, 0), (True, 1)):
        res.count("reader-kept-while-channel-changes")
        prob = live_bounds_case(variant)
        if prob:
            res.violation("bounds-of-kept-reader-not-the-readable-extremes", "a reader kept while the channel changes reports bounds that "
                          "are not the first and last index it returns (after %s)" % prob[0],
                          {"live_bounds": list(variant)}, "bounds == readable extremes == a fresh reader's", prob[1])
            return


VARIANTS = [(0, 0), (1, 1), (0, 1), (1, 0)]
VNAME = {0: ("ExactRational", "SqueezeAxis1"), 1: ("LongDouble", "SqueezeAll")}


def run(res):
    common.use_impl()
    res.rule = ("channels written by the real DigitalRFWriter (rates 1, 100, 200/3, (2^31-1)/1e9, 48000, 1e6/3, 1e8/7, "
                "25e6/3, 1e9/7; file cadences 1/100/250/400/1000/4000 ms; gapped and continuous; 1-3 subchannels; "
                "i2/i4/f4/f8 real and complex; one or two top-level directories; write layouts clustered on file "
                "edges incl. boundaries where the long-double file lookup is off by one), every rf@*.h5 read raw "
                "into the model's file records; queries: ranges with ends on {first,last,+-1} x {file, block} "
                "edges, outside the data, all split points of short ranges, vector lengths {1, nsub, 2, 3, block "
                "length, +1}, bounds, per-sample properties, candidate lists; each answered by the real reader "
                "and by the extracted model under the 4 variant combinations; non-trivial = distinct (channel, "
                "query) whose arguments touch a file or block edge (+-1)")
    specs = specs_for(res)
    totals = {v: 0 for v in VARIANTS}
    first_bad = {}
    keep = None
    queue = []
    for si, spec in enumerate(specs):
        queue.append(spec)
        if si % 3 == 1:
            # the same directory names and (mostly) the same file names again, other contents: every block starts one
            # sample later and is one sample shorter.  Whatever is remembered about a file PATH beyond the life of a
            # reader object (class-level caches) is wrong now
            s2 = json.loads(json.dumps(spec))
            s2["dirs"] = [[[a + 1, max(1, ln - 1)] for a, ln in segs] for segs in spec["dirs"]]
            s2["name"] = spec["name"] + "-rewritten-in-place"
            s2["_reuse_root"] = True
            s2["leftover"] = False
            queue.append(s2)
    for spec in queue:
        bad, ctx = check_channel(res, spec, VARIANTS)
        for v in VARIANTS:
            totals[v] += len(bad[v])
            if bad[v] and v not in first_bad:
                first_bad[v] = (spec, bad[v][0])
        if keep is None or len(ctx[2]) < len(keep[2]):
            keep = ctx
    live_bounds_leg(res)
    agree = [v for v in VARIANTS if totals[v] == 0]
    res.extra["model_variants_agreeing"] = [[VNAME[lk][0], VNAME[sq][1]] for lk, sq in agree]
    res.extra["disagreements_per_variant"] = {"%s/%s" % (VNAME[lk][0], VNAME[sq][1]): totals[(lk, sq)]
                                              for lk, sq in VARIANTS}
    if not agree:
        best = min(VARIANTS, key=lambda v: totals[v])
        spec, (q, m, i) = first_bad[best]
        res.disagree("reader model (best variant %s/%s) vs DigitalRFReader" % (VNAME[best[0]][0], VNAME[best[1]][1]),
                     {"spec": spec, "query": list(q)}, m[:40], i[:40])
    elif (0, 0) not in agree:
        res.notes.append("the implementation agrees only with a defective variant: %s" % res.extra["model_variants_agreeing"])
        if not res.violations:
            spec, (q, m, i) = first_bad[(0, 0)]
            res.disagree("implementation follows a defective variant (full theorems do not apply) but the oracle "
                         "found no violating input", {"spec": spec, "query": list(q)}, m[:40], i[:40])
    elif len(agree) > 1:
        res.notes.append("batch did not discriminate the variants: %s" % res.extra["model_variants_agreeing"])
    # guard the extraction: the smallest case also by vm_compute inside Coq
    spec, dirs, queries = keep
    qs = [q for q in queries if q[0] != 8][:40]
    case = encode_case(0, 0, spec, dirs, qs)
    vm = common.run_model_vm("From DRF Require Import Extract.ReaderRunner.",
                             ["(run 1 [%s])" % "; ".join("(%d)" % x for x in case[1:])])
    exo = common.run_model("reader", [case])
    res.count("vm_compute_crosscheck", len(qs))
    if vm != exo:
        res.disagree("extracted OCaml vs vm_compute", None, exo[0][:30], vm[0][:30] if vm else None)
    res.extra["traces_validated_against_impl"] = res.evaluations
    res.trusted += ["h5py raw read of rf_data / rf_data_index into the model's file records (harness/props/c08.py load_raw)",
                    "Model/ReaderCore.v is a hand model of digital_rf_hdf5.py (reader), tied by this correspondence",
                    "subdir_files is the closed form of np.arange + np.compress (compared through _get_file_list itself)"]
    res.assumptions += [
        "numpy/HDF5 element conversion is value-preserving for the integer tags used (|tag| < 2^15); "
        "read_vector's promotion table is compared, not proved",
        "FilesInv (index/offset/window invariant) is checked by the extracted files_inv_b on every produced channel; "
        "that the writer always establishes it is C06/C01's obligation",
        "samples >= 0; remote (http/ftp) access modes are not modelled",
    ]


def replay(res, rp):
    if isinstance(rp.get("input"), dict) and rp["input"].get("two_channel_props"):
        common.use_impl()
        prob = two_channel_props_case(verbose=True)
        print("replay verdict:", "STILL VIOLATING" if prob else "no longer violating")
        return 1 if prob else 0
    if isinstance(rp.get("input"), dict) and "live_bounds" in rp["input"]:
        common.use_impl()
        v = rp["input"]["live_bounds"]
        print("channel at 100 Hz, one file per second, continuous=%s compression=%s; one reader object kept throughout" % (v[0], v[1]))
        prob = live_bounds_case((bool(v[0]), int(v[1])), verbose=True)
        if prob:
            print("VIOLATION after %s:" % prob[0], prob[1])
        print("replay verdict:", "STILL VIOLATING" if prob else "no longer violating")
        return 1 if prob else 0
    common.use_impl()
    inp = rp["input"]
    spec, query = inp["spec"], inp["query"]
    spec = dict(spec)
    spec.setdefault("name", "replay")
    tops = write_channel(spec)
    dirs, seqmap, _ = load_raw(tops)
    impl = Impl(tops, seqmap)
    nsub = spec["nsub"]
    print("replay %s on channel n=%s d=%s fc=%s k0=%s" % (query, spec["n"], spec["d"], spec["fc"], spec["k0"]))
    kind = query[0]
    viol = False
    if kind == "split":
        s, k, e = query[1:]
        whole = parse_blocks(impl.answer((1, s, e, -1)), nsub)
        parts = merged(parse_blocks(impl.answer((1, s, k, -1)), nsub), parse_blocks(impl.answer((1, k + 1, e, -1)), nsub))
        print(" read(%d,%d)                 ->" % (s, e), [b[:2] for b in whole])
        print(" merge(read(%d,%d), read(%d,%d)) ->" % (s, k, k + 1, e), [b[:2] for b in parts])
        viol = whole != parts
    elif kind == "vector":
        s, L, j = query[1:]
        full = parse_blocks(impl.answer((1, s, s + L - 1, -1)), nsub)
        got = impl.answer((3, s, L, j))
        print(" read(%d,%d) ->" % (s, s + L - 1), [b[:2] for b in full])
        print(" read_vector_raw(%d,%d,sub=%s) ->" % (s, L, j), {1: "IOError", 2: "TypeError"}.get(got[0], got[:10]) if len(got) == 1 else got[:10])
        covered = len(full) == 1 and full[0][0] == s and full[0][1] == L
        viol = (got[0] != 0) if covered else (got != [1])
    elif kind == "lengths":
        s, e = query[1:]
        a, b = impl.answer((1, s, e, -1)), impl.answer((2, s, e))
        print(" read ->", [x[:2] for x in parse_blocks(a, nsub)], " get_continuous_blocks ->", b)
        viol = b != [a[0]] + [x for blk in parse_blocks(a, nsub) for x in blk[:2]]
    elif kind == "column":
        s, e, j = query[1:]
        full = parse_blocks(impl.answer((1, s, e, -1)), nsub)
        col = parse_blocks(impl.answer((1, s, e, j)), 1)
        viol = col != [[b[0], b[1], b[2][j::nsub]] for b in full]
        print(" column", j, "equal" if not viol else "DIFFERENT")
    else:
        print(" (no specific replay for %s; re-running the oracle)" % kind)
        queries, kinds, splits = build_queries(spec, dirs, res.rng, "quick")
        oracle(res, spec, impl, queries, kinds, dirs, splits)
        viol = bool(res.violations)
    print("expected", rp.get("expected"), "observed-then", rp.get("observed"))
    print("STILL VIOLATING" if viol else "no longer violating")
    return 1 if viol else 0
