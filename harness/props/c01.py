"""C01 -- RF write/read round-trip fidelity (writer model + real reader against the Spec)."""
import os

import numpy as np

import common
import writerlib as wl

LEVEL = "proof"


def regenerate(res):
    from props import c07
    c07.regenerate(res)


def read_battery(rng, cfg, exp, files):
    """ranges that begin or end on first/last samples of files, blocks and gaps, plus whole and random"""
    ks = sorted(exp)
    if not ks:
        return [(cfg.start, cfg.start + 10)]
    edges = set()
    for f in files:
        lo, hi = wl.file_start(cfg, f["ms"]), wl.file_start(cfg, f["ms"] + cfg.fc)
        edges |= {lo, lo + 1, lo - 1, hi - 1, hi, hi - 2}
    for s, t in wl.runs_of(exp):
        edges |= {s, s - 1, s + 1, s + len(t) - 1, s + len(t), s + len(t) - 2}
    edges = sorted(e for e in edges if e >= 0)
    out = [(ks[0], ks[-1]), (max(0, ks[0] - 5), ks[-1] + 5)]
    for _ in range(24):
        a, b = rng.choice(edges), rng.choice(edges)
        out.append((min(a, b), max(a, b)))
    for e in rng.sample(edges, min(6, len(edges))):
        out.append((e, e))
    return out


def check_reads(res, cfg, exp, chdir, files, hist, rng, sig_prefix=""):
    import digital_rf
    r = digital_rf.DigitalRFReader(common.path_form(os.path.dirname(chdir)))
    # the reader was given its directory in one of several spellings (some relative); from here on the process
    # works in another directory: a reader keeps reading the tree it was opened on
    cwd0 = os.getcwd()
    os.chdir(common.scratch_root())
    try:
        _check_reads(res, r, cfg, exp, chdir, files, hist, rng, sig_prefix)
    finally:
        os.chdir(cwd0)


def _check_reads(res, r, cfg, exp, chdir, files, hist, rng, sig_prefix):
    for (s, e) in read_battery(rng, cfg, exp, files):
        want = wl.runs_of(exp, s, e)
        try:
            got = r.read(s, e, "ch")
        except Exception as ex:  # noqa
            res.violation(sig_prefix + "read-raises", "DigitalRFReader.read raised on a valid channel", dict(hist, range=[s, e]),
                          [(a, len(t)) for a, t in want], repr(ex)[:200])
            continue
        res.count("reads")
        gk = sorted(int(k) for k in got)
        ok = gk == [a for a, _ in want]
        if ok:
            for a, t in want:
                arr = got[a] if a in got else got[np.uint64(a)]
                exp_arr = wl.enc(cfg, t)
                if cfg.nsub == 1 and np.asarray(arr).ndim == 1:
                    arr = np.asarray(arr).reshape(-1, 1)
                if not wl.arrays_equal(cfg, exp_arr, arr):
                    ok = False
                    break
        # the arrays are the caller's now: it works on them in place (taper, detrend, zero).  No later read may show it
        for v in got.values():
            try:
                if isinstance(v, np.ndarray) and v.size and v.flags.writeable:
                    v[...] = np.zeros((), dtype=v.dtype)
            except (ValueError, TypeError):
                pass
        if not ok:
            first = s in {wl.file_start(cfg, f["ms"]) for f in files} or e in {wl.file_start(cfg, f["ms"]) for f in files}
            res.violation(sig_prefix + ("read-differs-range-edge-on-first-sample-of-file" if first else "read-differs"),
                          "read does not return exactly the written samples at their indices, split at exactly the declared gaps",
                          dict(hist, range=[s, e]), [(a, len(t)) for a, t in want], [(k, len(got[k])) for k in sorted(got)])
            return
    # vector reads: exactly the requested samples when every index is stored, IOError when any is not -- asked at the ends
    # of the runs (the last stored index, the first index after it)
    runs = wl.runs_of(exp)
    for a, t in runs[:6]:
        last = a + len(t) - 1
        for s0, n in ((max(a, last - 2), last - max(a, last - 2) + 1), (max(a, last - 2), last - max(a, last - 2) + 2), (last, 2), (last + 1, 1)):
            covered = all(k in exp for k in range(s0, s0 + n))
            res.count("vector-reads")
            try:
                z = r.read_vector_raw(s0, n, "ch")
                got_len = len(z)
                err = None
            except IOError as ex:
                err = "IOError"
                got_len = None
            except Exception as ex:  # noqa
                err = repr(ex)[:120]
                got_len = None
            if covered and (err is not None or got_len != n):
                res.violation(sig_prefix + "vector-read-differs", "read_vector_raw over stored indices does not return them all",
                              dict(hist, vector=[s0, n]), n, err or got_len)
                return
            if not covered and err != "IOError":
                res.violation(sig_prefix + "vector-read-over-a-missing-index", "read_vector_raw answered for a range that holds an index "
                              "never written (it must raise IOError)", dict(hist, vector=[s0, n]), "IOError", err or ("%d samples" % got_len))
                return
    # bounds
    b = r.get_bounds("ch")
    ks = sorted(exp)
    if ks and (b[0], b[1]) != (ks[0], ks[-1]):
        res.violation(sig_prefix + "bounds-differ", "get_bounds is not (first, last) stored index", hist, [ks[0], ks[-1]], list(b))


def run(res):
    common.use_impl()
    rng = res.rng
    nh = 120 if res.tier == "quick" else 3000
    res.rule = ("random recordings over element types x byte orders x real/complex x 1-3 subchannels x rational "
                "rates x cadences x gapped / continuous / +compression / +checksum, starts on and around file and "
                "subdirectory boundaries, rf_write and rf_write_blocks with lengths and gaps around file edges, "
                "also through the C API; every file is compared with the Coq writer model; then DigitalRFReader.read "
                "over ranges beginning/ending on first/last samples of files, blocks and gaps is compared with the "
                "Spec (maximal runs of the map index -> written value, plus fill slots in continuous mode); "
                "non-trivial = distinct (config, history)")

    def oracle(cfg, ops, reports, files, chdir, mrep, mfiles, hist):
        m = wl.abs_of_history(cfg, ops, reports)
        exp = wl.expected_with_fill(cfg, m)
        check_reads(res, cfg, exp, chdir, files, hist, rng)
        # every written sample is stored exactly once, where the Spec says
        stored = {}
        for f in files:
            rows, nd = f["rows"], f["data"].shape[0]
            for i, (g, o) in enumerate(rows):
                o2 = rows[i + 1][1] if i + 1 < len(rows) else nd
                for j in range(o2 - o):
                    if g + j in stored:
                        res.violation("index-stored-twice", "a sample index is stored twice", hist, "once", g + j)
                    stored[g + j] = f["ms"]
        if sorted(stored) != sorted(exp):
            miss = sorted(set(exp) - set(stored))[:3]
            extra = sorted(set(stored) - set(exp))[:3]
            res.violation("stored-set-differs", "the set of stored indices is not the set written (+ fill slots)", hist,
                          "missing %r" % miss, "extra %r" % extra)

    wl.run_histories(res, nh, oracle, invalid_rate=0.05)

    # the C API path, read back through the Python reader
    work = common.scratch_dir()
    from props import c05
    hs = []
    for i in range(nh // 3):
        cfg = wl.gen_cfg(rng, modes=["gapped", "gapped", "cont", "cont+comp"])
        cfg = wl.Cfg(cfg.n, cfg.d, cfg.sc, cfg.fc, cfg.start, cfg.cont, cfg.comp, cfg.cksum, "i", 4, "<", False, 1)
        hs.append((cfg, c05.gen_capi_ops(rng, cfg, rng.randrange(1, 6), 0.0)))
    for i, (cfg, ops) in enumerate(hs):
        chdir = os.path.join(work, "c%d" % i, "ch")
        reports = wl.run_capi(cfg, ops, chdir)
        files = wl.dump_files(chdir)
        m = {}
        for op, r in zip(ops, reports):
            if op[0] == "capi" and r[0] == 0:
                ln, tag0, G, D = op[1], op[2], op[3], op[4]
                for bi in range(len(G)):
                    end = D[bi + 1] if bi + 1 < len(D) else ln
                    for j in range(end - D[bi]):
                        m[cfg.start + G[bi] + j] = tag0 + D[bi] + j
        # C API data are the raw tags (int32), fill = INT32_MIN
        import digital_rf
        rd = digital_rf.DigitalRFReader(os.path.dirname(chdir))
        exp = wl.expected_with_fill(cfg, m)
        hist = {"api": "C", "cfg": cfg.as_dict(), "ops": [list(o) for o in ops]}
        res.case(("capi", cfg.key(), str(ops)))
        res.count("capi_histories")
        for (s, e) in read_battery(rng, cfg, exp, files)[:10]:
            want = wl.runs_of(exp, s, e)
            got = rd.read(s, e, "ch")
            g2 = [(int(k), [int(x) if x != -2 ** 31 else -1 for x in np.asarray(got[k]).reshape(-1)]) for k in sorted(got)]
            if g2 != [(a, list(t)) for a, t in want]:
                res.violation("capi-read-differs", "data written through the C API does not read back at its indices",
                              dict(hist, range=[s, e]), [(a, len(t)) for a, t in want], [(a, len(t)) for a, t in g2])
                break
    res.assumptions += ["bit-exactness of HDF5/numpy type conversion is covered by this correspondence only (values span the full range of every element type)",
                        "the reader side is modelled and proved in C08 (Model/ReaderCore.v); here the real reader is compared with the Spec"]
    res.trusted += ["Model/WriterCore.v, IndexCalc.v, PyWriter.v are hand models tied by this correspondence"]


def replay(res, rp):
    return wl.replay(res, rp)
