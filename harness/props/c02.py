"""C02 -- kill-safe publication of data files.

Proof: coq/Properties/C02.v over the protocol model (Base/Fs.v, Model/WriterProto.v).
Tie (this file): a writer subprocess runs under the LD_PRELOAD interposer; its logged trace must
 (a) equal the model's trace for the same recording and (b) be accepted by the extracted protocol
acceptor; (c) a snapshot of the tree at every operation (= the state a kill there leaves; kills
are run as well and compared with the snapshots) is read with DigitalRFReader, lsdrf and raw h5py
and compared with the model's crash state and with the property's oracle."""
import os
import shutil

import common
import protolib as P

LEVEL = "proof"


def recordings(tier):
    rs = [P.spec([[0, 150], [150, 130]], name="gapped-100-per-file-150+130"),
          P.spec([[0, 300000], [300000, 260000]], srn=200000, continuous=1, name="continuous-200k-per-file"),
          P.spec([[0, 150], [170, 130]], name="gapped-channel-path-longer-than-300-characters", deep=1),
          P.spec([[0, 150], [150, 130]], subdir_cadence=1, name="gapped-one-file-per-subdirectory")]
    if tier == "thorough":
        rs += [P.spec([[30, 100], [250, 10], [260, 350]], name="gapped-midfile-start-and-gap"),
               P.spec([[0, 64], [64, 64], [128, 64], [192, 64]], srn=64, subdir_cadence=1, nsub=2, dtype="f4",
                      name="f4-2-subchannels-1-file-per-subdir"),
               P.spec([[0, 1000], [1000, 2500]], srn=1000, srd=3, file_cadence_ms=400, subdir_cadence=2,
                      compression=1, checksum=1, name="rational-rate-400ms-compressed"),
               P.spec([[0, 250]], srn=100, is_complex=1, name="complex-single-call"),
               P.spec([[10, 5]], name="one-small-write")]
    return rs


def check_tree(res, sp, top, state, i, b, prev_seen, label):
    """one crash point: tree vs model state, and the property's oracle on the tree.
    Returns the samples a reader sees (for monotonicity)."""
    inp = {"recording": sp["name"], "spec": sp, "crash_before_op": i, "label": label}
    files = P.tree_files(top)
    dirs = P.tree_dirs(top)
    # ---- model vs tree: same names
    if state is not None:
        mfiles = sorted(p for p, (c, _t) in state.items() if c in (2, 3, 4))
        mdirs = sorted([p for p, (c, _t) in state.items() if c == 1] + [P.CH])
        if mfiles != files or mdirs != dirs:
            res.disagree("tree at crash point differs from the model's crash state", inp,
                         {"files": mfiles, "dirs": mdirs}, {"files": files, "dirs": dirs})
    # ---- oracle: final-named data files are whole and hold only written samples
    allw = P.written(sp)
    finals = P.Samples()
    for f in files:
        base = os.path.basename(f)
        full = os.path.join(top, f)
        if P.is_final_data(f):
            try:
                got = P.read_raw(full, sp)
            except Exception as e:  # noqa
                res.violation("final-data-file-unreadable", "a data file under a final name is not a valid file",
                              inp, "h5py opens %s" % f, repr(e)[:200])
                continue
            if not got.subset_of(allw) or got.has_dup():
                res.violation("final-data-file-foreign-samples", "a final data file holds samples that were not written",
                              inp, "subset of the written samples", {"file": f, "content": got.brief()})
            finals = finals.union(got)
            if state is not None:
                c, t = state.get(f, (0, 0))
                if c != 4:
                    res.disagree("model does not predict a complete file here", inp, (c, t), f)
                else:
                    exp = P.content_of(sp, P.enc_path(f)[3], t)
                    if not (exp == got):
                        res.violation("final-data-file-wrong-content", "a final data file differs from the image closed",
                                      inp, exp.brief(), got.brief())
        elif base.startswith("tmp."):
            res.count("tmp_files_seen")
        elif base == "drf_properties.h5":
            pass
        else:
            res.disagree("unexpected file in the channel", inp, None, f)
    # ---- oracle: whatever is in progress is confined to tmp. names (model says which files are partial)
    props = os.path.join(top, P.CH, "drf_properties.h5")
    props_ok = None
    if os.path.exists(props):
        try:
            import h5py
            with h5py.File(props, "r") as f5:
                props_ok = "sample_rate_numerator" in f5.attrs and "digital_rf_version" in f5.attrs
        except Exception:  # noqa
            props_ok = False
        if not props_ok:
            res.violation("props-file-not-staged",
                          "drf_properties.h5 is visible under its final name while incomplete (created in place, not staged)",
                          inp, "complete file or no file", "incomplete drf_properties.h5 (size %d)" % os.path.getsize(props))
        if state is not None and state.get(P.CH + "/drf_properties.h5", (0, 0))[0] == 4 and not props_ok:
            res.disagree("model says drf_properties.h5 is complete, the tree's is not", inp,
                         state.get(P.CH + "/drf_properties.h5"), props_ok)
    # ---- oracle: listing ignores tmp names and reports the final ones
    import digital_rf
    from digital_rf import list_drf
    try:
        listed = sorted(os.path.relpath(x, top) for x in list_drf.lsdrf(top, include_dmd=False))
    except Exception as e:  # noqa
        listed = None
        res.violation("listing-fails-after-kill", "lsdrf raises on the tree a kill leaves", inp, "a listing", repr(e)[:200])
    if listed is not None:
        want = sorted(f for f in files if not os.path.basename(f).startswith("tmp."))
        if props_ok is None and not os.path.exists(props):
            want = [f for f in want if False]    # no properties file: not a channel yet, nothing is listed
        if [x for x in listed if os.path.basename(x).startswith("tmp.")]:
            res.violation("listing-shows-tmp", "lsdrf lists a tmp. file", inp, want, listed)
        elif listed != want:
            res.violation("listing-misses-final", "lsdrf does not list exactly the final-named files", inp, want, listed)
    # ---- oracle: a reader opened on the tree succeeds and returns exactly the finalized samples
    seen = None
    if os.path.exists(props):
        try:
            _r, seen = P.reader_pass(top, sp)
            _r.close()
        except Exception as e:  # noqa
            sig = "props-file-not-staged" if props_ok is False else "reader-fails-after-kill"
            res.violation(sig, "DigitalRFReader fails on the tree a kill leaves"
                          + (" (incomplete drf_properties.h5 under its final name)" if props_ok is False else ""),
                          inp, "reader returns the finalized samples", repr(e)[:200])
    else:
        try:
            digital_rf.DigitalRFReader(top)
            res.disagree("reader opened a tree without properties file", inp, "ValueError", "ok")
        except ValueError:
            pass     # documented: no channel yet
        except Exception as e:  # noqa
            res.violation("reader-fails-after-kill", "DigitalRFReader fails with an undocumented error", inp,
                          "ValueError(no channels)", repr(e)[:200])
    # ---- ... and so does a reader given this tree as the SECOND of two top-level directories of the channel (an
    #      archive of an earlier period first): the directory of a killed recorder contributes its finalized files,
    #      or nothing, and never makes the reader fail
    if os.path.exists(props) and i % 3 == 0:
        multidir_after_kill(res, sp, b, top, finals, inp)
    if seen is not None:
        if not (seen == finals):
            res.violation("reader-not-exactly-finalized", "reader does not return exactly the samples of the finalized files",
                          inp, finals.brief(), seen.brief())
        if prev_seen is not None and not prev_seen.subset_of(seen):
            res.violation("finalized-data-changed", "samples readable at an earlier crash point are not readable later",
                          inp, prev_seen.brief(), seen.brief())
    res.case(("crash", sp["name"], i, label), nontrivial=True)
    res.count("crash_points")
    return seen if seen is not None else prev_seen


def multidir_after_kill(res, sp, b, top, finals, inp):
    import digital_rf
    if not hasattr(b, "archive_top"):
        per_file = max(1, sp["file_cadence_ms"] * sp["srn"] // (1000 * sp["srd"]))
        back = 50 * per_file + 7
        if sp["start"] - back < 0:
            b.archive_top = None
        else:
            spa = dict(sp, start=sp["start"] - back, writes=[[0, min(2 * per_file + 3, 3000)]], name=sp["name"] + "-archive")
            spa.pop("apis", None)
            b.archive_top = os.path.join(b.work, "archive")
            P.run_writer(spa, b.archive_top)
            _r, sa = P.reader_pass(b.archive_top, spa)
            b.archive_seen = P.Samples(sa.g - back, sa.v)
    if not b.archive_top:
        return
    res.count("reader over [archive, killed recorder's directory]")
    try:
        r = digital_rf.DigitalRFReader([b.archive_top, top])
        _r, seen = P.reader_pass(top, sp, reader=r)
        r.close()
    except Exception as e:  # noqa
        res.violation("multidir-reader-fails-after-kill", "a DigitalRFReader over two top-level directories fails when the second "
                      "is the tree a kill leaves", dict(inp, second_of_two_directories=True), "archive + finalized samples", repr(e)[:200])
        return
    want = b.archive_seen.union(finals)
    if not (seen == want):
        res.violation("multidir-reader-not-exactly-finalized", "a reader over [archive, killed tree] does not return the archive plus "
                      "exactly the finalized samples", dict(inp, second_of_two_directories=True), want.brief(), seen.brief())


def one_recording(res, sp):
    b = P.baseline(res, sp, snapshots=True)
    if b.ops is None:
        return
    states = P.model_states(b) if b.rejected_at is None or True else None
    prev = None
    digests = {}
    for i in range(1, b.n + 1):
        top = os.path.join(b.snap, str(i))
        if not os.path.isdir(top):
            res.disagree("snapshot missing", {"recording": sp["name"], "op": i}, None, None)
            continue
        prev = check_tree(res, sp, top, states[i - 1], i, b, prev, "snapshot")
        digests[i] = P.tree_shape(top)
    end = os.path.join(b.snap, "end")
    prev = check_tree(res, sp, end, states[b.n], b.n + 1, b, prev, "after-close")
    # ---- after a clean close: no tmp file, every written sample readable
    inp = {"recording": sp["name"], "spec": sp, "crash_before_op": b.n + 1, "label": "after-close"}
    left = [f for f in P.tree_files(end) if os.path.basename(f).startswith("tmp.")]
    if left:
        res.violation("tmp-left-after-close", "a tmp. file remains after a clean close", inp, [], left)
    if prev is None or not (prev == P.written(sp)):
        res.violation("not-all-readable-after-close", "after a clean close not every written sample is readable", inp,
                      P.written(sp).brief(), prev.brief() if prev is not None else None)
    # ---- reader pass of the model on every crash state agrees with what was read (model's read_pass)
    cands = sorted({(p["d"], p["k"]) for c in P.parts_of(sp) for p in c})
    ops = [o for o, _ in b.ops]
    cases = [[5] + P.enc_ops(ops) + [i, len(cands)] + [x for dk in cands for x in dk] for i in range(b.n + 1)]
    for i, out in enumerate(common.run_model("proto", cases)):
        opens, tmp_listed, failed = out[0], out[1], out[2]
        st = states[i]
        if tmp_listed:
            res.disagree("model lists a tmp path", {"recording": sp["name"], "i": i}, 0, 1)
        if failed and b.rejected_at is None:
            res.disagree("model reader fails on a crash state of an accepted trace", {"recording": sp["name"], "i": i}, 0, 1)
        exp = sorted((P.enc_path(p)[3], t) for p, (c, t) in st.items() if c == 4 and P.is_final_data(p))
        got = sorted(zip(out[4::2], out[5::2])) if not failed else None
        if got is not None and got != exp:
            res.disagree("model read_pass differs from the complete final files of the state", i, got, exp)
    # ---- kills: the state a kill leaves is the snapshot
    ks = list(range(1, b.n + 1))
    if res.tier == "quick":
        ks = sorted(res.rng.sample(ks, min(4, len(ks))))
    for i in ks:
        kd = os.path.join(b.work, "kill%d" % i)
        outc, rc, err = P.run_writer(sp, kd, kill_at=i)
        if rc != 137:
            res.disagree("writer did not die at the kill point", {"recording": sp["name"], "op": i}, 137, rc)
        if P.tree_shape(kd) != digests.get(i):
            res.disagree("tree after kill -9 differs (names, sizes) from the snapshot taken at the same operation",
                         {"recording": sp["name"], "op": i}, digests.get(i), P.tree_shape(kd))
        else:
            for f in P.tree_files(kd):
                if P.is_final_data(f) and not (P.read_raw(os.path.join(kd, f), sp)
                                               == P.read_raw(os.path.join(b.snap, str(i), f), sp)):
                    res.disagree("final file after kill -9 differs in content from the snapshot", f, None, None)
        res.count("kills_compared_with_snapshots")
        shutil.rmtree(kd, True)
    # ---- restart after a kill inside a data file: a new writer whose first write falls into the period of the
    #      leftover tmp file (then closed; or: then a write into a later free period, then closed)
    for i, tmp_rel in P.restart_points(res, b, 3):
        for later in (False, True):
            P.restart_after_kill(res, sp, i, tmp_rel, later, concurrent=False)
    # ---- a second session replaying the same samples must not touch finalized files
    before = P.tree_digest(b.top)
    outc, rc, err = P.run_writer(sp, b.top)
    after = P.tree_digest(b.top)
    changed = sorted(f for f in before if P.is_final_data(f) and after.get(f) != before[f])
    if changed:
        res.violation("finalized-file-modified", "a finalized data file was modified or replaced by a later session",
                      {"recording": sp["name"], "spec": sp, "label": "second-session"}, "bytes unchanged", changed)
    if any(o["ok"] for o in outc if o["call"].startswith("write")):
        res.violation("rewrite-accepted", "a later session was allowed to write into a finalized file period",
                      {"recording": sp["name"], "spec": sp, "label": "second-session"}, "all writes refused", outc)
    res.count("second_session_checked")
    # ---- a third session: the same samples again (every such write is refused, the writer stays usable), then a
    #      write into a free period after everything recorded, then close.  The accepted write must be published:
    #      no tmp. file after the clean close, every sample of every session readable, the old files untouched
    lastg = max(g0 + n for g0, n in sp["writes"])
    per_file = max(1, sp["file_cadence_ms"] * sp["srn"] // (1000 * sp["srd"]))
    extra = [lastg + 3 * per_file + 7, min(per_file + 3, 4000)]
    sp3 = dict(sp, writes=[list(w) for w in sp["writes"]] + [extra], name=sp["name"] + "-third-session")
    sp3.pop("apis", None)
    inp3 = {"recording": sp["name"], "spec": sp3, "label": "third-session-refused-then-later-period"}
    before = P.tree_digest(b.top)
    log3 = os.path.join(b.work, "log3.txt")
    outc, rc, err = P.run_writer(sp3, b.top, log=log3)
    after = P.tree_digest(b.top)
    oc = {o["call"]: o for o in outc}
    # close() is what publishes: no rename / unlink of a data file may happen after close() has returned (e.g. only
    # when the process exits and the interpreter frees what is left)
    late = [(e["kind"], e["path"]) for e in P.parse_log(log3, b.top)
            if e.get("call") is None and e["kind"] in ("rename", "unlink") and P.RE_DATA.match(os.path.basename(e["path"] or ""))]
    if late:
        res.violation("published-after-close-returned", "a data file was renamed / removed after close() had returned (the "
                      "writer was not finalized by close but only when the process ended)", inp3, "nothing after close", late[:4])
    changed = sorted(f for f in before if P.is_final_data(f) and after.get(f) != before[f])
    if changed:
        res.violation("finalized-file-modified", "a finalized data file was modified or replaced by a later session", inp3,
                      "bytes unchanged", changed)
    left = [f for f in P.tree_files(b.top) if os.path.basename(f).startswith("tmp.")]
    last_ok = oc.get("write%d" % (len(sp3["writes"]) - 1), {}).get("ok")
    if not last_ok:
        res.violation("later-period-refused", "after refused writes into finalized periods the writer refuses a write into a "
                      "free later period", inp3, "accepted", outc[-4:])
    elif left or not oc.get("close", {}).get("ok"):
        res.violation("tmp-left-after-close", "a tmp. file is left after a clean close of a session that had refused writes",
                      inp3, "no tmp. file", {"left": left, "close": oc.get("close")})
    else:
        try:
            _r, seen = P.reader_pass(b.top, sp3)
            if not (seen == P.written(sp3)):
                res.violation("not-all-readable-after-close", "after the clean close of a later session not every accepted "
                              "sample is readable", inp3, P.written(sp3).brief(), seen.brief())
        except Exception as e:  # noqa
            res.violation("reader-fails-after-close", "DigitalRFReader fails after the clean close of a later session", inp3,
                          "all samples", repr(e)[:200])
    res.count("third_session_checked")
    res.sample({"recording": sp["name"], "ops": b.n, "props_variant": {0: "Direct", 1: "Staged", None: "none"}[b.vp],
                "trace_head": [P.show_op(o) for o, _ in b.ops[:12]]})
    shutil.rmtree(b.work, True)


def run(res):
    common.use_impl()
    res.rule = ("one case = one crash point (a snapshot of the tree before each intercepted file-system operation of a "
                "writer subprocess, plus the state after close) of one recording, checked by raw h5py, DigitalRFReader, "
                "lsdrf and against the model's crash state; all are non-trivial (each follows a distinct operation); "
                "recordings: gapped 100 samples/file 150+130, continuous 200k samples/file (pwrites inside H5Dwrite), "
                "thorough adds mid-file start with a gap, f4 with 2 sub-channels, rational rate 400 ms compressed, "
                "complex, one small write; kills (-9) at the same operations are compared (names, sizes, decoded content) with the snapshots; "
                "restart after a kill: at kill points inside a data file (quick: the first, the last and one random per recording; "
                "thorough: all) a NEW writer subprocess with the same parameters writes into the file period of the leftover "
                "tmp.rf@X.h5 and is closed (and: then writes into a later free period, then is closed); raw h5py, DigitalRFReader, "
                "lsdrf and byte digests of the earlier final files judge the tree; the outcome is compared with the model "
                "(all refused, leftover removed, no final name appears)")
    names_tmp, names_final = set(), set()
    for sp in recordings(res.tier):
        for c in P.parts_of(sp):
            for p in c:
                names_final.add(os.path.basename(P.dec_path([2, p["d"], 0, p["k"]])))
                names_tmp.add(os.path.basename(P.dec_path([2, p["d"], 1, p["k"]])))
    names_tmp |= {"tmp.drf_properties.h5", "tmp.rf@0.000.h5", "tmp.metadata@1500000000.h5", "tmp.x@1.h5"}
    P.grammar_check(res, names_tmp, names_final)
    for sp in recordings(res.tier):
        one_recording(res, sp)
    # guard the extraction: the model run of the first recording evaluated by vm_compute
    res.assumptions += [
        "after the close(2) that ends a successful H5Fclose the bytes on disk are the whole HDF5 file; before it they are "
        "unspecified (HDF5's internal flush order is not modelled) -- every snapshot is opened with h5py to test this",
        "rename(2), open(O_EXCL) and mkdir(2) are atomic and a renamed file is whole for other processes (kernel)",
        "a crash is the death of the process; the page cache survives (kill -9 is compared with the snapshots each run)",
        "the writer issues no file-system operation the interposer does not see (open/openat/creat/write/pwrite/"
        "ftruncate/close/rename/mkdir/unlink/remove and 64-bit variants)",
    ]
    res.trusted += ["harness/cdriver/fsshim.c (LD_PRELOAD interposer; call-stack labels via backtrace/dladdr)",
                    "harness/protolib.py (mapping of system calls to Base/Fs.v operations; file arithmetic; oracles)"]


def replay(res, rp):
    common.use_impl()
    inp = rp["input"]
    sp = inp.get("spec")
    if not sp:
        print("replay: no recording in the replay file", rp.get("no_longer_checks", "")[:1] if isinstance(rp.get("no_longer_checks"), str) else "")
        print(rp)
        return 0
    work = common.scratch_dir("c02replay-")
    top = os.path.join(work, "top")
    if sp.get("deep"):
        top = os.path.join(work, "d" * 100, "e" * 100, "f" * 70, "top")
        os.makedirs(os.path.dirname(top))
        print("channel directory path of %d characters" % len(os.path.join(top, P.CH)))
    i = inp.get("crash_before_op")
    if inp.get("label") == "restart-after-kill":
        return P.replay_restart(res, rp)
    if inp.get("label") == "third-session-refused-then-later-period":
        base = dict(sp, writes=sp["writes"][:-1])
        P.run_writer(base, top)
        outc, rc, err = P.run_writer(sp, top)
        print("later session outcomes:", [(o["call"], o["ok"]) for o in outc])
        left = [f for f in P.tree_files(top) if os.path.basename(f).startswith("tmp.")]
        print("tmp. files after the clean close:", left)
        try:
            _r, seen = P.reader_pass(top, sp)
            print("reader sees", seen.brief(), "; written", P.written(sp).brief())
            bad = bool(left) or not (seen == P.written(sp))
        except Exception as e:  # noqa
            print("reader raises", repr(e))
            bad = True
        print("replay verdict:", "STILL VIOLATING" if bad else "no longer violating")
        return 1 if bad else 0
    if inp.get("label") == "second-session":
        P.run_writer(sp, top)
        before = P.tree_digest(top)
        outc, rc, err = P.run_writer(sp, top)
        after = P.tree_digest(top)
        print("second session outcomes:", outc)
        print("changed files:", sorted(f for f in before if after.get(f) != before[f]))
        return 0
    outc, rc, err = P.run_writer(sp, top, kill_at=i)
    print("writer killed before operation %s (exit %s); tree:" % (i, rc))
    for f in P.tree_files(top):
        print("  ", f, os.path.getsize(os.path.join(top, f)))
    import digital_rf
    try:
        r, seen = P.reader_pass(top, sp)
        print("reader sees", seen.brief())
    except Exception as e:  # noqa
        print("reader raises", repr(e))
    print("expected:", rp.get("expected"), "| observed then:", rp.get("observed"))
    return 0
