"""C18 -- cp / mv / ln transfer exactly the listed set.

Ties: the extracted Model/Transfer.drf_transfer (listing of Model/Listing.v on the source tree +
the copy / link / move loop on abstract stores) is compared with the real
`digital_rf.drf_command.main([...])` on generated scratch trees (trees of C14) x option
combinations (channel lists, --only, -R, windows incl. the relative '+N' end, include flags,
hard / symbolic links, pre-existing destination files); the real command is also compared with an
independent set-theoretic oracle (C14's Spec listing -> expected destination / source); one real
recording is copied with a window and read back with DigitalRFReader on both sides."""
import datetime
import errno
import json
import os
import shutil
import tempfile

import common
from props import listing_lib as L
from props import c14
from props import c15 as _c15

LEVEL = "proof"
OPS = ["cp", "mv", "ln", "lnsym"]
TERR = {0: None, 1: "FileExistsError", 2: "FileNotFoundError", 11: "IndexError", 12: "OSError", 13: "ValueError"}


def regenerate(res):
    _c15.regenerate(res)


def spell(rng, ch):
    """the same channel, written the ways a command line writes it: not necessarily in normal form"""
    r = rng.random()
    if r < 0.5:
        return ch
    if r < 0.65:
        return ch + "/"
    if r < 0.8:
        return "./" + ch
    if r < 0.9 and "/" in ch:
        return ch.replace("/", "//", 1) if rng.random() < 0.5 else ch.replace("/", "/./", 1)
    return rng.choice([ch + "//", "./" + ch + "/", " " + ch])


def subtree(ct, path):
    node = ct
    for comp in path.split("/"):
        if not isinstance(node, dict) or comp not in node:
            return None
        node = node[comp]
    return node


def overlapping(chs):
    for i, a in enumerate(chs):
        for j, b in enumerate(chs):
            if i != j and (a == b or b.startswith(a + "/")):
                return True
    return False


def remove_path(ct, path):
    comps = path.split("/")
    node = ct
    for c in comps[:-1]:
        node = node[c]
    del node[comps[-1]]


def deep(ct):
    return json.loads(json.dumps(ct))


def strip_gone(node):
    if node is None:
        return None
    if node == c14.GONE:
        return {}
    return {k: strip_gone(v) for k, v in node.items()}


def assign_contents(tree, counter):
    """-> content tree: files become ints"""
    out = {}
    for nm, c in tree.items():
        if c is None:
            counter[0] += 1
            out[nm] = counter[0]
        else:
            out[nm] = assign_contents(c, counter)
    return out


def write_ctree(root, ct):
    os.makedirs(root, exist_ok=True)
    for nm, c in ct.items():
        p = os.path.join(root, nm)
        if isinstance(c, int):
            with open(p, "w") as f:
                f.write("content-%d" % c)
        else:
            write_ctree(p, c)


def enc_cnode(c):
    if isinstance(c, int):
        return [0, c]
    out = [1, len(c)]
    for nm, x in c.items():
        out += L.enc_word(nm) + enc_cnode(x)
    return out


def erase(ct):
    return {nm: (None if isinstance(c, int) else erase(c)) for nm, c in ct.items()}


def store_of(ct, prefix=""):
    out = {}
    for nm, c in ct.items():
        if isinstance(c, int):
            out[prefix + nm] = c
        else:
            out.update(store_of(c, prefix + nm + "/"))
    return out


def snapshot(root):
    """-> {relpath: (content id, link kind)} ; directories -> set"""
    files, dirs = {}, set()
    if not os.path.isdir(root):
        return files, dirs
    for r, ds, fs in os.walk(root):
        rel = os.path.relpath(r, root)
        for d in ds:
            dirs.add(os.path.normpath(os.path.join(rel, d)))
        for f in fs:
            p = os.path.join(r, f)
            rp = os.path.normpath(os.path.join(rel, f))
            try:
                with open(p) as fh:
                    txt = fh.read()
                cid = int(txt.split("-")[1]) if txt.startswith("content-") else -1
            except OSError:
                cid = None
            files[rp] = (cid, "sym" if os.path.islink(p) else "file", os.lstat(p).st_ino, os.readlink(p) if os.path.islink(p) else None)
    return files, dirs


_iso_ctr = [0]
_TZS = ["UTC", "EST5", "IST-5:30", "UTC", "NZST-12NZDT,M9.5.0,M4.1.0/3"]


def iso(us):
    """a time of the command line: 'Z', no designator (documented to mean UTC whatever the local zone
    of the process is) or an explicit non-zero offset, in rotation; the process zone rotates too"""
    import time
    dt = L.EPOCH + datetime.timedelta(microseconds=us)
    _iso_ctr[0] += 1
    os.environ["TZ"] = _TZS[(_iso_ctr[0] // 3) % len(_TZS)]
    time.tzset()
    form = _iso_ctr[0] % 3
    if form == 0:
        return dt.strftime("%Y-%m-%dT%H:%M:%S.%f") + "Z"
    if form == 1:
        return dt.strftime("%Y-%m-%dT%H:%M:%S.%f")
    z = datetime.timezone(datetime.timedelta(hours=5, minutes=30))
    return dt.astimezone(z).strftime("%Y-%m-%dT%H:%M:%S.%f") + "+05:30"


def dec_stores(row):
    code = row[0]
    i = 1
    out = []
    for _ in range(2):
        n = row[i]
        i += 1
        s = {}
        for _ in range(n):
            w, i = L.take_word(row, i)
            s[w] = row[i]
            i += 1
        out.append(s)
    return code, out[0], out[1]


def enc_store(s):
    out = [len(s)]
    for p, c in s.items():
        out += L.enc_word(p) + [c]
    return out


def second_filesystem(top):
    """a writable directory on a device other than the scratch directory's, or None"""
    if os.environ.get("DRF_C18_NO_SECOND_FS"):
        return None
    dev = os.stat(top).st_dev
    for p in ("/dev/shm", "/run/shm", "/tmp", "/var/tmp"):
        try:
            if os.stat(p).st_dev != dev and os.access(p, os.W_OK):
                return p
        except OSError:
            pass
    return None


def run(res):
    common.use_impl()
    import digital_rf
    from digital_rf import drf_command
    rng = res.rng
    quick = res.tier == "quick"
    res.rule = ("source trees of C14 (vanishing directories replaced by empty ones) with a distinct content per file x "
                "{cp, mv, ln, ln --symbolic} x {no channel list, -c one, -c several/comma list, a missing channel} x "
                "{--only} x {-R} x windows (absolute ISO times at and around file times, relative '+N' end) x include "
                "flags x pre-existing destination files; non-trivial = distinct (tree, options) that transfer at least "
                "one file or raise; each compared: extracted Transfer.drf_transfer vs real drf_command.main vs "
                "set-theoretic oracle on the tree diff (paths, contents, link kind, directories created)")
    ntrees = 80 if quick else 500
    per_tree = 14 if quick else 30
    trees = [(n, strip_gone(t)) for n, t in c14.boundary_trees()] + \
            [("random-%d" % i, strip_gone(c14.gen_tree(rng))) for i in range(ntrees)]
    top = common.scratch_dir()
    counter = [0]
    cases, metas = [], []
    for ti, (tname, tree) in enumerate(trees):
        ct = assign_contents(tree, counter)
        times = c14.tree_times(tree)
        # channel paths relative to src: top-level directories and one level below (e.g. grp/Z0);
        # (a timestamped subdirectory given as "channel" is the entry case of ilsdrf, covered by C14)
        chans = [n for n, c in ct.items() if isinstance(c, dict) and L.parse_subdir(n) is None]
        for n in list(chans):
            for n2, c2 in ct[n].items():
                if isinstance(c2, dict) and L.parse_subdir(n2) is None and rng.random() < 0.5:
                    chans.append(n + "/" + n2)
        for k in range(per_tree):
            op = rng.choice(OPS)
            r = rng.random()
            if not chans or r < 0.35:
                chs_arg, pairs = None, [("", "")]
            elif r < 0.6:
                ch = rng.choice(chans)
                chs_arg, pairs = [spell(rng, ch)], [(ch, ch)]
            elif r < 0.9:
                sel = rng.sample(chans, min(len(chans), rng.choice([1, 2, 3])))
                sp = [spell(rng, c) for c in sel]
                chs_arg, pairs = [rng.choice([",", ", ", " ,"]).join(sp)] if rng.random() < 0.5 else sp, [(c, c) for c in sel]
            else:
                chs_arg, pairs = ["nosuchchannel"], [("nosuchchannel", "nosuchchannel")]
            only = rng.random() < 0.3
            reverse = rng.random() < 0.3
            st = rng.choice([None, None] + [t + d for t in times for d in (-1000, 0, 1000)]) if times else None
            en_rel = None
            en = rng.choice([None, None] + [t + d for t in times for d in (-1000, 0, 1000)]) if times else None
            if st is not None and en is not None and en < st:
                st, en = en, st
            if st is not None and rng.random() < 0.15:
                en_rel = rng.choice([0, 1, 1200, 3600, 7200])
                en = st + en_rel * 1000000
            nodrf, nodmd = rng.random() < 0.25, rng.random() < 0.25
            drfp = rng.choice([None, None, True, False])
            dmdp = rng.choice([None, None, True, False])
            fl = (not nodrf, not nodmd, drfp, dmdp)
            # destination: missing, empty, or with some files (some colliding)
            dmode = rng.choice(["missing", "empty", "files", "files", "linked"])
            dst_store = {}
            dst_links = []
            if dmode == "linked":
                # the destination already holds hard links to some source files (an earlier `drf ln`, then cp / mv
                # of the same selection): cp must leave both, mv must still remove them from the source
                srcs = store_of(ct)
                allp = sorted(srcs)
                for p in rng.sample(allp, min(len(allp), rng.choice([1, 2, len(allp)]))):
                    dst_store[p] = srcs[p]
                    dst_links.append(p)
            if dmode == "files":
                allp = sorted(store_of(ct))
                for p in rng.sample(allp, min(len(allp), rng.choice([0, 1, 2]))):
                    counter[0] += 1
                    dst_store[p] = counter[0]
                counter[0] += 1
                dst_store["unrelated/keep.txt"] = counter[0]
            metas.append(dict(ti=ti, tname=tname, ct=ct, op=op, chs=chs_arg, pairs=pairs, only=only, reverse=reverse,
                              st=st, en=en, en_rel=en_rel, fl=fl, dmode=dmode, dst=dst_store, dst_links=dst_links))
    # ---- model: one runner case per (src, dest) pair; when the selected channels overlap (one
    # contains another, or one is named twice) the pairs see each other's effects and are evaluated
    # one after the other instead
    def model_case(m, src_ct, dsub):
        return ([30, OPS.index(m["op"])] + list(c14.FIXED) + L.enc_flags(m["fl"]) + L.enc_opt(m["st"]) +
                L.enc_opt(m["en"]) + [int(not m["only"]), int(m["reverse"])] +
                (enc_cnode(src_ct) if src_ct is not None else [2]) + enc_store(dsub))

    for m in metas:
        m["model_idx"] = []
        m["sequential"] = overlapping([p[0] for p in m["pairs"]])
        if m["sequential"]:
            continue
        for (sch, dch) in m["pairs"]:
            src_ct = m["ct"] if sch == "" else subtree(m["ct"], sch)
            if not isinstance(src_ct, dict):
                src_ct = None
            pre = (dch + "/") if dch else ""
            dsub = {p[len(pre):]: c for p, c in m["dst"].items() if p.startswith(pre)}
            m["model_idx"].append(len(cases))
            cases.append(model_case(m, src_ct, dsub))
    rows = common.run_model("listing", cases)
    # ---- implementation + oracle
    other_fs = second_filesystem(top)
    res.extra["second_filesystem"] = other_fs or "none found: EXDEV injected into os.rename for renames from src to dest"
    for mi, m in enumerate(metas):
        work = os.path.join(top, "w%d" % mi)
        src, dest = os.path.join(work, "src"), os.path.join(work, "dest")
        # every fifth cp/mv/ln --symbolic has its destination on another file system (a rename from src to
        # dest fails with EXDEV there; hard links are impossible and left out)
        cross = mi % 5 == 1 and m["op"] != "ln"
        xwork = None
        if cross and other_fs:
            xwork = tempfile.mkdtemp(prefix="c18x-", dir=other_fs)
            dest = os.path.join(xwork, "dest")
        write_ctree(src, m["ct"])
        if m["dmode"] != "missing":
            os.makedirs(dest)
            for p, c in m["dst"].items():
                if p in m["dst_links"] and not cross:
                    os.makedirs(os.path.dirname(os.path.join(dest, p)), exist_ok=True)
                    os.link(os.path.join(src, p), os.path.join(dest, p))
                    res.count("destination-file-is-a-hard-link-of-the-source-file")
                    continue
                L.touch(os.path.join(dest, p))
                with open(os.path.join(dest, p), "w") as f:
                    f.write("content-%d" % c)
        src_arg = src
        if mi % 4 == 3 and m["op"] != "lnsym":
            # the source tree is reached through a symbolic link (/data/current -> /data/store/run): the
            # relative paths under the destination must be the same
            src_arg = os.path.join(work, "srclink")
            os.symlink(src, src_arg)
            res.count("source-through-symlink")
        argv = [{"lnsym": "ln"}.get(m["op"], m["op"]), src_arg, dest]
        if m["op"] == "lnsym":
            argv.append("--symbolic")
        for c in (m["chs"] or []):
            argv += ["-c", c]
        if m["only"]:
            argv.append("--only")
        if m["reverse"]:
            argv.append("-R")
        if m["st"] is not None:
            argv += ["-s", iso(m["st"])]
        if m["en"] is not None:
            argv += ["-e", ("+%d" % m["en_rel"]) if m["en_rel"] is not None else iso(m["en"])]
        fl = m["fl"]
        if not fl[0]:
            argv.append("--nodrf")
        if not fl[1]:
            argv.append("--nodmd")
        if fl[2] is not None:
            argv.append("--drfprops" if fl[2] else "--nodrfprops")
        if fl[3] is not None:
            argv.append("--dmdprops" if fl[3] else "--nodmdprops")
        src_before = store_of(m["ct"])
        src_ino = {p: os.lstat(os.path.join(src, p)).st_ino for p in src_before}
        err = None
        inject = cross and not other_fs
        if cross:
            res.count("destination-on-another-filesystem:" + m["op"])
        real_rename = os.rename
        if inject:
            def exdev_rename(a, b, *ar, **kw):
                ra, rb = os.path.realpath(a), os.path.realpath(b)
                if ra.startswith(os.path.realpath(src) + os.sep) != rb.startswith(os.path.realpath(src) + os.sep):
                    raise OSError(errno.EXDEV, "Invalid cross-device link", a)
                return real_rename(a, b, *ar, **kw)
            os.rename = exdev_rename
        try:
            drf_command.main(argv)
        except SystemExit as e:
            err = "SystemExit(%s)" % e.code
        except Exception as e:  # noqa
            err = type(e).__name__
        finally:
            os.rename = real_rename
        sfiles, sdirs = snapshot(src)
        dfiles, ddirs = snapshot(dest)
        inp = {"argv": argv[:1] + ["<src>", "<dest>"] + argv[3:], "tree": m["ct"], "dest_before": m["dst"]}
        if cross:
            inp["dest_on_another_filesystem"] = other_fs or "EXDEV injected"
        if m["dst_links"] and not cross:
            inp["dest_hard_links_of_source"] = list(m["dst_links"])
        res.case((m["tname"], json.dumps(m["ct"], sort_keys=True), tuple(inp["argv"]), json.dumps(m["dst"], sort_keys=True)),
                 nontrivial=(dfiles.keys() != set(m["dst"].keys())) or err is not None)
        res.count("op:" + m["op"])
        res.count("chs:" + ("none" if not m["chs"] else "missing" if m["chs"] == ["nosuchchannel"] else "some"))
        # model result assembled over the pairs
        m_src, m_dst, m_err = dict(src_before), dict(m["dst"]), None
        cur_ct = deep(m["ct"])
        for pi, (sch, dch) in enumerate(m["pairs"]):
            spre = (sch + "/") if sch else ""
            dpre = (dch + "/") if dch else ""
            if m["sequential"]:
                src_ct = cur_ct if sch == "" else subtree(cur_ct, sch)
                if not isinstance(src_ct, dict):
                    src_ct = None
                dsub = {p[len(dpre):]: c for p, c in m_dst.items() if p.startswith(dpre)}
                row = common.run_model("listing", [model_case(m, src_ct, dsub)])[0]
                res.count("sequential-pairs")
            else:
                row = rows[m["model_idx"][pi]]
            code, s2, d2 = dec_stores(row)
            gone = [p for p in m_src if p.startswith(spre) and p[len(spre):] not in s2]
            for p in gone:
                del m_src[p]
                remove_path(cur_ct, p)
            for p in [p for p in m_dst if p.startswith(dpre)]:
                del m_dst[p]
            m_dst.update({dpre + p: c for p, c in d2.items()})
            if code != 0:
                m_err = TERR.get(code, "code%d" % code)
                break
        impl_src = {p: v[0] for p, v in sfiles.items()}
        impl_dst = {p: v[0] for p, v in dfiles.items()}
        if (impl_src, impl_dst, err) != (m_src, m_dst, m_err):
            res.disagree("Transfer.drf_transfer vs drf_command.main", inp,
                         {"src": m_src, "dst": m_dst, "err": m_err}, {"src": impl_src, "dst": impl_dst, "err": err})
        # ---- property oracle (independent listing Spec of C14)
        exp_src, exp_dst, listed_all, exp_err = dict(src_before), dict(m["dst"]), [], None
        undecided = False
        cur = deep(m["ct"])
        for (sch, dch) in m["pairs"]:
            sub = erase(cur) if sch == "" else subtree(erase(cur), sch)
            if not isinstance(sub, dict):
                continue
            try:
                listed, cons = c14.spec_list(sub, fl, m["st"], m["en"], not m["only"], m["reverse"])
            except c14.SpecValueError:
                undecided = True
                break
            if not cons:
                undecided = True
                break
            for p in listed:
                sp = (sch + "/" + p) if sch else p
                dp = (dch + "/" + p) if dch else p
                if m["op"] in ("ln", "lnsym") and dp in exp_dst:
                    exp_err = "FileExistsError"
                    break
                exp_dst[dp] = src_before[sp]
                listed_all.append((sp, dp))
                if m["op"] == "mv":
                    del exp_src[sp]
                    remove_path(cur, sp)
            if exp_err:
                break
        if undecided:
            res.count("oracle-undecided(layout/invalid-date)")
        else:
            if (impl_src, impl_dst, err) != (exp_src, exp_dst, exp_err):
                sig = ("transfer-raises-" + str(err)) if err != exp_err else \
                      "source-differs" if impl_src != exp_src else "destination-set-differs"
                res.violation(sig, "cp/mv/ln did not transfer exactly the listed set", inp,
                              {"src": exp_src, "dst": exp_dst, "err": exp_err}, {"src": impl_src, "dst": impl_dst, "err": err})
            else:
                # link kinds and directories
                for sp, dp in listed_all:
                    v = dfiles[os.path.normpath(dp)]
                    if m["op"] == "ln" and v[2] != src_ino[sp]:
                        res.violation("hard-link-not-same-inode", "ln destination is not a hard link of the source", inp, src_ino[sp], v[2])
                    if m["op"] == "lnsym" and (v[1] != "sym" or v[3] != os.path.join(src, sp)):
                        res.violation("symlink-wrong", "ln --symbolic destination is not a link to the source", inp, os.path.join(src, sp), v)
                    if m["op"] in ("cp", "mv") and v[1] != "file":
                        res.violation("copy-not-regular", "cp/mv destination is not a regular file", inp, "file", v[1])
                need = set()
                for p in exp_dst:
                    d = os.path.dirname(p)
                    while d:
                        need.add(os.path.normpath(d))
                        d = os.path.dirname(d)
                if m["dmode"] != "missing" or exp_dst:
                    if ddirs != need:
                        res.violation("directories-differ", "destination directories are not exactly those needed", inp,
                                      sorted(need), sorted(ddirs))
        shutil.rmtree(work, ignore_errors=True)
        if xwork:
            shutil.rmtree(xwork, ignore_errors=True)
        if mi < 3:
            res.sample({"argv": inp["argv"], "transferred": sorted(set(impl_dst) - set(m["dst"]))[:6], "error": err})
    same_place_leg(res, top, trees, counter)
    linked_view_leg(res, top, trees, counter)
    reader_leg(res, top)
    res.extra["traces_validated_against_impl"] = res.evaluations
    res.assumptions += [
        "the listing generator is lazy; the model lists the initial source tree.  That removals by mv do not disturb the "
        "rest of the listing (a subdirectory is listed before its files are moved; the look-back only reads "
        "subdirectories outside the slice) is validated by the correspondence, not proved",
        "shutil.copy2 / os.link / os.symlink / shutil.move on regular files of one file system: copy overwrites, move "
        "renames over an existing file, link fails on an existing destination",
        "argument parsing (argparse -> ilsdrf keyword arguments, time identifiers) is exercised by the correspondence only",
    ]


def same_place_leg(res, top, trees, counter):
    """the destination IS the source (the same path, the path with a trailing '/.', a symbolic link to it): nothing
    may be lost -- cp and mv leave every file in place with its content, ln either does the same or refuses"""
    from digital_rf import drf_command
    rng = res.rng
    picks = [t for t in trees if store_of(assign_contents(t[1], [0]))][:3] + rng.sample(trees, min(len(trees), 5))
    for ti, (tname, tree) in enumerate(picks):
        ct = assign_contents(tree, counter)
        for op in ("cp", "mv", "ln"):
            for how in ("same-path", "dot", "symlink"):
                work = os.path.join(top, "same%d_%s_%s" % (ti, op, how))
                src = os.path.join(work, "src")
                write_ctree(src, ct)
                dest = src if how == "same-path" else os.path.join(src, ".") if how == "dot" else os.path.join(work, "link")
                if how == "symlink":
                    os.symlink(src, dest)
                before = {p: v[0] for p, v in snapshot(src)[0].items()}
                err = None
                try:
                    drf_command.main([op, src, dest])
                except SystemExit as e:
                    err = "SystemExit(%s)" % e.code
                except Exception as e:  # noqa
                    err = type(e).__name__
                after = {p: v[0] for p, v in snapshot(src)[0].items()}
                res.case(("same-place", tname, op, how), nontrivial=bool(before))
                res.count("destination-is-the-source:" + op)
                if after != before:
                    res.violation("same-place-loses-files", "drf %s of a directory onto itself (%s) lost or changed files" % (op, how),
                                  {"argv": [op, "<src>", "<src> (%s)" % how], "tree": ct, "same_place": how}, before, after)
                elif err not in (None, "FileExistsError"):
                    res.violation("transfer-raises-" + str(err), "drf %s of a directory onto itself raised" % op,
                                  {"argv": [op, "<src>", "<src> (%s)" % how], "tree": ct, "same_place": how}, "no error", err)
                shutil.rmtree(work, ignore_errors=True)


def linked_view_leg(res, top, trees, counter):
    """the source is a VIEW of an archive: a tree of the library's layout whose files are symbolic links (relative
    ones, as `ln -sr` and rsync make them) to the archive's files.  `drf cp` of the view to a directory at another depth
    gives files with the content the listing's files have -- readable ones, not links that dangle from the new place"""
    from digital_rf import drf_command
    picks = [t for t in trees if store_of(assign_contents(t[1], [0]))][:4]
    for ti, (tname, tree) in enumerate(picks):
        ct = assign_contents(tree, counter)
        work = os.path.join(top, "view%d" % ti)
        arch, view, dest = os.path.join(work, "archive"), os.path.join(work, "views", "today"), os.path.join(work, "out", "a", "b", "dest")
        write_ctree(arch, ct)
        for r, _ds, fs in os.walk(arch):
            rel = os.path.relpath(r, arch)
            os.makedirs(os.path.join(view, rel), exist_ok=True)
            for f in fs:
                os.symlink(os.path.relpath(os.path.join(r, f), os.path.join(view, rel)), os.path.join(view, rel, f))
        before = {p: v[0] for p, v in snapshot(view)[0].items()}
        err = None
        try:
            drf_command.main(["cp", view, dest])
        except SystemExit as e:
            err = "SystemExit(%s)" % e.code
        except Exception as e:  # noqa
            err = type(e).__name__
        got = {p: v[0] for p, v in snapshot(dest)[0].items()}
        listed = sorted(os.path.relpath(x, view) for x in digital_rf_list(view))
        res.case(("linked-view", tname), nontrivial=bool(listed))
        res.count("source-files-are-relative-symlinks")
        want = {p: before[p] for p in listed}
        if err is not None or got != want:
            res.violation("copy-of-linked-view-differs", "drf cp of a tree whose files are relative symbolic links does not give the listed "
                          "files with their content", {"argv": ["cp", "<view>", "<dest>"], "tree": ct, "linked_view": True},
                          want, err or got)
            shutil.rmtree(work, ignore_errors=True)
            return
        shutil.rmtree(work, ignore_errors=True)


def digital_rf_list(path):
    import digital_rf
    return digital_rf.lsdrf(path)


def reader_leg(res, top):
    """one real recording: copy a window, read it back on both sides"""
    import numpy as np
    import digital_rf
    from digital_rf import drf_command
    src, dest = os.path.join(top, "real_src"), os.path.join(top, "real_dest")
    ch = os.path.join(src, "chan")
    os.makedirs(ch)
    t0 = c14.BASE
    sr = 100
    w = digital_rf.DigitalRFWriter(ch, np.int16, 3600, 1000, t0 * sr, sr, 1, "uuid-c18", is_complex=False,
                                   num_subchannels=1, is_continuous=True, marching_periods=False)
    data = np.arange(700, dtype=np.int16)
    w.rf_write(data)
    w.close()
    st, en = (t0 + 2) * 1000000, (t0 + 4) * 1000000
    try:
        drf_command.main(["cp", src, dest, "-s", iso(st), "-e", iso(en)])
        rs, rd = digital_rf.DigitalRFReader(src), digital_rf.DigitalRFReader(dest)
        a = rs.read_vector((t0 + 2) * sr, 3 * sr, "chan")
        b = rd.read_vector((t0 + 2) * sr, 3 * sr, "chan")
        res.case(("reader", st, en))
        res.count("reader-leg")
        if not np.array_equal(a, b) or not np.array_equal(np.asarray(a).ravel(), data[200:500]):
            res.violation("reader-differs-on-destination", "reader on the copied window differs from the source", {"window_us": [st, en]},
                          np.asarray(a).ravel()[:10].tolist(), np.asarray(b).ravel()[:10].tolist())
        res.sample({"reader": "cp of [t0+2s, t0+4s] then read_vector(t0+2s, 300 samples) equal on both sides",
                    "dest files": sorted(os.path.relpath(p, dest) for p in L.walk_files(dest))})
    except Exception as e:  # noqa
        res.disagree("reader leg crashed", None, None, repr(e))


def replay(res, rp):
    common.use_impl()
    from digital_rf import drf_command
    i = rp["input"]
    work = common.scratch_dir()
    src, dest = os.path.join(work, "src"), os.path.join(work, "dest")
    if i.get("same_place"):
        write_ctree(src, i["tree"])
        how = i["same_place"]
        dest = src if how == "same-path" else os.path.join(src, ".") if how == "dot" else os.path.join(work, "link")
        if how == "symlink":
            os.symlink(src, dest)
        before = {p: v[0] for p, v in snapshot(src)[0].items()}
        try:
            drf_command.main([i["argv"][0], src, dest])
            err = None
        except Exception as e:  # noqa
            err = type(e).__name__
        after = {p: v[0] for p, v in snapshot(src)[0].items()}
        print("drf", i["argv"][0], "<src> onto itself (%s): error %s; files before %d, after %d" % (how, err, len(before), len(after)))
        print("replay verdict:", "STILL VIOLATING" if after != before else "no longer violating")
        return 1 if after != before else 0
    xwork = None
    if i.get("dest_on_another_filesystem") and second_filesystem(work):
        xwork = tempfile.mkdtemp(prefix="c18x-", dir=second_filesystem(work))
        dest = os.path.join(xwork, "dest")
        print("destination on another file system:", dest)
    write_ctree(src, i["tree"])
    for p, c in (i.get("dest_before") or {}).items():
        if p in (i.get("dest_hard_links_of_source") or []):
            os.makedirs(os.path.dirname(os.path.join(dest, p)), exist_ok=True)
            os.link(os.path.join(src, p), os.path.join(dest, p))
            continue
        L.touch(os.path.join(dest, p))
        with open(os.path.join(dest, p), "w") as f:
            f.write("content-%d" % c)
    argv = [i["argv"][0], src, dest] + i["argv"][3:]
    try:
        drf_command.main(argv)
        err = None
    except Exception as e:  # noqa
        err = type(e).__name__
    print("argv", argv, "error", err)
    print("dest", {p: v[0] for p, v in snapshot(dest)[0].items()})
    print("src", {p: v[0] for p, v in snapshot(src)[0].items()})
    print("expected", rp.get("expected"))
    if xwork:
        shutil.rmtree(xwork, ignore_errors=True)
    return 0
