"""C05 -- write-once, forward-only recording with atomic rejection."""
import ctypes
import hashlib
import os

import numpy as np

import common
import writerlib as wl

LEVEL = "proof"


def regenerate(res):
    import attrlib
    attrlib.regenerate_pyfront(res)
    attrlib.regenerate_wblocks(res)
    attrlib.regenerate_ggs(res)


def tree_hash(d):
    h = hashlib.sha256()
    for root, dirs, files in sorted(os.walk(d)):
        dirs.sort()
        for f in sorted(files):
            p = os.path.join(root, f)
            h.update(os.path.relpath(p, d).encode())
            try:
                with open(p, "rb") as fh:
                    h.update(fh.read())
            except OSError:
                h.update(b"<unreadable>")
    return h.hexdigest()


def canon_files(files):
    return [(f["ms"], f["tmp"], f["rows"], f["data"].tobytes(), f["attrs"].get("sequence_num")) for f in files]


def gen_capi_ops(rng, cfg, nops, invalid_rate):
    """block arrays for the C API, mostly valid, with the malformed kinds of the property"""
    pf = cfg.per_file()
    ops, cur, tag = [], 0, 1
    for _ in range(nops):
        nb = 1 if cfg.cont else rng.choice([1, 1, 2, 3])
        g = cur + rng.choice([0, 0, 1, pf - 1, pf, pf + 1, 2 * pf])
        G, D, off = [], [], 0
        for b in range(nb):
            ln = max(1, rng.choice([1, 2, pf - 1, pf, pf + 1, 2 * pf + 1]))
            G.append(g)
            D.append(off)
            off += ln
            g += ln + rng.choice([0, 1, 2, pf])
        total = off
        if rng.random() < invalid_rate:
            kind = rng.choice(["past", "past-far", "at-last", "d0", "dorder", "gorder", "dbeyond", "overlap", "overlap-late", "cont-multi"])
            if kind == "past" and cur > 0:
                sh = G[0] - cur + 1
                G = [x - sh for x in G]
            elif kind == "past-far" and cur > 0:
                G = [x - G[0] for x in G]
            elif kind == "at-last" and cur > 0:
                sh = G[0] - (cur - 1)
                G = [x - sh for x in G]
            elif kind == "d0":
                D = [x + 1 for x in D]
            elif kind == "dorder" and nb > 1:
                D[-1] = D[-2]
            elif kind == "gorder" and nb > 1:
                G[-1] = G[-2]
            elif kind == "dbeyond":
                if nb > 1:
                    D[-1] = total
                else:
                    G.append(G[-1] + total + 3)
                    D.append(total)
            elif kind == "overlap" and nb > 1:
                G[1] = G[0] + (D[1] - D[0]) - 1
            elif kind == "overlap-late" and nb > 2 and D[2] - D[1] >= 2:
                G[1] = G[0] + (D[1] - D[0]) + 40
                G[2] = G[1] + (D[2] - D[1]) - 1
                for z in range(3, nb):
                    G[z] = G[z - 1] + (D[z] - D[z - 1]) + 1
            elif kind == "cont-multi" and cfg.cont:
                G.append(G[-1] + total + 3)
                D.append(total - 1 if total > 1 else 0)
        ops.append(("capi", total, tag, G, D))
        ok = (G[0] >= cur and D[0] == 0 and all(b > a for a, b in zip(D, D[1:])) and all(b > a for a, b in zip(G, G[1:]))
              and D[-1] < total and all((d2 - d1) <= (g2 - g1) for d1, d2, g1, g2 in zip(D, D[1:], G, G[1:]))
              and not (cfg.cont and len(G) > 1))
        if ok:
            cur = G[-1] + (total - D[-1])
        tag += total
    ops.append(("c",))
    return ops


def capi_validity(cfg, ops):
    """the property's own list of reasons (C05), evaluated without the model: for each C API call whether
    it must be accepted, the cursor advancing only over the calls that must be"""
    cur, out = 0, []
    for op in ops:
        if op[0] != "capi":
            out.append(None)
            continue
        _, total, _tag, G, D = op
        ok = (len(G) == len(D) and len(G) > 0 and G[0] >= cur and D[0] == 0 and all(b > a for a, b in zip(D, D[1:]))
              and all(b > a for a, b in zip(G, G[1:])) and D[-1] < total
              and all((d2 - d1) <= (g2 - g1) for d1, d2, g1, g2 in zip(D, D[1:], G, G[1:]))
              and not (cfg.cont and len(G) > 1))
        if ok:
            cur = G[-1] + (total - D[-1])
        out.append(ok)
    return out


def run(res):
    common.use_impl()
    rng = res.rng
    nh = 100 if res.tier == "quick" else 2500
    res.rule = ("histories interleaving valid calls with ~30% malformed ones (start at/before/far before the cursor, "
                "first offset != 0, non-increasing offsets or indices, overlapping blocks, offsets past the data, "
                "mismatched lengths; at first call / mid-file / on a file boundary / after a gap) through the public "
                "Python writer and through the C API; around every rejected call the channel directory is hashed "
                "byte for byte and the getters compared; the final files must equal those of the same history with "
                "the rejected calls removed; the C index helpers are also compared with the Coq transcription "
                "directly; non-trivial = distinct (config, history) containing at least one rejected call")
    nrej = [0]

    # ---- A. Python API
    def oracle(cfg, ops, reports, files, chdir, mrep, mfiles, hist):
        rej = [i for i, r in enumerate(reports) if r[0] != 0]
        nrej[0] += len(rej)
        # which calls the property itself requires to be rejected (a shadow cursor over the calls it accepts)
        cur = 0
        closed = False
        for i, (op, r) in enumerate(zip(ops, reports)):
            if op[0] == "c":
                closed = True
                continue
            if closed:
                # a closed writer refuses everything and keeps reporting its final position
                if r[0] == 0:
                    res.violation("call-that-must-be-rejected-accepted", "a write on a closed writer was accepted",
                                  dict(hist, call=i, cursor=cur), "rejected with an error", r[:5])
                    break
                continue
            if op[0] == "w":
                ns = cur if op[1] is None else op[1]
                must = ns < cur
                nxt = ns + op[2] if op[2] > 0 else cur
            elif op[0] == "b":
                G, D, total = list(op[3]), list(op[4]), op[1]
                must = not (len(G) == len(D) and len(G) > 0 and G[0] >= cur and D[0] == 0
                            and all(b > a for a, b in zip(D, D[1:])) and all(b > a for a, b in zip(G, G[1:]))
                            and D[-1] < total and all((d2 - d1) <= (g2 - g1) for d1, d2, g1, g2 in zip(D, D[1:], G, G[1:])))
                nxt = (G[-1] + (total - D[-1])) if not must else cur
            else:
                continue
            if must and r[0] == 0:
                res.violation("call-that-must-be-rejected-accepted", "a write at or before a written index / a malformed block description was accepted",
                              dict(hist, call=i, cursor=cur), "rejected with an error", r[:5])
                break
            if not must and r[0] != 0:
                res.violation("valid-call-rejected", "a valid write was rejected", dict(hist, call=i, cursor=cur), "accepted", r[:5])
                break
            if not must:
                cur = nxt
        for i in rej:
            prev = reports[i - 1][2:5] if i > 0 else [0, 0, 0]
            if reports[i][2:5] != prev:
                res.violation("rejected-call-changed-counters", "a rejected call changed the writer's position/counters",
                              dict(hist, call=i), prev, reports[i][2:5])
            if reports[i][0] not in (1, 3):
                res.violation("rejected-with-unexpected-error", "a malformed call was not rejected with ValueError",
                              dict(hist, call=i), 1, reports[i][:2])
        if rej:
            ops2 = [op for op, r in zip(ops, reports) if r[0] == 0]
            ch2 = os.path.join(os.path.dirname(chdir), "filtered", "ch")
            rep2, w2 = wl.run_impl(cfg, ops2, ch2)
            try:
                w2.close()
            except Exception:  # noqa
                pass
            f2 = wl.dump_files(ch2)
            acc = [r[:5] for r in reports if r[0] == 0]
            if canon_files(files) != canon_files(f2) or acc != [r[:5] for r in rep2]:
                res.violation("rejected-call-had-an-effect", "files or later results differ from the history without the rejected calls",
                              hist, [(f["ms"], f["rows"]) for f in f2], [(f["ms"], f["rows"]) for f in files])
        res.count("py_histories")

    hook_state = {}

    def hashing_run(cfg, ops, chdir):
        def hook(when, i, op, w, before=None, rep=None):
            if when == "before":
                return tree_hash(chdir)
            if rep is not None and rep[0] != 0 and before != tree_hash(chdir):
                hook_state["bad"] = (i, op)
        return wl.run_impl(cfg, ops, chdir, hook=hook)

    wl.run_histories(res, nh, oracle, invalid_rate=0.3, far=True, after_close=0.3)
    # byte-level "changes nothing" on a subset (hashing every call is slower)
    work = common.scratch_dir()
    for i in range(30 if res.tier == "quick" else 500):
        cfg = wl.gen_cfg(rng)
        ops = wl.gen_ops(rng, cfg, rng.randrange(2, 7), invalid_rate=0.4)
        hook_state.clear()
        chdir = os.path.join(work, "p%d" % i, "ch")
        reports, w = hashing_run(cfg, ops, chdir)
        w.close()
        res.case(("hash", cfg.key(), str(ops)), nontrivial=any(r[0] != 0 for r in reports))
        res.count("py_hashed_histories")
        if "bad" in hook_state:
            res.violation("rejected-call-changed-files", "the bytes of the channel directory changed across a rejected call",
                          {"cfg": cfg.as_dict(), "ops": [list(o) for o in ops], "call": hook_state["bad"][0]}, "unchanged", "changed")

    # ---- A2. block offsets against the number of SAMPLES whatever the form of the data: a complex single-subchannel
    #      writer also takes N samples as a flat array of 2N interleaved reals; an offset in [N, 2N) is past the data
    for t in range(12 if res.tier == "quick" else 100):
        cfg = wl.gen_cfg(rng, modes=["cont", "gapped", "cont+comp"])
        cfg = wl.Cfg(cfg.n, cfg.d, cfg.sc, cfg.fc, cfg.start, cfg.cont, cfg.comp, cfg.cksum, cfg.kind, cfg.size, cfg.order, True, 1)
        chdir = os.path.join(work, "flat%d" % t, "ch")
        os.makedirs(chdir)
        w = wl.make_writer(cfg, chdir)
        N = rng.choice([4, 9, 10])
        first = wl.enc(cfg, range(1, N + 1))
        flat = np.zeros((N, 2), dtype=cfg.realdtype)
        flat[:, 0], flat[:, 1] = first["r"].reshape(-1), first["i"].reshape(-1)
        flat = flat.reshape(-1)
        w.rf_write_blocks(flat, [0], [0])
        g0 = [w.get_next_available_sample(), w.get_total_samples_written(), w.get_total_gap_samples()]
        h0 = tree_hash(chdir)
        off = rng.choice([N, N + 1, 2 * N - 1])
        hist = {"cfg": cfg.as_dict(), "flat_interleaved_samples": N, "call": ["rf_write_blocks", "2N reals", [N + 5, N + 5 + 40], [0, off]]}
        res.case(("flat", cfg.key(), N, off), nontrivial=True)
        res.count("flat-interleaved-offset-past-the-data")
        try:
            w.rf_write_blocks(flat, [N + 5, N + 5 + 40], [0, off])
            outcome = "accepted"
        except Exception as e:  # noqa
            outcome = type(e).__name__
        g1 = [w.get_next_available_sample(), w.get_total_samples_written(), w.get_total_gap_samples()]
        if outcome == "accepted":
            res.violation("call-that-must-be-rejected-accepted", "a block offset at or past the number of samples was accepted (the data "
                          "was a flat array of 2N interleaved reals)", hist, "rejected with an error", outcome)
        elif g1 != g0 or tree_hash(chdir) != h0:
            res.violation("rejected-call-had-an-effect", "a rejected block write (offset past the data, flat interleaved input) changed "
                          "the counters or the files", hist, [g0, "files unchanged"], [g1, "files %s" % ("unchanged" if tree_hash(chdir) == h0 else "changed")])
        try:
            w.close()
        except Exception:  # noqa
            pass

    # ---- B. C API
    capi_hist = []
    for i in range(nh):
        cfg = wl.gen_cfg(rng, modes=["gapped", "gapped", "cont", "cont+comp"])
        cfg = wl.Cfg(cfg.n, cfg.d, cfg.sc, cfg.fc, cfg.start, cfg.cont, cfg.comp, cfg.cksum, "i", 4, "<", False, 1)
        capi_hist.append((cfg, gen_capi_ops(rng, cfg, rng.randrange(2, 7), 0.3)))
    mo = common.run_model("writer", [wl.encode_case(c, o, 1) for c, o in capi_hist])
    ndis = 0
    for i, ((cfg, ops), out) in enumerate(zip(capi_hist, mo)):
        chdir = os.path.join(work, "c%d" % i, "ch")
        hashes = {}

        def hook(when, j, op, w, before=None, rep=None, chdir=chdir, hashes=hashes):
            if when == "before":
                return tree_hash(chdir)
            if rep is not None and op[0] == "capi" and rep[0] != 0 and before != tree_hash(chdir):
                hashes["bad"] = j
        reports = wl.run_capi(cfg, ops, chdir, hook=hook)
        mrep, mfiles = wl.parse_model(out, len(ops))
        files = wl.dump_files(chdir)
        hist = {"api": "C", "cfg": cfg.as_dict(), "ops": [list(o) for o in ops]}
        res.case(("capi", cfg.key(), str(ops)), nontrivial=any(r[0] != 0 for r in reports))
        res.count("capi_histories")
        if i < 1:
            res.sample(hist)
        prev_gi = 0
        must = capi_validity(cfg, ops)
        judged = True
        for j, (op, r, m) in enumerate(zip(ops, reports, mrep)):
            if op[0] != "capi":
                continue
            res.count("capi_rc:%d" % r[0])
            if judged and must[j] is False and r[0] == 0:
                res.violation("c-invalid-call-accepted", "a C API call that starts before the cursor / has malformed index arrays "
                              "returned success", dict(hist, call=j), "a non-zero return code and no effect", [r[0], "cursor", r[5]])
                judged = False
            elif judged and must[j] is True and r[0] != 0:
                res.violation("c-valid-call-rejected", "a well-formed C API call at or after the cursor was refused",
                              dict(hist, call=j), 0, r[0])
                judged = False
            if r[0] != 0:
                nrej[0] += 1
                if r[5] != prev_gi or "bad" in hashes:
                    res.violation("c-rejected-call-had-an-effect", "a rejected C API call changed the cursor or the files",
                                  dict(hist, call=j), [prev_gi, "files unchanged"], [r[5], hashes])
            if ndis < 5 and (r[0] != m[0] or r[5] != m[5] or r[6] != m[6]):
                res.disagree("writer model vs C API: return code / cursor after call %d" % j, hist, [m[0], m[5], m[6]], [r[0], r[5], r[6]])
                ndis += 1
            prev_gi = r[5]
        if ndis < 5:
            mf = sorted(mfiles, key=lambda x: x["ms"])
            a = [(f["ms"], f["tmp"], f["rows"], list(f["data"])) for f in mf]
            b = [(f["ms"], f["tmp"], f["rows"], [int(x) if x != -2 ** 31 else -1 for x in f["data"].reshape(-1)]) for f in files]
            if a != b:
                res.disagree("writer model vs C API: files on disk", hist, [(x[0], x[2]) for x in a], [(x[0], x[2]) for x in b])
                ndis += 1
        # filtered history
        if any(r[0] != 0 for r in reports):
            ops2 = [op for op, r in zip(ops, reports) if r[0] == 0]
            ch2 = os.path.join(work, "c%d" % i, "filtered", "ch")
            wl.run_capi(cfg, ops2, ch2)
            if canon_files(files) != canon_files(wl.dump_files(ch2)):
                res.violation("c-rejected-call-had-an-effect", "files differ from the C history without the rejected calls",
                              hist, "equal files", "different files")

    # ---- C. the index helpers, function level
    lib = wl.capi()
    ncase = 4000 if res.tier == "quick" else 100000
    cases, raw = [], []
    for _ in range(ncase):
        nb = rng.choice([1, 1, 2, 3, 4])
        G, D = [], []
        g, off = rng.randrange(0, 50), 0
        for b in range(nb):
            ln = rng.randrange(1, 12)
            G.append(g)
            D.append(off)
            off += ln
            g += ln + rng.choice([0, 0, 1, 3, 10])
        vlen = off
        if rng.random() < 0.3:
            k = rng.randrange(nb)
            if rng.random() < 0.5:
                D[k] = max(0, D[k] + rng.choice([-3, -1, 1, 5, 20]))
            else:
                G[k] = max(0, G[k] + rng.choice([-20, -3, -1, 1]))
            D[0] = 0
        gi = rng.choice([0, G[0], max(0, G[0] - 3), G[0] + rng.choice([0, 1, 2])])
        sw = rng.randrange(0, vlen)
        chunk, cont = rng.choice([(1, 0), (1, 1), (0, 1)])
        # next is what get_global_sample gives (as in the C caller); left/cap arbitrary but consistent
        nextv = lib.shim_global_sample(sw, (ctypes.c_uint64 * nb)(*G), (ctypes.c_uint64 * nb)(*D), nb)
        cap = rng.randrange(1, 40)
        left = rng.randrange(1, cap + 1)
        fe = rng.choice([0, 1])
        start = rng.choice([1000, 150000000000])
        gd = [x for p in zip(G, D) for x in p]
        cases.append([2, start, gi, chunk, cont, sw, left, cap, vlen, nextv, fe, nb] + gd)
        raw.append((start, gi, chunk, cont, sw, left, cap, G, D, nb, vlen, nextv, fe))
    mo = common.run_model("writer", cases)
    devnull = os.open(os.devnull, os.O_WRONLY)
    saved = os.dup(2)
    os.dup2(devnull, 2)           # the C helper prints a message for every rejected input
    try:
        for (start, gi, chunk, cont, sw, left, cap, G, D, nb, vlen, nextv, fe), m in zip(raw, mo):
            rows = (ctypes.c_uint64 * (2 * nb + 2))()
            stw = ctypes.c_uint64()
            nr = lib.shim_index(start, gi, chunk, cont, sw, left, cap, (ctypes.c_uint64 * nb)(*G), (ctypes.c_uint64 * nb)(*D),
                                nb, vlen, nextv, fe, rows, ctypes.byref(stw))
            impl = [-1] if nr < 0 else [stw.value, nr] + [rows[i] for i in range(2 * nr)]
            res.case(("index", start, gi, chunk, cont, sw, left, cap, tuple(G), tuple(D), vlen, fe), nontrivial=False)
            if impl != m and ndis < 8:
                res.disagree("Coq transcription vs compiled digital_rf_create_rf_data_index",
                             dict(start=start, gi=gi, chunk=chunk, cont=cont, sw=sw, left=left, cap=cap, G=G, D=D, vlen=vlen, next=nextv, fe=fe), m, impl)
                ndis += 1
    finally:
        os.dup2(saved, 2)
        os.close(devnull)
    res.count("index_helper_cases", ncase)
    res.extra["rejected_calls_exercised"] = nrej[0]
    res.assumptions += ["the private extension module (which trusts its Python caller) is outside the claim, as the property says"]
    res.trusted += ["harness/cdriver/capi_shim.c", "Model/IndexCalc.v, WriterCore.v, PyWriter.v are hand models tied by this correspondence"]


def replay(res, rp):
    return wl.replay(res, rp)
