"""C06 -- self-describing data files and recoverable channel properties."""
import glob
import os
import shutil
import time

import numpy as np

import attrlib
import common
import writerlib as wl

LEVEL = "proof"
PROP_ATTRS = ["H5Tget_class", "H5Tget_size", "H5Tget_order", "H5Tget_precision", "H5Tget_offset",
              "subdir_cadence_secs", "file_cadence_millisecs", "sample_rate_numerator", "sample_rate_denominator",
              "is_complex", "num_subchannels", "is_continuous", "epoch", "digital_rf_time_description",
              "digital_rf_version"]


def regenerate(res):
    attrlib.regenerate(res)


def norm(v):
    if isinstance(v, bytes):
        return v.decode()
    if isinstance(v, np.ndarray):
        return [norm(x) for x in v.tolist()] if v.ndim else norm(v.item())
    if hasattr(v, "item"):
        return v.item()
    return v


def file_invariants(cfg, f):
    """the per-file conjuncts of the property; returns (signature, message) or None"""
    rows = f["rows"]
    nd = f["data"].shape[0]
    lo, hi = wl.file_start(cfg, f["ms"]), wl.file_start(cfg, f["ms"] + cfg.fc)
    if len(rows) < 1:
        return "index-empty", "block index has no row"
    if rows[0][1] != 0:
        return "first-offset-nonzero", "first data offset is %d" % rows[0][1]
    for (g1, o1), (g2, o2) in zip(rows, rows[1:]):
        if not (g2 > g1 and o2 > o1):
            return "index-not-increasing", "rows %r %r" % ((g1, o1), (g2, o2))
        if g2 - g1 < o2 - o1:
            return "blocks-overlap", "rows %r %r" % ((g1, o1), (g2, o2))
    for (g, o) in rows:
        if o >= nd:
            return "offset-beyond-data", "row %r with %d rows of data" % ((g, o), nd)
    if rows[0][0] < lo:
        return "sample-before-window", "first index %d < window start %d" % (rows[0][0], lo)
    last = rows[-1][0] + (nd - rows[-1][1]) - 1
    if last >= hi:
        return "sample-after-window", "last index %d >= window end %d" % (last, hi)
    if nd > hi - lo:
        return "more-samples-than-window", "%d samples in a window of %d" % (nd, hi - lo)
    return None


def occupied_period_case(mode, verbose=False):
    """an earlier run left a finalized file in period 5; a new session (its own UUID) records periods 2 and 3, runs
    into period 5 (refused: finalized files are never replaced), and goes on with periods 7 and 8 on the same
    writer.  The files of the session carry its UUID, one start timestamp, and sequence numbers that increase with file
    time.  -> problem or None"""
    import digital_rf
    work = common.scratch_dir("c06occ-")
    chdir = os.path.join(work, "top", "ch")
    os.makedirs(chdir)
    cont, comp = mode
    n, pf = 100, 100
    k0 = 1500000000 * n

    def writer(start, uuid):
        return digital_rf.DigitalRFWriter(chdir, np.dtype("i2"), 3600, 1000, k0 + start, n, 1, uuid_str=uuid, compression_level=comp,
                                          is_complex=False, is_continuous=cont, num_subchannels=1, marching_periods=False)
    w = writer(5 * pf, "earlier-run")
    w.rf_write(np.arange(40, dtype="i2"))
    w.close()
    w = writer(2 * pf, "the-session")
    refused = []
    for off, ln in ((0, 150), (3 * pf + 10, 20), (3 * pf + 30, 20), (5 * pf, 130), (6 * pf + 60, 30)):
        try:
            w.rf_write(np.arange(ln, dtype="i2"), off)
        except Exception as e:  # noqa
            refused.append((off, type(e).__name__))
    w.close()
    # a further session that differs from the channel in ONE property the files embed (real samples for complex, another
    # subchannel count, the other byte order): refused, or its files would contradict drf_properties.h5
    import h5py
    with h5py.File(os.path.join(chdir, "drf_properties.h5"), "r") as h:
        props = {k: norm(v) for k, v in h.attrs.items()}
    for what, kw in (("is_complex", dict(is_complex=True)), ("num_subchannels", dict(num_subchannels=2)), ("byte order", dict(dt=">i2"))):
        try:
            w3 = digital_rf.DigitalRFWriter(chdir, np.dtype(kw.get("dt", "i2")), 3600, 1000, k0 + 12 * pf, n, 1, uuid_str="differs-in-" + what,
                                            compression_level=comp, is_complex=kw.get("is_complex", False), is_continuous=cont,
                                            num_subchannels=kw.get("num_subchannels", 1), marching_periods=False)
        except Exception:  # noqa
            continue
        try:
            shape = (10, 2) if (kw.get("is_complex") or kw.get("num_subchannels")) else (10,)
            w3.rf_write(np.zeros(shape, dtype=kw.get("dt", "i2")))
            w3.close()
        except Exception:  # noqa
            pass
        for f in wl.dump_files(chdir):
            if norm(f["attrs"].get("uuid_str")) == "differs-in-" + what:
                bad = {k: (norm(f["attrs"].get(k)), props.get(k)) for k in PROP_ATTRS if norm(f["attrs"].get(k)) != props.get(k)}
                if bad:
                    return {"session_differing_in": what, "accepted": True, "file": f["name"], "attribute (file, properties file)": bad}
    files = [f for f in wl.dump_files(chdir) if not f["tmp"] and norm(f["attrs"].get("uuid_str")) == "the-session"]
    seq = [(f["name"], norm(f["attrs"].get("sequence_num")), norm(f["attrs"].get("init_utc_timestamp"))) for f in files]
    if verbose:
        print("refused calls:", refused)
        print("files of the session (name, sequence_num, init_utc_timestamp):", seq)
    if not refused or len(files) < 3:
        return None          # the scenario did not come about (nothing to judge)
    for (n1, s1, t1), (n2, s2, t2) in zip(seq, seq[1:]):
        if not (s2 > s1) or t1 != t2:
            return {"files_of_the_session": seq, "refused_calls": refused}
    return None


def occupied_period_leg(res):
    for mode in ((False, 0), (True, 0), (True, 1)):
        res.count("session-running-into-an-occupied-period")
        prob = occupied_period_case(mode)
        if prob and prob.get("accepted"):
            res.violation("attr-differs-from-properties", "a later session differing from the channel in one embedded property was accepted: "
                          "its files contradict drf_properties.h5", {"occupied_period": list(mode)}, "refused", prob)
            return
        if prob:
            res.violation("sequence-not-increasing", "sequence_num does not increase with file time within a session that was refused "
                          "one file period and went on", {"occupied_period": list(mode)}, "increasing, one init timestamp", prob)
            return


def run(res):
    common.use_impl()
    import h5py
    import digital_rf
    nh = 120 if res.tier == "quick" else 2500
    res.rule = ("random write histories (rf_write and rf_write_blocks with block starts/ends placed on and around "
                "file edges, all modes and element types); every finalized file is opened raw with h5py and the "
                "index/attribute conjuncts of the property are evaluated; then drf_properties.h5 is deleted and "
                "regenerated from EVERY data file in turn and the channel is read back; non-trivial = distinct "
                "(config, history)")
    state = {"regen": 0, "attrs": 0, "t0": int(time.time())}

    def oracle(cfg, ops, reports, files, chdir, mrep, mfiles, hist):
        sess_uuid = None
        seqs = []
        for f in files:
            if f["tmp"]:
                res.violation("tmp-file-after-close", "a tmp. file remains after close", hist, "none", f["name"])
                continue
            bad = file_invariants(cfg, f)
            if bad:
                res.violation(bad[0], "finalized file violates the index invariants: " + bad[1],
                              dict(hist, file=f["name"]), "invariant", bad[1])
            a = f["attrs"]
            want = {"subdir_cadence_secs": cfg.sc, "file_cadence_millisecs": cfg.fc, "sample_rate_numerator": cfg.n,
                    "sample_rate_denominator": cfg.d, "is_complex": int(cfg.is_complex), "num_subchannels": cfg.nsub,
                    "is_continuous": int(cfg.cont), "H5Tget_size": cfg.size,
                    "H5Tget_order": 1 if cfg.order == ">" else 0, "H5Tget_class": 1 if cfg.kind == "f" else 0,
                    "epoch": "1970-01-01T00:00:00Z", "uuid_str": "verif-12345678-90ab-cdef-1234-567890abcdef-session-A"}
            for k, v in want.items():
                if norm(a.get(k)) != v:
                    res.violation("attr-mismatch:" + k, "embedded attribute %s does not repeat the channel property" % k,
                                  dict(hist, file=f["name"]), v, norm(a.get(k)))
            seqs.append((f["ms"], norm(a.get("sequence_num")), norm(a.get("init_utc_timestamp"))))
            ts = norm(a.get("init_utc_timestamp"))
            if ts not in attrlib.init_timestamp_candidates(cfg):
                res.violation("init-timestamp-wrong", "init_utc_timestamp is not the whole second of the session's start index",
                              dict(hist, file=f["name"]), sorted(attrlib.init_timestamp_candidates(cfg)), ts)
        # the regenerated attribute tables (Gen/AttrTables.v) against the real files: names, types, values
        fin = [f for f in files if not f["tmp"]]
        if fin and state["attrs"] < (40 if res.tier == "quick" else 600):
            state["attrs"] += 1
            t1 = int(time.time()) + 1
            cases, meta = [], []
            for f in fin:
                with h5py.File(f["path"], "r") as h:
                    act = attrlib.actual(h["rf_data"])
                ct = act.get("computer_time", (1, 0))[1]
                cases.append([1] + attrlib.env(cfg, seq=norm(f["attrs"].get("sequence_num")), init_ts=act.get("init_utc_timestamp", (1, 0))[1], clock=ct))
                meta.append((f, act, ct))
            pfile = os.path.join(chdir, "drf_properties.h5")
            if os.path.exists(pfile):
                with h5py.File(pfile, "r") as h:
                    pact = attrlib.actual(h)
                cases.append([2] + attrlib.env(cfg))
                meta.append((None, pact, 0))
            for (f, act, ct), out in zip(meta, common.run_model("attrs", cases)):
                mod = attrlib.decode(out)
                res.count("attribute_sets_compared")
                if mod != act:
                    diff = sorted(k for k in set(mod) | set(act) if mod.get(k) != act.get(k))
                    res.disagree("attribute table model (regenerated from the C source) vs attributes of a real %s" % ("data file" if f else "drf_properties.h5"),
                                 dict(hist, file=f["name"] if f else "drf_properties.h5"), {k: mod.get(k) for k in diff}, {k: act.get(k) for k in diff})
                    break
                if f is not None and not (state["t0"] - 1 <= ct <= t1):
                    res.violation("computer-time-not-wall-clock", "computer_time is not the wall clock at file creation",
                                  dict(hist, file=f["name"]), [state["t0"], t1], ct)
        # sequence numbers increase with file time (single session histories), same init timestamp
        for (m1, s1, t1), (m2, s2, t2) in zip(seqs, seqs[1:]):
            if not (s2 > s1) or t1 != t2:
                res.violation("sequence-not-increasing", "sequence_num does not increase with file time / init timestamp differs",
                              hist, "increasing, equal init", [(m1, s1, t1), (m2, s2, t2)])
        # embedded attributes == channel properties file
        pf = os.path.join(chdir, "drf_properties.h5")
        if files and os.path.exists(pf):
            with h5py.File(pf, "r") as h:
                props = {k: norm(v) for k, v in h.attrs.items()}
            for f in files:
                for k in PROP_ATTRS:
                    if norm(f["attrs"].get(k)) != props.get(k):
                        res.violation("attr-differs-from-properties:" + k, "data file attribute differs from drf_properties.h5",
                                      dict(hist, file=f["name"]), props.get(k), norm(f["attrs"].get(k)))
            # regeneration from every file
            if state["regen"] < (25 if res.tier == "quick" else 300) and not any(f["tmp"] for f in files):
                state["regen"] += 1
                top = os.path.dirname(chdir)
                try:
                    r0 = digital_rf.DigitalRFReader(top)
                    b0 = r0.get_bounds("ch")
                    ref = r0.read(b0[0], b0[1], "ch") if b0[0] is not None else {}
                    ref = {int(k): np.array(v) for k, v in ref.items()}
                except Exception as e:  # noqa
                    res.notes.append("reference read failed: %r" % (e,))
                    return
                side = os.path.join(os.path.dirname(top), "side_" + os.path.basename(top))
                for f in files:
                    # make this file the only candidate by regenerating in a copy holding just that file
                    shutil.rmtree(side, ignore_errors=True)
                    os.makedirs(os.path.join(side, "ch", f["subdir"]))
                    shutil.copy(f["path"], os.path.join(side, "ch", f["subdir"], f["name"]))
                    digital_rf.recreate_properties_file(os.path.join(side, "ch"))
                    with h5py.File(os.path.join(side, "ch", "drf_properties.h5"), "r") as h:
                        rec = {k: norm(v) for k, v in h.attrs.items()}
                    if rec != props:
                        res.violation("regenerated-properties-differ", "properties regenerated from a data file differ from the original",
                                      dict(hist, file=f["name"]), props, rec)
                        break
                # regenerated channel reads back identically
                os.remove(pf)
                digital_rf.recreate_properties_file(chdir)
                r1 = digital_rf.DigitalRFReader(top)
                b1 = r1.get_bounds("ch")
                got = r1.read(b1[0], b1[1], "ch") if b1[0] is not None else {}
                got = {int(k): np.array(v) for k, v in got.items()}
                same = (b0 == b1 and sorted(ref) == sorted(got) and
                        all(wl.arrays_equal(cfg, ref[k], got[k]) for k in ref))
                if not same:
                    res.violation("regenerated-channel-reads-differently", "channel with regenerated properties reads back differently",
                                  hist, [b0, sorted(ref)], [b1, sorted(got)])
                shutil.rmtree(side, ignore_errors=True)
                res.count("regenerations")
        res.count("files_inspected", len(files))

    wl.run_histories(res, nh, oracle, invalid_rate=0.05)
    occupied_period_leg(res)

    # a later session must not be able to store attributes that disagree with the channel properties:
    # try restarts with "almost the same" parameters; whenever one is accepted, its files are inspected
    rng = res.rng
    work = common.scratch_dir()
    for i in range(10 if res.tier == "quick" else 100):
        cfg = wl.gen_cfg(rng)
        chdir = os.path.join(work, "s%d" % i, "ch")
        ops = [("w", 0, cfg.per_file() + 1, 1), ("c",)]
        wl.run_impl(cfg, ops, chdir)
        far = cfg.start + 50 * cfg.per_file()
        alts = {"unreduced-fraction": dict(n=cfg.n * 2, d=cfg.d * 2, start=far),
                "unreduced-fraction-3": dict(n=cfg.n * 3, d=cfg.d * 3, start=far),
                "same": dict(start=far)}
        for name, ch in alts.items():
            c2 = wl.Cfg(cfg.n, cfg.d, cfg.sc, cfg.fc, cfg.start, cfg.cont, cfg.comp, cfg.cksum, cfg.kind, cfg.size,
                        cfg.order, cfg.is_complex, cfg.nsub)
            for k, v in ch.items():
                setattr(c2, k, v)
            if c2.n >= 2 ** 32:
                continue
            hist = {"cfg": cfg.as_dict(), "second_session": c2.as_dict(), "kind": name}
            res.case(("session-attrs", cfg.key(), name))
            res.count("session-restart:" + name)
            try:
                wl.run_impl(c2, [("w", 0, 3, 100), ("c",)], chdir)
            except Exception:  # noqa  (refused: fine)
                continue
            files = wl.dump_files(chdir)
            with h5py.File(os.path.join(chdir, "drf_properties.h5"), "r") as h:
                props = {k: norm(v) for k, v in h.attrs.items()}
            for f in files:
                for k in PROP_ATTRS:
                    if norm(f["attrs"].get(k)) != props.get(k):
                        res.violation("attr-differs-from-properties:" + k, "a data file's embedded attribute differs from drf_properties.h5 (accepted later session)",
                                      dict(hist, file=f["name"]), props.get(k), norm(f["attrs"].get(k)))
                        break
    # ---- a file a killed recorder left under its tmp. name must never become a finalized file: a restarted
    #      writer whose first write falls into that period (refused), then closed (protocol harness of C02)
    import protolib as P
    sp = P.spec([[0, 150], [150, 130]], name="gapped-100-per-file-150+130")
    b = P.baseline(res, sp)
    if b.ops is not None:
        for i, tmp_rel in P.restart_points(res, b, 2):
            P.restart_after_kill(res, sp, i, tmp_rel, False, concurrent=False)
            res.count("restart-over-a-leftover-tmp-file")
        shutil.rmtree(b.work, True)
    res.assumptions += ["h5py reports rf_data, rf_data_index and attributes faithfully",
                        "multi-session sequence numbers are covered by C11"]
    res.trusted += [T3_TRUST, "Model/WriterCore.v + Model/IndexCalc.v are hand models, tied by this correspondence"]


T3_TRUST = ("translate/attrs2gallina.py (T3): symbolic reading of the straight-line HDF5 attribute code of "
            "digital_rf_write_metadata / digital_rf_handle_metadata from clang's JSON AST and of recreate_properties_file from "
            "Python's ast; fail-closed; its output is also compared with the attributes of real files on every run")


def replay(res, rp):
    if isinstance(rp.get("input"), dict) and "occupied_period" in rp["input"]:
        common.use_impl()
        m = rp["input"]["occupied_period"]
        print("100 Hz, one file per second, continuous=%s compression=%s" % (m[0], m[1]))
        prob = occupied_period_case((bool(m[0]), int(m[1])), verbose=True)
        print("replay verdict:", "STILL VIOLATING" if prob else "no longer violating")
        return 1 if prob else 0
    if (rp.get("input") or {}).get("label") == "restart-after-kill":
        import protolib as P
        common.use_impl()
        return P.replay_restart(res, rp)
    return wl.replay(res, rp)
