"""Shared machinery for the writer-side properties (C01, C05, C06, C07, C11, C19):
history generator, execution on the real DigitalRFWriter, execution on the extracted Coq model
(family "writer"), canonical dump of the files on disk, and the Spec (`abs`) of a history."""
import glob
import os
import re

import numpy as np

import common

GOLD = 0x9E3779B97F4A7C15


class Cfg:
    def __init__(self, n, d, sc, fc, start, cont, comp=0, cksum=False, kind="i", size=4, order="<",
                 is_complex=False, nsub=1):
        self.n, self.d, self.sc, self.fc, self.start = n, d, sc, fc, start
        self.cont, self.comp, self.cksum = cont, comp, cksum
        self.kind, self.size, self.order, self.is_complex, self.nsub = kind, size, order, is_complex, nsub

    @property
    def chunk(self):
        return (not self.cont) or self.comp != 0 or self.cksum

    @property
    def realdtype(self):
        return np.dtype("%s%s%d" % (self.order, self.kind, self.size))

    def key(self):
        return (self.n, self.d, self.sc, self.fc, self.start, self.cont, self.comp, self.cksum, self.kind,
                self.size, self.order, self.is_complex, self.nsub)

    def as_dict(self):
        return dict(n=self.n, d=self.d, sc=self.sc, fc=self.fc, start=self.start, cont=self.cont, comp=self.comp,
                    cksum=self.cksum, dtype=self.realdtype.str, is_complex=self.is_complex, nsub=self.nsub)

    def per_file(self):
        return self.fc * self.n // (1000 * self.d)


def cdiv(a, b):
    return -(-a // b)


def F_of(cfg, K):
    return cfg.fc * ((K * cfg.d * 1000 // cfg.n) // cfg.fc)


def file_start(cfg, f):
    return cdiv(f * cfg.n, 1000 * cfg.d)


def missing_value(cfg):
    if cfg.kind == "f":
        return float("nan")
    if cfg.kind == "i":
        return -(2 ** (8 * cfg.size - 1))
    return 0


def enc(cfg, tags):
    """tag list -> array of the writer's dtype, shape (len, nsub) (complex: r/i components);
    values spread over the full range of the element type; tag -1 -> the documented missing value"""
    tags = list(tags)
    ncomp = 2 if cfg.is_complex else 1
    out = np.zeros((len(tags), cfg.nsub, ncomp), dtype=np.float64 if cfg.kind == "f" else object)
    bits = 8 * cfg.size
    for r, t in enumerate(tags):
        for ch in range(cfg.nsub):
            for cp in range(ncomp):
                if t < 0:
                    v = missing_value(cfg)
                elif cfg.kind == "f":
                    v = float(t) + 0.25 * ch + 0.125 * cp
                    if t % 17 == 3:
                        v = -v * 1e30 if cfg.size == 8 else -v * 1e20
                else:
                    x = ((t * 4 + ch * 2 + cp + 1) * GOLD) % (2 ** bits)
                    if t % 13 == 5:
                        x = 2 ** bits - 1 if cp == 0 else 2 ** (bits - 1)      # extremes
                    v = x - 2 ** bits if (cfg.kind == "i" and x >= 2 ** (bits - 1)) else x
                out[r, ch, cp] = v
    rd = cfg.realdtype
    if cfg.is_complex:
        st = np.dtype([("r", rd), ("i", rd)])
        arr = np.zeros((len(tags), cfg.nsub), dtype=st)
        arr["r"] = out[:, :, 0].astype(rd) if cfg.kind == "f" else np.array(out[:, :, 0].tolist(), dtype=rd).reshape(len(tags), cfg.nsub)
        arr["i"] = out[:, :, 1].astype(rd) if cfg.kind == "f" else np.array(out[:, :, 1].tolist(), dtype=rd).reshape(len(tags), cfg.nsub)
        return arr
    if cfg.kind == "f":
        return out[:, :, 0].astype(rd)
    return np.array(out[:, :, 0].tolist(), dtype=rd).reshape(len(tags), cfg.nsub)


def arrays_equal(cfg, a, b):
    """bit-for-bit on the struct/real view, NaN == NaN"""
    a = np.asarray(a)
    b = np.asarray(b)
    if a.shape[0] != b.shape[0]:
        return False

    def comps(x):
        if x.dtype.names:
            return [np.asarray(x[nm]) for nm in x.dtype.names]
        if np.iscomplexobj(x):
            return [x.real, x.imag]
        return [x]
    ca, cb = comps(a), comps(b)
    if len(ca) != len(cb):
        return False
    for x, y in zip(ca, cb):
        x = x.reshape(x.shape[0], -1).astype(x.dtype.newbyteorder("="))
        y = y.reshape(y.shape[0], -1).astype(y.dtype.newbyteorder("="))
        if x.shape != y.shape:
            return False
        if cfg.kind == "f":
            if not np.array_equal(x, y, equal_nan=True):
                return False
        elif not np.array_equal(x, y):
            return False
    return True


# ------------------------------------------------------------------------------- histories

def gen_cfg(rng, small=True, modes=None):
    for _ in range(200):
        n, d = rng.choice([(1, 1), (100, 1), (200, 3), (10 ** 6, 3), (10 ** 8, 7), (25 * 10 ** 6, 3), (48000, 1),
                           (1000, 7), (2 ** 31 - 1, 10 ** 9), (10, 1), (1000, 1), (15, 1), (3, 1), (25, 1), (30000, 1), (40000, 3),
                           (50000, 1),
                           # rates not in lowest terms are stored and used as given
                           (200, 2), (10 ** 6, 1000), (3000, 30)])
        sc, fc = rng.choice([(1, 20), (2, 400), (3600, 1000), (1, 1), (10, 2500), (1, 1000), (3600, 60000), (1, 250),
                             (2, 100), (1, 5), (3600, 1), (3600, 2)])
        pf = fc * n // (1000 * d)
        # at least one sample per file (exactly one, and 1.x, included)
        if not (1 <= pf <= (50 if small else 4000)) or fc * n < 1000 * d:
            continue
        t = rng.choice([315532800, 951782400, 1500000000, 1499999999, 1709164800, 2147483648, 4102444799,
                        rng.randrange(315532800, 4102444800)]) * 1000
        if n >= 48000 and d == 1 and rng.random() < 0.5:
            # a start late enough (years 8300 .. 9600) that every sample index exceeds 2**53: an index
            # computed through float64 anywhere is then off by one or two
            t = rng.choice([240000000000, 200000000000 + rng.randrange(0, 4 * 10 ** 10)]) * 1000 + rng.choice([0, 1, 999])
        tb = rng.choice([(t // fc) * fc, (t // (sc * 1000)) * sc * 1000, t + rng.randrange(0, 1000)])
        start = cdiv(tb * n, 1000 * d) + rng.choice([-2, -1, 0, 0, 1, 2, pf // 2])
        if start < 0:
            continue
        mode = rng.choice(modes or ["gapped", "gapped", "cont", "cont", "cont+comp", "cont+cksum", "gapped+comp"])
        cont = mode.startswith("cont")
        comp = rng.randrange(1, 10) if "comp" in mode else 0
        cksum = "cksum" in mode
        kind, size = rng.choice([("i", 1), ("i", 2), ("i", 4), ("i", 8), ("u", 1), ("u", 2), ("u", 4), ("u", 8),
                                 ("f", 4), ("f", 8)])
        order = rng.choice(["<", "<", ">"])
        if size == 1:
            order = "<"        # numpy normalises 1-byte types to '|'
        return Cfg(n, d, sc, fc, start, cont, comp, cksum, kind, size, order,
                   is_complex=rng.random() < 0.4, nsub=rng.choice([1, 1, 2, 3]))
    raise RuntimeError("no config")


def gen_ops(rng, cfg, nops, invalid_rate=0.0, blocks=True, close=True, style=None, far=False):
    """ops: ("w", ns|None, len, tag0) | ("b", len, tag0, G, D) | ("c",)
    keeps a shadow cursor so that most calls are valid; tags are consecutive and never reused"""
    pf = cfg.per_file()
    ops = []
    cur = 0
    tag = 1

    def to_edge(c):
        K = cfg.start + c
        F = F_of(cfg, K)
        return file_start(cfg, F + cfg.fc) - K

    if style is None:
        style = rng.choice(["edges", "edges", "dense", "gapstream"])
    # one jump of more than 2**32 samples per history at most (cursor arithmetic beyond 32 bits).  Only on
    # request: DigitalRFReader enumerates every candidate file name of a requested range, so checks that
    # read the whole channel back cannot afford such a jump; the writer-side checks (C05, C19) can
    far_ok = [far]

    def far(gap):
        if far_ok[0] and rng.random() < 0.1:
            far_ok[0] = False
            return 2 ** 32 + rng.choice([0, 1, 7, pf, gap])
        return gap
    if style == "dense":
        nops = nops + rng.randrange(2, 6)
    # "gapstream": a few small writes / block calls with gaps INSIDE the open file, then the recorder streams on
    # without naming an index (next_sample=None: the writer's own cursor decides where the samples go), up to and
    # across the file edge
    stream_from = rng.choice([2, 3]) if style == "gapstream" else None
    if style == "gapstream":
        nops = max(nops, stream_from + 2)
    for opi in range(nops):
        streaming = stream_from is not None and opi >= stream_from
        if streaming:
            gapc = [0]
            lens = [max(1, to_edge(cur)), max(1, to_edge(cur) - 1), to_edge(cur) + 1, 1, pf]
        elif style in ("dense", "gapstream"):
            # many small writes and multi-block calls inside one file
            gapc = [0, 0, 0, 1, 1, 2, 3]
            lens = [1, 1, 2, 2, 3, 4]
        else:
            gapc = [0, 0, 0, 1, 2, to_edge(cur) - 1, to_edge(cur), to_edge(cur) + 1, pf, 3 * pf + 1]
            lens = [1, 1, 2, pf - 1, pf, pf + 1, 2 * pf + 1, to_edge(cur), max(1, to_edge(cur) - 1), to_edge(cur) + 1]
        bad = rng.random() < invalid_rate and not streaming
        if blocks and not streaming and rng.random() < (0.6 if style == "gapstream" else 0.4):
            nb = rng.choice([1, 2, 2, 3, 4])
            g = cur + far(max(0, rng.choice(gapc)))
            G, D = [], []
            off = 0
            for b in range(nb):
                ln = max(1, rng.choice(lens))
                G.append(g)
                D.append(off)
                off += ln
                e = to_edge(g + ln)
                if style in ("dense", "gapstream"):
                    g = g + ln + rng.choice([0, 1, 1, 2, 3])
                else:
                    g = g + ln + max(0, rng.choice([0, 1, 1, 2, e - 1, e, e + 1, pf]))
            total = off
            if bad:
                kind = rng.choice(["past", "d0", "len", "dorder", "gorder", "dbeyond", "overlap", "overlap-late", "overlap-late",
                                   "negative"])
                if kind == "negative":
                    # a signed index array whose first entry is negative (it must not wrap to 2**64 - x)
                    G = [-rng.choice([1, 10, cur + 5])] + G[1:]
                elif kind == "past" and cur > 0:
                    G = [x - (G[0] - cur) - rng.choice([1, cur]) for x in G]
                    G = [max(0, x) for x in G]
                elif kind == "d0":
                    D = [x + 1 for x in D]
                elif kind == "len":
                    D = D + [total - 1] if rng.random() < 0.5 else D[:-1] or [0, 0]
                elif kind == "dorder" and nb > 1:
                    D[1] = D[0]
                elif kind == "gorder" and nb > 1:
                    G[1] = max(0, G[0] - rng.choice([0, 1]))
                elif kind == "dbeyond":
                    D = D[:-1] + [total + rng.choice([0, 1])] if nb > 1 else [0, total]
                    G = G if len(G) == len(D) else G + [G[-1] + total + 5]
                elif kind == "overlap" and nb > 1:
                    G[1] = G[0] + (D[1] - D[0]) - 1
                elif kind == "overlap-late" and nb > 2:
                    # a large early gap hides a later block that starts before its predecessor ends
                    G[1] = G[0] + (D[1] - D[0]) + 50 + 3 * pf
                    for q in range(2, nb):
                        G[q] = G[q - 1] + (D[q] - D[q - 1]) + 1
                    q = rng.randrange(2, nb)
                    if D[q] - D[q - 1] >= 2:
                        G[q] = G[q - 1] + (D[q] - D[q - 1]) - 1
                        for z in range(q + 1, nb):
                            G[z] = G[z - 1] + (D[z] - D[z - 1]) + 1
            ops.append(("b", total, tag, G, D))
            ok = (len(G) == len(D) and G[0] >= cur and D[0] == 0 and all(b > a for a, b in zip(D, D[1:]))
                  and all(b > a for a, b in zip(G, G[1:])) and D[-1] < total
                  and all((d2 - d1) <= (g2 - g1) for d1, d2, g1, g2 in zip(D, D[1:], G, G[1:])))
            if ok:
                cur = G[-1] + (total - D[-1])
            tag += total
        else:
            ln = max(1, rng.choice(lens))
            gap = far(max(0, rng.choice(gapc)))
            if rng.random() < 0.08:
                # an empty array is accepted and changes nothing, whatever index it names (also one ahead of
                # the cursor, in the file that is open)
                ln = 0
                if rng.random() < 0.6:
                    gap = rng.choice([1, 2, 3, max(1, to_edge(cur) - 1)])
            ns = cur + gap
            if bad and cur > 0:
                ns = cur - rng.choice([1, 1, 2, cur])
                ns = max(0, ns)
            elif bad and rng.random() < 0.5:
                ns = -rng.choice([1, 5])
            use_none = (gap == 0 and not bad and (streaming or rng.random() < 0.5))
            ops.append(("w", None if use_none else ns, ln, tag))
            if ns >= cur and ln > 0:
                cur = ns + ln
            tag += ln
    if close:
        ops.append(("c",))
    return ops


def encode_case(cfg, ops, gaprule):
    out = [1, cfg.start, cfg.n, cfg.d, cfg.sc, cfg.fc, int(cfg.cont), int(cfg.chunk), gaprule]
    for op in ops:
        if op[0] == "w":
            out += [1, 0 if op[1] is None else 1, 0 if op[1] is None else op[1], op[2], op[3]]
        elif op[0] == "b":
            out += [2, op[1], op[2], len(op[3])] + list(op[3]) + [len(op[4])] + list(op[4])
        elif op[0] == "c":
            out += [3]
        elif op[0] == "capi":
            out += [4, op[1], op[2], len(op[3])] + [x for gd in zip(op[3], op[4]) for x in gd]
        elif op[0] == "session":
            out += [5, op[1]]
    return out


def parse_model(out, nops):
    reports = [out[i * 7:(i + 1) * 7] for i in range(nops)]
    rest = out[nops * 7:]
    if not rest or rest[0] != -7:
        raise common.Broken("model output malformed: %r" % (out[:40],))
    nf = rest[1]
    p = 2
    files = []
    for _ in range(nf):
        ms, tmp, seq, cap, nr = rest[p:p + 5]
        p += 5
        rows = [(rest[p + 2 * i], rest[p + 2 * i + 1]) for i in range(nr)]
        p += 2 * nr
        nd = rest[p]
        p += 1
        data = rest[p:p + nd]
        p += nd
        files.append(dict(ms=ms, tmp=bool(tmp), seq=seq, cap=cap, rows=rows, data=data))
    return reports, files


# ------------------------------------------------------------------------------- implementation

ERRCLS = {ValueError: 1, TypeError: 1, RuntimeError: 2, IOError: 3, OSError: 3}   # 1 = refused by the front end


def errclass(e):
    for k, v in ERRCLS.items():
        if type(e) is k:
            return v
    for k, v in ERRCLS.items():
        if isinstance(e, k):
            return v
    return 9


_DT = [0]


def make_writer(cfg, chdir, uuid="verif-12345678-90ab-cdef-1234-567890abcdef-session-A", path=None):
    """path: the str object naming chdir that the caller holds (a later session of the same recorder passes the
    very same object again); default: a fresh spelling of chdir"""
    import digital_rf
    # the element type in the forms np.dtype() accepts: a dtype object, its string, its name / scalar type (native order)
    _DT[0] += 1
    dt = cfg.realdtype
    k = _DT[0] % 4
    if k == 1:
        dt = dt.str
    elif k == 2 and dt.isnative:
        dt = dt.name
    elif k == 3 and dt.isnative:
        dt = dt.type
    start = cfg.start
    if _DT[0] % 3 == 1:
        start = np.uint64(start)          # indices are often numpy scalars in callers' code (exact for any uint64)
    elif _DT[0] % 3 == 2 and start < 2 ** 63:
        start = np.int64(start)
    # the flags are documented as bool; what callers pass is whatever is true or false in their code (a count, a numpy
    # scalar read from a configuration): every truthy value means True
    kf = _DT[0] % 5
    cont = cfg.cont if kf < 2 else ((2, np.int64(5), -1)[kf - 2] if cfg.cont else (0, np.int64(0), 0.0)[kf - 2])
    cplx = cfg.is_complex if kf != 3 else (np.int64(3) if cfg.is_complex else 0)
    return digital_rf.DigitalRFWriter(path if path is not None else common.path_form(chdir), dt, cfg.sc, cfg.fc, start, cfg.n, cfg.d, uuid,
                                      cfg.comp, cfg.cksum, cplx, cfg.nsub, cont, False)


def index_form(vals, which):
    """the block index arrays may be given as unsigned or signed integer arrays, lists or (exactly
    representable) floats; all forms must behave alike, and negative entries must be refused"""
    vals = list(vals)
    neg = any(v < 0 for v in vals)
    if not neg and which % 5 == 4 and vals:
        # a non-contiguous view of an array that already is uint64 (every other element of a start/stop table): the
        # neighbouring words are other numbers
        wide = np.empty(2 * len(vals), dtype=np.uint64)
        wide[0::2] = vals
        wide[1::2] = [v + 7 for v in vals]
        return wide[0::2]
    which = which % 4
    if neg or which == 1:
        return np.array(vals, dtype=np.int64) if which != 2 else vals
    if which == 2:
        return vals
    if which == 3 and all(v < 2 ** 52 for v in vals):
        return np.array(vals, dtype=np.float64)
    return np.array(vals, dtype=np.uint64)


def strided(arr):
    """the same values as a non-contiguous view (every other row, and for 2-D arrays a column window,
    of a wider buffer): the writer must store the values, not the neighbouring memory"""
    n = arr.shape[0]
    if arr.ndim == 1:
        wide = np.zeros(2 * n + 1, dtype=arr.dtype)
        view = wide[1::2]
    else:
        wide = np.zeros((2 * n + 1, arr.shape[1] + 3), dtype=arr.dtype)
        wide[...] = np.array(7, dtype=np.uint8).astype(arr.dtype) if arr.dtype.names is None else wide
        view = wide[1::2, 2:2 + arr.shape[1]]
    view[...] = arr
    assert not view.flags["C_CONTIGUOUS"] or n <= 1
    return view


def input_form(cfg, arr, which):
    """the writer accepts complex data as ('r','i') struct arrays, as native complex arrays (float
    types) and as interleaved real arrays of shape (N, 2*nsub), contiguous or as strided views; all must
    store the same bytes"""
    if arr.shape[0] == 0:
        return arr
    out = _input_form(cfg, arr, which)
    if (which // 2) % 4 == 3:
        out = strided(out)
    return out


def _input_form(cfg, arr, which):
    if cfg.nsub == 1 and which % 2 == 1 and not (cfg.is_complex and which % 3 == 1):
        arr = arr[:, 0]                  # 1-D input is allowed for a single subchannel
    if not cfg.is_complex:
        return arr
    full = which
    which = which % 3
    if which == 1:
        out = np.zeros((arr.shape[0], 2 * cfg.nsub), dtype=cfg.realdtype)
        out[:, 0::2] = arr["r"].reshape(arr.shape[0], -1)
        out[:, 1::2] = arr["i"].reshape(arr.shape[0], -1)
        if cfg.nsub == 1 and (full // 3) % 2 == 1:
            return out.reshape(-1)       # flat I/Q: 2N values for N samples of a single subchannel
        return out
    if which == 2 and cfg.kind == "f":
        return (arr["r"].astype("f%d" % cfg.size) + 1j * arr["i"].astype("f%d" % cfg.size)).astype("c%d" % (2 * cfg.size))
    return arr


def impl_stepper(cfg, ops, chdir, hook=None, pform=None):
    """generator: executes one op on a real DigitalRFWriter per step (the writer is created at the first
    step); its return value (StopIteration.value) is (per-op reports [cls, ret, next, written, gap], writer).
    Several steppers may be advanced in turns: several writers alive in one process must not influence
    each other"""
    os.makedirs(chdir, exist_ok=True)
    cur = {"api": "python", "cfg": cfg.as_dict(), "ops": [list(o) for o in ops]}
    common.set_current(cur)
    held_path = common.path_form(chdir, pform)   # the recorder's own variable: every session passes this object
    used_form = common.path_form.last
    w = make_writer(cfg, chdir, path=held_path)
    w._verif_pform = used_form
    reports = []
    kept = []       # a caller may keep the exceptions of refused calls (logging, retry queues): they stay alive
    for i, op in enumerate(ops):
        common.set_current(cur)
        cls, ret = 0, 0
        before = hook("before", i, op, w) if hook else None
        try:
            if op[0] == "w":
                ns = op[1]
                if ns is not None and ns >= 0 and (i + op[3]) % 3 == 1:
                    ns = np.uint64(ns) if (i + op[3]) % 2 else np.int64(ns)
                ret = w.rf_write(input_form(cfg, enc(cfg, range(op[3], op[3] + op[2])), op[3]), ns)
            elif op[0] == "b":
                ret = w.rf_write_blocks(input_form(cfg, enc(cfg, range(op[2], op[2] + op[1])), op[2]),
                                        index_form(op[3], op[2]), index_form(op[4], op[2] + 1))
            elif op[0] == "c":
                w.close()
            elif op[0] == "session":
                w.close()
                cfg = Cfg(cfg.n, cfg.d, cfg.sc, cfg.fc, op[1], cfg.cont, cfg.comp, cfg.cksum, cfg.kind, cfg.size,
                          cfg.order, cfg.is_complex, cfg.nsub)
                w = make_writer(cfg, chdir, path=held_path)
                w._verif_pform = used_form
        except Exception as e:  # noqa
            cls, ret = errclass(e), 0
            if cls == 9:
                ret = repr(e)[:200]
            kept.append(e)
        reports.append([cls, int(ret) if not isinstance(ret, str) else ret, w.get_next_available_sample(),
                        w.get_total_samples_written(), w.get_total_gap_samples()])
        if hook:
            hook("after", i, op, w, before, reports[-1])
        yield None
    return reports, w


def run_impl(cfg, ops, chdir, hook=None, pform=None):
    """execute ops on a real DigitalRFWriter; returns per-op reports [cls, ret, next, written, gap]"""
    g = impl_stepper(cfg, ops, chdir, hook, pform)
    while True:
        try:
            next(g)
        except StopIteration as e:
            return e.value


def run_impl_in_turns(items, rng):
    """items: list of (cfg, ops, chdir); the histories are executed in ONE process with all their writers
    alive, one op of a randomly chosen history at a time; returns [(reports, writer)] in the order given.
    Every other group of two or more works with the FIRST member's channel directory as the process's working
    directory (a recorder started from inside its data directory): names the library resolves against the
    working directory instead of the channel directory then find the other channel's subdirectories.  The
    directories are passed as absolute paths in that case."""
    _TURNS[0] += 1
    in_cwd = len(items) >= 2 and _TURNS[0] % 2 == 0
    cwd0 = os.getcwd()
    if in_cwd:
        os.makedirs(items[0][2], exist_ok=True)
        os.chdir(items[0][2])
    try:
        gens = [impl_stepper(cfg, ops, chdir, pform=(0 if in_cwd else None)) for cfg, ops, chdir in items]
        out = [None] * len(gens)
        live = list(range(len(gens)))
        while live:
            k = rng.choice(live)
            try:
                next(gens[k])
            except StopIteration as e:
                out[k] = e.value
                live.remove(k)
    finally:
        os.chdir(cwd0)
    return out


_TURNS = [0]


FILE_RE = re.compile(r"^(tmp\.)?rf@(\d+)\.(\d{3})\.h5$")


def dump_files(chdir):
    """canonical view of every rf file of a channel directory (raw h5py)"""
    import h5py
    files = []
    for f in sorted(glob.glob(os.path.join(chdir, "*", "*rf@*.h5"))):
        m = FILE_RE.match(os.path.basename(f))
        if not m:
            continue
        with h5py.File(f, "r") as h:
            ds = h["rf_data"]
            data = ds[...]
            attrs = {k: (v.item() if hasattr(v, "item") and np.ndim(v) == 0 else
                         (v[0].item() if hasattr(v, "__len__") and len(v) == 1 and hasattr(v[0], "item") else v))
                     for k, v in ds.attrs.items()}
            atypes = {k: (v.dtype.str if hasattr(v, "dtype") else type(v).__name__) for k, v in ds.attrs.items()}
            idx = h["rf_data_index"][...] if "rf_data_index" in h else np.zeros((0, 2), dtype=np.uint64)
        files.append(dict(atypes=atypes, path=f, subdir=os.path.basename(os.path.dirname(f)), name=os.path.basename(f),
                          ms=int(m.group(2)) * 1000 + int(m.group(3)), tmp=bool(m.group(1)),
                          rows=[(int(r[0]), int(r[1])) for r in idx], data=data, attrs=attrs))
    files.sort(key=lambda x: x["ms"])
    return files


def expected_subdir(cfg, ms):
    import datetime
    S = cfg.sc * ((ms // 1000) // cfg.sc)
    dt = datetime.datetime(1970, 1, 1) + datetime.timedelta(seconds=S)
    return "%04d-%02d-%02dT%02d-%02d-%02d" % (dt.year, dt.month, dt.day, dt.hour, dt.minute, dt.second)


def misplaced_files(cfg, impl_files):
    """files whose directory is not the one the layout names for their time (C04)"""
    return [(f["subdir"], f["name"], expected_subdir(cfg, f["ms"])) for f in impl_files
            if f["subdir"] != expected_subdir(cfg, f["ms"])]


def compare_files(cfg, model_files, impl_files):
    """returns a description of the first difference, or None"""
    mf = sorted(model_files, key=lambda x: x["ms"])
    if [(f["ms"], f["tmp"]) for f in mf] != [(f["ms"], f["tmp"]) for f in impl_files]:
        return "file set differs: model %r impl %r" % ([(f["ms"], f["tmp"]) for f in mf],
                                                      [(f["ms"], f["tmp"]) for f in impl_files])
    for a, b in zip(mf, impl_files):
        if a["rows"] != b["rows"]:
            return "index rows of %s differ: model %r impl %r" % (b["name"], a["rows"], b["rows"])
        if len(a["data"]) != b["data"].shape[0]:
            return "data length of %s differs: model %d impl %d" % (b["name"], len(a["data"]), b["data"].shape[0])
        if not arrays_equal(cfg, enc(cfg, a["data"]), b["data"]):
            return "data of %s differs" % b["name"]
        if a["seq"] != b["attrs"].get("sequence_num"):
            return "sequence_num of %s differs: model %r impl %r" % (b["name"], a["seq"], b["attrs"].get("sequence_num"))
    return None


# ------------------------------------------------------------------------------- Spec

def abs_of_history(cfg, ops, reports):
    """index (absolute) -> tag for every sample of every ACCEPTED call (cls == 0).  A write without an index
    (next_sample=None) continues right after the last sample the caller wrote: its indices come from the calls made
    so far, not from what the implementation reports"""
    m = {}
    start = cfg.start
    cur = 0
    for op, rep in zip(ops, reports):
        if op[0] == "session":
            start = op[1]
            cur = 0
        if rep[0] != 0:
            continue
        if op[0] == "w":
            ns = op[1]
            if ns is None:
                ns = cur
            for j in range(op[2]):
                m[start + ns + j] = op[3] + j
            if op[2] > 0:
                cur = ns + op[2]
        elif op[0] == "b":
            G, D, total = op[3], op[4], op[1]
            for bi in range(len(G)):
                end = D[bi + 1] if bi + 1 < len(D) else total
                for j in range(end - D[bi]):
                    m[start + G[bi] + j] = op[2] + D[bi] + j
            if total > 0:
                cur = G[-1] + (total - D[-1])
    return m


def runs_of(m, lo=None, hi=None):
    """maximal runs of consecutive keys: list of (start, [tags])"""
    ks = sorted(k for k in m if (lo is None or k >= lo) and (hi is None or k <= hi))
    out = []
    for k in ks:
        if out and out[-1][0] + len(out[-1][1]) == k:
            out[-1][1].append(m[k])
        else:
            out.append((k, [m[k]]))
    return out


def expected_with_fill(cfg, m):
    """continuous un-chunked mode: every slot of every file that holds a written sample is exposed"""
    if cfg.chunk or not cfg.cont:
        return dict(m)
    out = dict(m)
    for F in sorted({F_of(cfg, k) for k in m}):
        for k in range(file_start(cfg, F), file_start(cfg, F + cfg.fc)):
            out.setdefault(k, -1)
    return out


# ------------------------------------------------------------------------------- batch driver

def budget_scale(res):
    """1 normally; larger when a hand-modelled function's text differs from the committed fingerprint
    (the hand model may have gone stale there: run the quick tier with a thorough-size budget)"""
    import fingerprint
    ch = fingerprint.changed(common.REPO)
    res.extra["fingerprints_changed"] = ch
    if ch and res.tier == "quick":
        res.notes.append("hand-modelled functions changed since the models were written: %s -- quick tier runs with a x6 budget" % ", ".join(ch)[:400])
        return 6
    return 1


def run_histories(res, nhist, oracle, invalid_rate=0.0, blocks=True, modes=None, nops=(2, 7), gaprule=None,
                  small=True, sessions=False, keep=False, far=False, after_close=0.0):
    """Generate nhist histories, run each on the implementation and on the model, record
    model/implementation disagreements (reports after every call, final files) in res, and call
    oracle(cfg, ops, reports, files, chdir, model_reports, model_files) for the property's own checks."""
    common.use_impl()
    import shutil
    rng = res.rng
    work = common.scratch_dir()
    if gaprule is None:
        gaprule = detect_gaprule(res)
    nhist = nhist * budget_scale(res)
    hs = []
    sibling = set()
    for i in range(nhist):
        cfg = gen_cfg(rng, small=small, modes=modes)
        if hs and rng.random() < 0.3:
            # a sibling of the previous history: same sample rate, start index in the same file period, other
            # cadences; the two are executed in turns (below), so anything the library remembers about "the
            # current file" per process instead of per writer shows
            p0 = hs[-1][0]
            alts = [(sc, fc) for sc, fc in [(1, 20), (2, 400), (3600, 1000), (1, 1), (10, 2500), (1, 1000), (3600, 60000),
                                            (1, 250), (2, 100), (1, 5), (3600, 1), (3600, 2), (1, 500), (2, 2000)]
                    if (sc, fc) != (p0.sc, p0.fc) and 1 <= fc * p0.n // (1000 * p0.d) <= (50 if small else 4000)
                    and fc * p0.n >= 1000 * p0.d]
            if alts:
                sc, fc = rng.choice(alts)
                cfg = Cfg(p0.n, p0.d, sc, fc, p0.start + rng.choice([0, 0, 1]), cfg.cont, cfg.comp, cfg.cksum, cfg.kind, cfg.size,
                          cfg.order, cfg.is_complex, cfg.nsub)
                sibling.add(i)
        ops = gen_ops(rng, cfg, rng.randrange(nops[0], nops[1] + 1), invalid_rate=invalid_rate, blocks=blocks, far=far)
        if after_close and ops and ops[-1] == ("c",) and rng.random() < after_close:
            # calls on a closed writer (also well-formed ones, also a second close): refused, nothing changes
            tail = gen_ops(rng, cfg, rng.choice([1, 2]), invalid_rate=0.0, blocks=blocks, close=False)
            last_tag = max([op[3] + op[2] for op in ops if op[0] == "w"] + [op[2] + op[1] for op in ops if op[0] == "b"] + [1])
            shifted = []
            for op in tail:
                if op[0] == "w":
                    shifted.append(("w", None if op[1] is None else op[1] + 10 ** 6, op[2], op[3] + last_tag))
                else:
                    shifted.append(("b", op[1], op[2] + last_tag, [g + 10 ** 6 for g in op[3]], list(op[4])))
            ops = ops + shifted + ([("c",)] if rng.random() < 0.5 else [])
        hs.append((cfg, ops))
    model_out = common.run_model("writer", [encode_case(cfg, ops, gaprule) for cfg, ops in hs])
    ndis = 0
    # the histories are executed two or three at a time, their writers alive together and written to in
    # turns (process-wide state in the library must not leak from one writer into another)
    import random as _random
    turn_rng = _random.Random(1000003 * getattr(res, "seed", 0) + nhist)
    executed = {}

    def in_turns():
        i0 = 0
        while i0 < len(hs):
            grp = list(range(i0, min(len(hs), i0 + turn_rng.choice([1, 2, 2, 3]))))
            while grp[-1] + 1 < len(hs) and (grp[-1] + 1) in sibling:      # siblings run together
                grp.append(grp[-1] + 1)
            i0 = grp[-1] + 1
            if any(i in sibling for i in grp):
                res.count("histories-in-turns-with-a-sibling (same rate and start, other cadences)")
            outs = run_impl_in_turns([(hs[i][0], hs[i][1], os.path.join(work, "h%d" % i, "ch")) for i in grp], turn_rng)
            for i, o in zip(grp, outs):
                executed[i] = o
            res.count("histories-executed-in-turns:%d" % len(grp))
            for i in grp:
                yield i, (hs[i], model_out[i])
    for i, ((cfg, ops), mo) in in_turns():
        chdir = os.path.join(work, "h%d" % i, "ch")
        reports, w = executed.pop(i)
        try:
            w.close()
        except Exception:  # noqa
            pass
        files = dump_files(chdir)
        mrep, mfiles = parse_model(mo, len(ops))
        res.case((cfg.key(), tuple(map(str, ops))), nontrivial=True)
        res.count("mode:" + ("cont" if cfg.cont else "gapped") + ("+chunk" if cfg.cont and cfg.chunk else ""))
        res.count("ops", len(ops))
        for op in ops:
            res.count("op:" + op[0])
        for r in reports:
            res.count("class:%s" % r[0])
        hist = {"cfg": cfg.as_dict(), "ops": [list(map(lambda x: x if not isinstance(x, list) else list(x), op)) for op in ops]}
        if i < 2:
            res.sample(hist)
        # model vs implementation: per-call reports
        if ndis < 5:
            for j, (ri, rm) in enumerate(zip(reports, mrep)):
                if rm[0] != 0:
                    rm = [rm[0], 0] + rm[2:]      # the model's ret carries which validation fired
                if ri[:5] != rm[:5]:
                    res.disagree("writer model vs implementation: report after call %d" % j, hist, rm[:5], ri[:5])
                    ndis += 1
                    break
            else:
                diff = compare_files(cfg, mfiles, files)
                if diff:
                    res.disagree("writer model vs implementation: files on disk: " + diff, hist, None, None)
                    ndis += 1
        bad = misplaced_files(cfg, files)
        if bad:
            res.violation("file-in-wrong-subdirectory", "a data file is not in the subdirectory the layout names for its time",
                          hist, bad[0][2], list(bad[0][:2]))
        oracle(cfg, ops, reports, files, chdir, mrep, mfiles, hist)
        if not keep:
            shutil.rmtree(os.path.dirname(chdir), ignore_errors=True)
    return hs


_gaprule = None


def detect_gaprule(res):
    """which variant of rf_write's gap accounting does /repo implement?  (DESIGN 2.6: the
    correspondence selects the variant; 0 = FromRequest (before the fix), 1 = FromCursor)"""
    global _gaprule
    if _gaprule is not None:
        return _gaprule
    common.use_impl()
    cfg = Cfg(100, 1, 1, 1000, 150000000000, False)
    d = common.scratch_dir()
    w = make_writer(cfg, os.path.join(d, "ch")) if os.makedirs(os.path.join(d, "ch")) is None else None
    w.rf_write(enc(cfg, []), 100)
    _gaprule = 0 if w.get_total_gap_samples() == 100 else 1
    w.close()
    return _gaprule


# ------------------------------------------------------------------------------- C API

_capi = None


def capi():
    """ctypes handle on the C writer compiled from /repo together with harness/cdriver/capi_shim.c"""
    global _capi
    if _capi is None:
        import ctypes
        so = common.build_cshim("capi_shim", ["capi_shim.c"])
        lib = ctypes.CDLL(so)
        u64, vp, ci = ctypes.c_uint64, ctypes.c_void_p, ctypes.c_int
        P64 = ctypes.POINTER(u64)
        lib.shim_create.restype = vp
        lib.shim_create.argtypes = [ctypes.c_char_p, u64, u64, u64, u64, u64, ci, ci, ci]
        lib.shim_global_index.restype = u64
        lib.shim_global_index.argtypes = [vp]
        lib.shim_has_failure.argtypes = [vp]
        lib.digital_rf_write_blocks_hdf5.argtypes = [vp, P64, P64, u64, vp, u64]
        lib.digital_rf_write_hdf5.argtypes = [vp, u64, vp, u64]
        lib.digital_rf_close_write_hdf5.argtypes = [vp]
        lib.shim_index.argtypes = [u64, u64, ci, ci, u64, u64, u64, P64, P64, u64, u64, u64, ci, P64, P64]
        lib.shim_global_sample.restype = u64
        lib.shim_global_sample.argtypes = [u64, P64, P64, u64]
        _capi = lib
    return _capi


def run_capi(cfg, ops, chdir, hook=None):
    """ops ("capi", len, tag0, G, D) / ("c",) on the C API (int32, one subchannel);
    reports [rc, 0, 0, 0, 0, global_index, has_failure]"""
    import ctypes
    lib = capi()
    os.makedirs(chdir, exist_ok=True)
    common.set_current({"api": "C", "cfg": cfg.as_dict(), "ops": [list(o) for o in ops]})
    obj = lib.shim_create(chdir.encode(), cfg.sc, cfg.fc, cfg.start, cfg.n, cfg.d, cfg.comp, int(cfg.cksum), int(cfg.cont))
    if not obj:
        raise common.Broken("digital_rf_create_write_hdf5 returned NULL")
    reports = []
    closed = False
    for i, op in enumerate(ops):
        before = hook("before", i, op, None) if hook else None
        if op[0] == "capi":
            ln, tag0, G, D = op[1], op[2], op[3], op[4]
            data = np.arange(tag0, tag0 + max(ln, 1), dtype=np.int32)
            Ga = (ctypes.c_uint64 * max(1, len(G)))(*G)
            Da = (ctypes.c_uint64 * max(1, len(D)))(*D)
            rc = lib.digital_rf_write_blocks_hdf5(obj, Ga, Da, len(G), data.ctypes.data_as(ctypes.c_void_p), ln)
            reports.append([rc, 0, 0, 0, 0, lib.shim_global_index(obj), lib.shim_has_failure(obj)])
        elif op[0] == "c":
            lib.digital_rf_close_write_hdf5(obj)
            closed = True
            reports.append([0, 0, 0, 0, 0, None, None])
        if hook:
            hook("after", i, op, None, before, reports[-1])
    if not closed:
        lib.digital_rf_close_write_hdf5(obj)
    return reports


# ------------------------------------------------------------------------------- replay

def cfg_from_dict(d):
    dt = np.dtype(d["dtype"])
    order = ">" if dt.byteorder == ">" else "<"
    return Cfg(d["n"], d["d"], d["sc"], d["fc"], d["start"], d["cont"], d.get("comp", 0), d.get("cksum", False),
               dt.kind, dt.itemsize, order, d.get("is_complex", False), d.get("nsub", 1))


CLOSINGS = ["close()", "with-block left normally", "with-block left by an exception of the caller", "close() twice"]


def close_writer(w, how):
    """the ways a recorder lets go of its writer"""
    if how == "with-block left normally":
        with w:
            pass
    elif how == "with-block left by an exception of the caller":
        try:
            with w:
                raise KeyError("the caller's own error")
        except KeyError:
            pass
    elif how == "close() twice":
        w.close()
        w.close()
    else:
        w.close()


def replay(res, rp):
    """re-run the history of a replay file on the implementation and on the model; print both and
    the Spec; exit code 1 if they still differ from each other or from the Spec"""
    common.use_impl()
    inp = rp.get("input") or {}
    if "cfg" not in inp or "ops" not in inp:
        print("replay: this file has no writer history; input was:", json_dumps(inp)[:2000])
        return 0
    cfg = cfg_from_dict(inp["cfg"])
    ops = [tuple(o) for o in inp["ops"]]
    work = common.scratch_dir()
    chdir = os.path.join(work, "ch")
    bad = 0
    if inp.get("api") == "C":
        reports = run_capi(cfg, ops, chdir)
    else:
        if inp.get("directory_spelling") is not None:
            print("channel directory passed as:", common.PATH_FORM_NAMES[inp["directory_spelling"]], "(the same str object in every session)")
        reports, w = run_impl(cfg, ops, chdir, pform=inp.get("directory_spelling"))
        try:
            close_writer(w, inp.get("closed_by") or "close()")
        except Exception:  # noqa
            pass
        if inp.get("closed_by"):
            print("writer closed by:", inp["closed_by"], "; afterwards get_last_file_written() =", w.get_last_file_written(),
                  ", get_last_dir_written() =", w.get_last_dir_written())
            if rp.get("expected") and [os.path.abspath(x or "x").split(os.sep)[-2:] for x in (w.get_last_file_written(), )] != \
                    [os.path.abspath(str(rp["expected"][0])).split(os.sep)[-2:]]:
                print("expected the file of the most recent sample:", os.sep.join(str(rp["expected"][0]).split(os.sep)[-2:]))
                bad += 1
    files = dump_files(chdir)
    out = common.run_model("writer", [encode_case(cfg, ops, detect_gaprule(res))])[0]
    mrep, mfiles = parse_model(out, len(ops))
    print("config:", cfg.as_dict())
    for j, (op, ri, rm) in enumerate(zip(ops, reports, mrep)):
        rm2 = [rm[0], 0] + rm[2:] if rm[0] != 0 else rm
        same = (ri[:5] == rm2[:5]) if inp.get("api") != "C" else (ri[0] == rm[0] and ri[5] == rm[5])
        print("call %d %r -> implementation %r  model %r %s" % (j, op, ri, rm2, "" if same else "  <-- DIFFER"))
        bad += 0 if same else 1
    if inp.get("api") != "C":
        diff = compare_files(cfg, mfiles, files)
        print("files: implementation", [(f["subdir"], f["name"], f["rows"]) for f in files])
        print("files: model         ", [(f["ms"], f["tmp"], f["rows"]) for f in sorted(mfiles, key=lambda x: x["ms"])])
        if diff:
            print("DIFFER:", diff)
            bad += 1
        mis = misplaced_files(cfg, files)
        if mis:
            print("MISPLACED:", mis)
            bad += 1
        m = abs_of_history(cfg, ops, reports)
        print("Spec runs:", [(a, len(t)) for a, t in runs_of(expected_with_fill(cfg, m))])
    print("replay verdict:", "STILL VIOLATING" if bad else "no longer violating")
    return 1 if bad else 0


def json_dumps(x):
    import json
    return json.dumps(x, default=str)
