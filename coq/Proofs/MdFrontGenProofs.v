(* T22: the write front end of DigitalMetadataWriter is, statement for statement, the code Model/MdStore.write_call was
   written from (Gen/MdFrontGen.v exists only if translate/mdfront2gallina.py found every statement unchanged); the facts
   the model uses about it, as the translator states them. *)
From DRF Require Import Gen.MdFrontGen.

Theorem md_front_end_as_modelled :
  gen_md_index_conversion = ExactUint64 /\
  gen_md_empty_call_refused = true /\
  gen_md_indices_in_call_order = true /\
  gen_md_values_paired_by_position = true /\
  gen_md_existing_index_refused = true /\
  gen_md_stops_at_first_refusal = true /\
  gen_md_none_is_empty_string = true.
Proof. repeat split. Qed.
