(* C01 end to end, at the level of the two models: what the reader model returns on the files the
   writer model produced is the canonical block list of the Spec map (every written sample at its
   index, contiguous data as one block across files, blocks split exactly at the gaps). *)
From Coq Require Import ZArith List Bool Lia.
From DRF Require Import Base.DivLemmas Base.Runs Model.LayoutSpec Model.Ld80 Model.ReaderCore Proofs.ReaderProofs
  Model.IndexCalc Model.WriterCore Proofs.LayoutProofs Proofs.WriterInv.
Import ListNotations.
Local Open Scope Z_scope.

Definition rc_of (c : WriterCore.cfg) : ReaderCore.cfg :=
  ReaderCore.mkCfg (c_n c) (c_d c) (c_fc c) (c_sc c).

(* a file of the writer model as the reader model sees it on disk: it sits in the subdirectory of its time *)
Definition to_rfile (c : WriterCore.cfg) (a : afile) : rfile Z :=
  ReaderCore.mkFile (f_ms a / 1000 / c_sc c * c_sc c) (f_ms a) (f_index a) (f_data a).

Lemma rows_abs_lookup rows : forall data k,
  rows_abs rows (Z.of_nat (length data)) data k = rows_lookup rows data k.
Proof.
  induction rows as [|[g o] tl IH]; intros data k; cbn [rows_abs rows_lookup]; [reflexivity|].
  destruct tl as [|[g' o'] tl']; rewrite IH; reflexivity.
Qed.

Lemma files_abs_lookup c fs k : files_abs (map (to_rfile c) fs) k = files_lookup fs k.
Proof.
  unfold files_abs. induction fs as [|a fs IH]; cbn [map first_some files_lookup]; [reflexivity|].
  unfold file_abs, dlen, file_lookup. cbn [findex fdata to_rfile]. rewrite rows_abs_lookup.
  destruct (rows_lookup (f_index a) (f_data a) k); [reflexivity|exact IH].
Qed.

Lemma rows_ok_cons g o rest dl lo hi :
  rows_ok ((g, o) :: rest) dl lo hi <->
  (let stop := match rest with [] => dl | (_, o') :: _ => o' end in
   0 <= o /\ o < stop /\ stop <= dl /\ lo <= g /\ g + (stop - o) <= hi /\
   match rest with [] => True | (g', _) :: _ => g + (stop - o) <= g' end /\
   rows_ok rest dl lo hi).
Proof. reflexivity. Qed.

Lemma rows_wf_ok rows : forall dl top lo hi g0 o0 tl0, rows = (g0, o0) :: tl0 ->
  rows_wf rows dl top -> top <= hi -> lo <= g0 -> rows_ok rows dl lo hi.
Proof.
  induction rows as [|[g o] tl IH]; intros dl top lo hi g0 o0 tl0 E Hwf Htop Hlo; [discriminate|].
  inversion E; subst g0 o0 tl0.
  pose proof (rows_wf_offset_lt tl dl top g o Hwf) as Hod.
  apply rows_ok_cons. cbn [rows_wf] in Hwf. destruct tl as [|[g' o'] tl'].
  - cbv zeta. repeat (split; [lia|]). exact I.
  - destruct Hwf as (H1 & H2 & H3).
    pose proof (rows_wf_offset_lt tl' dl top g' o' H3) as Hod'.
    pose proof (rows_wf_first_lt_top tl' dl top g' o' H3) as Hgt.
    cbv zeta. repeat (split; [lia|]).
    eapply (IH dl top lo hi g' o' tl' eq_refl H3 Htop). lia.
Qed.

Lemma ms_incr_sorted c fs : ms_incr (map f_ms fs) -> ms_sorted (map (to_rfile c) fs).
Proof.
  induction fs as [|a fs IH]; cbn [map ms_incr ms_sorted]; [auto|].
  intros (H1 & H2). split; [|apply IH; exact H2].
  destruct fs as [|b fs']; cbn [map] in *; [exact I|exact H1].
Qed.

Lemma FWF_file_ok c B a : vcfg c -> 0 < c_sc c -> FWF c B a -> file_ok (rc_of c) (to_rfile c a).
Proof.
  intros (Hn & Hd & Hf & Hs) Hsc ((g & tl & Hi & Hlo) & Hwf & (K0 & HK0 & EK0)).
  unfold file_ok. cbn [findex fdata file_ms file_sub to_rfile rc_of fcad scad rn rd].
  split; [rewrite Hi; discriminate|]. split; [rewrite Hi; reflexivity|]. split; [|split; [|split]].
  - unfold dlen. cbn [fdata to_rfile].
    eapply (rows_wf_ok (f_index a) _ _ _ _ g 0 tl Hi Hwf).
    + unfold slot_lo. cbn [rn rd fcad rc_of]. unfold whi, file_start. lia.
    + unfold slot_lo. cbn [rn rd rc_of]. unfold wlo, file_start in Hlo. exact Hlo.
  - rewrite EK0. unfold Fk, F_of, ms_of. apply Z.mul_nonneg_nonneg; [lia|].
    apply Z.div_pos; [|lia]. apply Z.div_pos; [nia|lia].
  - rewrite EK0. unfold Fk, F_of. rewrite Z.mul_comm. apply Z.mod_mul. lia.
  - reflexivity.
Qed.

Lemma Inv_FilesInv c st : vcfg c -> 0 < c_sc c -> (c_sc c * 1000) mod c_fc c = 0 ->
  Inv c st -> ms_incr (map f_ms (all_files st)) ->
  FilesInv (rc_of c) (map (to_rfile c) (all_files st)).
Proof.
  intros Hc Hsc Hrule [_ Hf Ho] Hso. destruct Hc as (Hn & Hd & Hfc & Hs0).
  split; [|split].
  - unfold cfg_ok. cbn [rn rd fcad scad rc_of]. auto.
  - apply Forall_map. unfold all_files. apply Forall_app. split.
    + eapply Forall_impl; [|exact Hf]. intros a (H & _). eapply FWF_file_ok; [repeat split; assumption|assumption|exact H].
    + destruct (w_openf st) as [a|]; [|constructor]. constructor; [|constructor].
      destruct Ho as (_ & H & _). eapply FWF_file_ok; [repeat split; assumption|assumption|exact H].
  - apply ms_incr_sorted. exact Hso.
Qed.

(* the round trip, for single-block histories in chunked mode *)
Theorem roundtrip_single_chunked c ops s e : vcfg c -> 0 < c_sc c -> (c_sc c * 1000) mod c_fc c = 0 ->
  c_chunk c = true -> Forall (fun op => 0 <= fst op) ops ->
  read ExactRational (rc_of c) (map (to_rfile c) (all_files (fold_left (model_step c) ops init_state))) s e
  = runs (s_map (fold_left (spec_step c) ops spec_init)) s e.
Proof.
  intros Hc Hsc Hrule Hch Hops.
  destruct (writer_refines_single_chunked c ops Hc Hch Hops) as (HI & Hgi & Hlk & Hso).
  rewrite (reader_refines (rc_of c) _ s e (Inv_FilesInv c _ Hc Hsc Hrule HI Hso)).
  apply runs_ext. intros k _. rewrite files_abs_lookup. apply Hlk.
Qed.

(* the round trip for histories of block calls (rf_write_blocks / digital_rf_write_blocks_hdf5 with any
   number of blocks per call; single-block calls are the one-block instance), chunked mode *)
From DRF Require Import Proofs.WriterMultiIdx Proofs.WriterMulti.

Theorem roundtrip_blocks_chunked c ops s e : vcfg c -> 0 < c_sc c -> (c_sc c * 1000) mod c_fc c = 0 ->
  c_chunk c = true -> Forall (fun op => first_nonneg (fst op)) ops ->
  read ExactRational (rc_of c) (map (to_rfile c) (all_files (fold_left (model_step_blocks c) ops init_state))) s e
  = runs (s_map (fold_left (spec_step_blocks c) ops spec_init)) s e.
Proof.
  intros Hc Hsc Hrule Hch Hops.
  destruct (writer_refines_blocks_chunked c ops Hc Hch Hops) as (HI & Hgi & Hlk & Hso).
  rewrite (reader_refines (rc_of c) _ s e (Inv_FilesInv c _ Hc Hsc Hrule HI Hso)).
  apply runs_ext. intros k _. rewrite files_abs_lookup. apply Hlk.
Qed.

(* ---- the un-chunked continuous layout: what the reader returns is the canonical block list of what
   the files expose; by refines_u that is every written sample at its index with its value and the
   fill value in every other slot of every file that holds a written sample *)
From DRF Require Import Proofs.WriterInvU.

Lemma FWFu_file_ok c a : vcfg c -> 0 < c_sc c -> FWFu c a -> file_ok (rc_of c) (to_rfile c a).
Proof.
  intros (Hn & Hd & Hf & Hs) Hsc (Hi & Hl & (K0 & HK0 & EK0)).
  unfold file_ok. cbn [findex fdata file_ms file_sub to_rfile rc_of fcad scad rn rd].
  split; [rewrite Hi; discriminate|]. split; [rewrite Hi; reflexivity|]. split; [|split; [|split]].
  - rewrite Hi. unfold dlen. cbn [fdata to_rfile]. apply rows_ok_cons. cbv zeta.
    fold (zlen (f_data a)). rewrite Hl. unfold slot_lo. cbn [rn rd fcad rc_of].
    unfold wlo, whi, file_start in *.
    assert (Hcap : 1 <= cdiv ((f_ms a + c_fc c) * c_n c) (1000 * c_d c) - cdiv (f_ms a * c_n c) (1000 * c_d c)).
    { rewrite EK0. apply (capacity_positive K0 (c_n c) (c_d c) (c_fc c)); assumption. }
    repeat (split; [lia|]). exact I.
  - rewrite EK0. unfold Fk, F_of, ms_of. apply Z.mul_nonneg_nonneg; [lia|].
    apply Z.div_pos; [|lia]. apply Z.div_pos; [nia|lia].
  - rewrite EK0. unfold Fk, F_of. rewrite Z.mul_comm. apply Z.mod_mul. lia.
  - reflexivity.
Qed.

Theorem roundtrip_unchunked c ops s e : vcfg c -> 0 < c_sc c -> (c_sc c * 1000) mod c_fc c = 0 ->
  c_chunk c = false -> c_cont c = true -> Forall (fun op => 0 <= fst op) ops ->
  let st := fold_left (model_step c) ops init_state in
  read ExactRational (rc_of c) (map (to_rfile c) (all_files st)) s e = runs (lookup_st st) s e /\
  refines_u c st (fold_left (spec_step c) ops spec_init).
Proof.
  intros Hc Hsc Hrule Hch Hco Hops st.
  pose proof (writer_refines_unchunked c ops Hc Hch Hco Hops) as HR. fold st in HR.
  split; [|exact HR].
  destruct HR as [[_ Hf Ho] _ _ _ _ Hso].
  assert (HFI : FilesInv (rc_of c) (map (to_rfile c) (all_files st))).
  { destruct Hc as (Hn & Hd & Hfc & Hs0). split; [|split].
    - unfold cfg_ok. cbn [rn rd fcad scad rc_of]. auto.
    - apply Forall_map. unfold all_files. apply Forall_app. split.
      + eapply Forall_impl; [|exact Hf]. intros a (H & _). apply FWFu_file_ok; [repeat split; assumption|assumption|exact H].
      + destruct (w_openf st) as [a|]; [|constructor]. constructor; [|constructor].
        destruct Ho as (_ & H & _). apply FWFu_file_ok; [repeat split; assumption|assumption|exact H].
    - apply ms_incr_sorted. exact Hso. }
  rewrite (reader_refines (rc_of c) _ s e HFI).
  apply runs_ext. intros k _. rewrite files_abs_lookup. reflexivity.
Qed.
