(* C05 / C01: the control skeleton of digital_rf_write_blocks_hdf5 regenerated from the C source
   (Gen/WBlocksGen.v, translator T11) is that of the hand model Model/WriterCore.v: the same rejections
   in the same order with the same return values, the same loop condition, failure test and codes. *)
From Coq Require Import ZArith List Bool Lia.
From DRF Require Import Model.IndexCalc Model.WriterCore Gen.WBlocksGen.
Import ListNotations.
Local Open Scope Z_scope.

Definition b2i (b : bool) : Z := if b then 1 else 0.

(* the first rejection that fires *)
Fixpoint first_rejection (l : list (bool * Z)) : option Z :=
  match l with [] => None | (b, code) :: tl => if b then Some code else first_rejection tl end.

(* the model's rejections are the regenerated ones (a non-NULL data pointer: the model has data) *)
Theorem write_blocks_rejections_regen c st g0 d0 tl vec :
  write_blocks c st ((g0, d0) :: tl) vec =
  match first_rejection (gen_rejections (b2i (w_failed st)) false g0 (w_gi st) (b2i (c_cont c))
                                        (Z.of_nat (length ((g0, d0) :: tl)))) with
  | Some code => (code, st)
  | None => write_loop (S (length vec)) c st 0 ((g0, d0) :: tl) vec
  end.
Proof.
  unfold write_blocks, gen_rejections. cbn [first_rejection].
  destruct (w_failed st); cbn [b2i Z.eqb negb]; [reflexivity|].
  destruct (g0 <? w_gi st); [reflexivity|].
  destruct (c_cont c); cbn [b2i Z.eqb negb andb].
  - destruct tl as [|x tl'].
    + cbn [length Z.of_nat]. replace (Z.pos (Pos.of_succ_nat 0) >? 1) with false by reflexivity. reflexivity.
    + assert (E : (Z.of_nat (length ((g0, d0) :: x :: tl')) >? 1) = true).
      { apply Z.gtb_lt. cbn [length]. lia. }
      rewrite E. reflexivity.
  - reflexivity.
Qed.

(* the loop: condition, failure test and the two return values *)
Theorem write_loop_regen fuel c st sw bl vec :
  write_loop (S fuel) c st sw bl vec =
  if gen_loop_cond sw (Z.of_nat (length vec)) then
    match write_samples_to_file c st sw bl vec with
    | (Fail, st') => (gen_loop_failure_code, st')
    | (Wrote k, st') => if gen_loop_failure k then (gen_loop_failure_code, st') else write_loop fuel c st' (sw + k) bl vec
    end
  else (gen_final_code, st).
Proof. reflexivity. Qed.
