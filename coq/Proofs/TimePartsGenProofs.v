(* digital_rf_get_time_parts as regenerated (Gen/TimePartsGen.v, translator T13: gmtime(&unix_second)
   and the table of fields and added constants) is the hand model Model/TimeParts.v, given what libc's
   gmtime means (struct tm of the proleptic Gregorian UTC calendar, Base/Civil.v). *)
From Coq Require Import ZArith List String.
From DRF Require Import Base.Civil Model.TimeParts Gen.TimePartsGen.
Import ListNotations.
Local Open Scope Z_scope.
Local Open Scope string_scope.

(* libc: the fields of gmtime(t) *)
Definition tm_field (t : Z) (f : string) : Z :=
  let '(y, m, d, hh, mm, ss) := time_parts t in
  if String.eqb f "tm_year" then y - 1900
  else if String.eqb f "tm_mon" then m - 1
  else if String.eqb f "tm_mday" then d
  else if String.eqb f "tm_hour" then hh
  else if String.eqb f "tm_min" then mm
  else if String.eqb f "tm_sec" then ss
  else 0.

Definition gen_time_parts (t : Z) : list Z := map (fun r => tm_field t (fst r) + snd r) gen_time_parts_table.

Theorem time_parts_regen t :
  let '(rc, y, m, d, hh, mm, ss) := digital_rf_get_time_parts t in
  rc = 0 /\ gen_time_parts t = [y; m; d; hh; mm; ss].
Proof.
  unfold digital_rf_get_time_parts, gen_time_parts, gen_time_parts_table, tm_field.
  destruct (time_parts t) as [[[[[y m] d] hh] mm] ss]. cbn [map fst snd String.eqb Ascii.eqb Bool.eqb].
  split; [reflexivity|]. repeat f_equal; ring.
Qed.
