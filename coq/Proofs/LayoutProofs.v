From Coq Require Import ZArith Lia Bool String List.
From DRF Require Import Base.U64 Base.DivLemmas Base.Dec Base.Civil Model.TimeParts Gen.TimeConvGen Gen.LayoutGen Proofs.TimeConvProofs Model.LayoutSpec.
Import ListNotations.
Local Open Scope Z_scope.

(* C04: exactness of the regenerated digital_rf_get_subdir_file and the layout corollaries *)
Lemma ms_split K n d : 0 <= K -> 0 < n -> 0 < d ->
  floor_sec K n d * 1000 + floor_ps K n d / 1000000000 = ms_of K n d.
Proof.
  intros HK Hn Hd. unfold floor_sec, floor_ps, ms_of, PS.
  pose proof (Z.div_mod (K * d) n ltac:(lia)) as E.
  set (q := K * d / n) in *. set (m := (K * d) mod n) in *.
  rewrite Z.div_div by lia.
  replace (m * 1000000000000) with ((m * 1000) * 1000000000) by ring.
  rewrite Z.div_mul_cancel_r by lia.
  replace (K * d * 1000) with (m * 1000 + (q * 1000) * n) by (rewrite E; ring).
  rewrite Z.div_add by lia. ring.
Qed.

Lemma cdiv_mul_cancel a b c : 0 < b -> 0 < c -> cdiv (a * c) (b * c) = cdiv a b.
Proof.
  intros Hb Hc. apply cdiv_spec; [nia|].
  assert (H := proj1 (cdiv_spec a b (cdiv a b) Hb) eq_refl). nia.
Qed.

Lemma ceil_spec_ms f n d : 0 <= f -> 0 < n -> 0 < d ->
  ceil_spec (f / 1000) ((f mod 1000) * 1000000000) n d = file_start f n d.
Proof.
  intros Hf Hn Hd. unfold ceil_spec, file_start, PS.
  pose proof (Z.div_mod f 1000 ltac:(lia)) as E.
  set (q := f / 1000) in *. set (r := f mod 1000) in *. clearbody q r. subst f.
  replace ((q * 1000000000000 + r * 1000000000) * n) with (((1000 * q + r) * n) * 1000000000) by ring.
  replace (d * 1000000000000) with ((1000 * d) * 1000000000) by ring.
  apply cdiv_mul_cancel; lia.
Qed.

Theorem subdir_file_exact : forall start n d sc fc k,
  let K := start + k in
  Dom K n d -> 0 <= start -> 0 <= k -> 0 < sc < W64 -> 0 < fc < H64 ->
  file_start (F_of K n d fc + fc) n d < H64 ->
  digital_rf_get_subdir_file start n d sc fc k =
   (0, file_start (F_of K n d fc + fc) n d - K,
       file_start (F_of K n d fc + fc) n d - file_start (F_of K n d fc) n d,
       (let '(y, mo, dd, hh, mi, ss) := time_parts (S_of K n d sc) in
        snprintf "%04i-%02i-%02iT%02i-%02i-%02i" [y; mo; dd; hh; mi; ss]),
       snprintf "tmp.rf@%lu.%03lu.h5" [F_of K n d fc / 1000; F_of K n d fc mod 1000]).
Proof.
  intros start n d sc fc k K HD Hst Hk Hsc Hfc Hnext.
  unfold digital_rf_get_subdir_file.
  destruct HD as (HK & Hn & Hd & Hy).
  assert (EK : u64_add k start = K) by (unfold u64_add, K, H64, W64 in *; rewrite Z.mod_small; lia).
  rewrite EK.
  rewrite (ts_floor_exact K n d) by (repeat split; lia).
  change (negb (0 =? 0)) with false. cbv iota.
  change (cast_u64 1000) with 1000. change (cast_u64 1000000000) with 1000000000.
  change (cast_u64 1) with 1.
  assert (Hsec0 : 0 <= floor_sec K n d) by (unfold floor_sec; apply Z.div_pos; nia).
  destruct (floor_total K n d ltac:(lia) ltac:(lia) ltac:(lia)) as [_ Hps].
  pose proof (ms_split K n d ltac:(lia) ltac:(lia) ltac:(lia)) as Hms.
  assert (Hps9 : 0 <= floor_ps K n d / 1000000000 < 1000).
  { split; [apply Z.div_pos; lia|]. apply Z.div_lt_upper_bound; unfold PS in *; lia. }
  assert (Hsecu : floor_sec K n d < 253402300800) by exact Hy.
  unfold H64, W64, W32 in *.
  assert (E_ms : u64_add (u64_mul (floor_sec K n d) 1000) (u64_div (floor_ps K n d) 1000000000) = ms_of K n d).
  { unfold u64_add, u64_mul, u64_div, W64. rewrite (Z.mod_small (_ * 1000)) by lia.
    rewrite Z.mod_small by lia. exact Hms. }
  rewrite !E_ms.
  assert (Hms0 : 0 <= ms_of K n d < 253402300800000) by lia.
  set (ms := ms_of K n d) in *.
  pose proof (div_bounds ms fc ltac:(lia)) as HF.
  assert (HF0 : 0 <= ms / fc) by (apply Z.div_pos; lia).
  assert (E_F : u64_mul (u64_div ms fc) fc = F_of K n d fc).
  { unfold u64_mul, u64_div, F_of, W64. fold ms. rewrite Z.mod_small by nia. ring. }
  rewrite !E_F.
  assert (HFr : 0 <= F_of K n d fc <= ms /\ ms < F_of K n d fc + fc) by (unfold F_of; fold ms; nia).
  set (F := F_of K n d fc) in *.
  assert (E_next : u64_add F fc = F + fc) by (unfold u64_add, W64; apply Z.mod_small; lia).
  rewrite !E_next.
  pose proof (div_bounds (floor_sec K n d) sc ltac:(lia)) as HS.
  assert (HS0 : 0 <= floor_sec K n d / sc) by (apply Z.div_pos; lia).
  assert (E_dir : cast_i64 (u64_mul (u64_div (floor_sec K n d) sc) sc) = S_of K n d sc).
  { unfold u64_mul, u64_div, S_of, W64. fold (floor_sec K n d). rewrite Z.mod_small by nia.
    rewrite cast_i64_small by (unfold H64; nia). ring. }
  rewrite E_dir.
  unfold digital_rf_get_time_parts.
  destruct (time_parts (S_of K n d sc)) as [[[[[y mo] dd] hh] mi] ss].
  change (negb (0 =? 0)) with false. cbv iota.
  (* the two ceilings *)
  pose proof (Z.mod_pos_bound F 1000 ltac:(lia)) as HFm.
  pose proof (Z.mod_pos_bound (F + fc) 1000 ltac:(lia)) as HFm'.
  assert (E_p : u64_mul (u64_rem F 1000) 1000000000 = (F mod 1000) * 1000000000).
  { unfold u64_mul, u64_rem, W64. apply Z.mod_small. lia. }
  assert (E_p' : u64_mul (u64_rem (F + fc) 1000) 1000000000 = ((F + fc) mod 1000) * 1000000000).
  { unfold u64_mul, u64_rem, W64. apply Z.mod_small. lia. }
  rewrite E_p, E_p'. unfold u64_div.
  assert (Hmono : file_start F n d <= file_start (F + fc) n d).
  { unfold file_start. apply cdiv_le_mono; nia. }
  assert (Hfs0 : 0 <= file_start F n d).
  { unfold file_start, cdiv. apply Z.div_pos; nia. }
  rewrite (sample_ceil_exact (F / 1000) ((F mod 1000) * 1000000000) n d);
    [ | apply Z.div_pos; lia | unfold PS; lia | unfold W32; lia | lia
      | rewrite ceil_spec_ms by lia; unfold W64; lia ].
  change (negb (0 =? 0)) with false. cbv iota.
  rewrite (sample_ceil_exact ((F + fc) / 1000) (((F + fc) mod 1000) * 1000000000) n d);
    [ | apply Z.div_pos; lia | unfold PS; lia | unfold W32; lia | lia
      | rewrite ceil_spec_ms by lia; unfold W64; lia ].
  change (negb (0 =? 0)) with false. cbv iota.
  rewrite !ceil_spec_ms by lia.
  (* window *)
  assert (Hwin : file_start F n d <= K < file_start (F + fc) n d).
  { unfold file_start. apply (window_iff K n (1000 * d) F fc); try lia.
    replace (K * (1000 * d)) with (K * d * 1000) by ring. fold (ms_of K n d). fold ms. lia. }
  set (nx := file_start (F + fc) n d) in *. set (fs := file_start F n d) in *.
  assert (E1 : u64_sub nx K = nx - K) by (unfold u64_sub, W64; apply Z.mod_small; lia).
  assert (E2 : u64_sub nx fs = nx - fs) by (unfold u64_sub, W64; apply Z.mod_small; lia).
  rewrite E1, E2.
  assert (Hlt : (nx - K <? 1) = false) by (apply Z.ltb_ge; lia).
  assert (Hgt : (nx - K >? nx - fs) = false) by (rewrite Z.gtb_ltb; apply Z.ltb_ge; lia).
  rewrite Hlt, Hgt.
  set (sdir := snprintf "%04i-%02i-%02iT%02i-%02i-%02i" _).
  set (sbase := snprintf "tmp.rf@%lu.%03lu.h5" _).
  unfold b2z. change (0 =? 0) with true. cbn [negb orb]. change (0 =? 0) with true. cbn [negb].
  reflexivity.
Qed.

(* ---------------------------------------------------------------- corollaries on the Spec *)

Lemma sec_of_ms K n d : 0 < n -> (ms_of K n d) / 1000 = K * d / n.
Proof.
  intros Hn. unfold ms_of. rewrite Z.div_div by lia.
  replace (K * d * 1000) with ((K * d) * 1000) by ring.
  rewrite Z.div_mul_cancel_r by lia. reflexivity.
Qed.

(* the largest multiple of fc below ms is also above every multiple of a multiple of fc *)
Lemma floor_mult_nested ms fc j : 0 < fc -> 0 < j ->
  (fc * (ms / fc)) / (fc * j) = ms / (fc * j).
Proof.
  intros Hfc Hj.
  rewrite <- !Z.div_div by lia.
  rewrite (Z.mul_comm fc (ms / fc)). rewrite Z.div_mul by lia. reflexivity.
Qed.

(* the cadence rule is what makes the subdirectory a function of the file *)
Theorem dir_of_file K n d sc fc : 0 < n -> 0 < sc -> 0 < fc -> (sc * 1000) mod fc = 0 ->
  S_of K n d sc = sc * ((F_of K n d fc / 1000) / sc).
Proof.
  intros Hn Hsc Hfc Hrule. unfold S_of, F_of.
  rewrite <- (sec_of_ms K n d Hn).
  set (ms := ms_of K n d).
  apply Z.mod_divide in Hrule; [|lia]. destruct Hrule as [j Hj].
  assert (Hjpos : 0 < j) by nia.
  f_equal.
  rewrite !Z.div_div by lia.
  replace (1000 * sc) with (fc * j) by lia.
  symmetry. apply floor_mult_nested; lia.
Qed.

(* without the rule the statement fails: 7 ms files in 1 s directories *)
Example dir_of_file_needs_rule :
  S_of 1000 1000 1 1 <> 1 * ((F_of 1000 1000 1 7 / 1000) / 1).
Proof. vm_compute. discriminate. Qed.

Theorem window K n d fc : 0 < n -> 0 < d -> 0 < fc ->
  file_start (F_of K n d fc) n d <= K < file_start (F_of K n d fc + fc) n d.
Proof.
  intros Hn Hd Hfc. unfold file_start.
  apply (window_iff K n (1000 * d) (F_of K n d fc) fc); try lia.
  replace (K * (1000 * d)) with (K * d * 1000) by ring. fold (ms_of K n d).
  unfold F_of. pose proof (div_bounds (ms_of K n d) fc Hfc). lia.
Qed.

Theorem same_file_iff K K' n d fc : 0 < n -> 0 < d -> 0 < fc ->
  (F_of K' n d fc = F_of K n d fc <->
   file_start (F_of K n d fc) n d <= K' < file_start (F_of K n d fc + fc) n d).
Proof.
  intros Hn Hd Hfc. unfold file_start.
  rewrite (window_iff K' n (1000 * d) (F_of K n d fc) fc) by lia.
  replace (K' * (1000 * d)) with (K' * d * 1000) by ring. fold (ms_of K' n d).
  unfold F_of.
  pose proof (div_bounds (ms_of K' n d) fc Hfc) as H'.
  set (q := ms_of K n d / fc). set (q' := ms_of K' n d / fc) in *.
  split.
  - intros E. nia.
  - intros [H1 H2]. assert (Hq : q' = q) by nia. rewrite Hq. reflexivity.
Qed.

(* two different files of a channel never hold the same index *)
Corollary no_shared_index K n d fc f1 f2 : 0 < n -> 0 < d -> 0 < fc ->
  F_of K n d fc = f1 -> F_of K n d fc = f2 -> f1 = f2.
Proof. congruence. Qed.

(* every file holds at least its first slot and at most its window *)
Corollary capacity_positive K n d fc : 0 < n -> 0 < d -> 0 < fc ->
  1 <= file_start (F_of K n d fc + fc) n d - file_start (F_of K n d fc) n d.
Proof. intros. pose proof (window K n d fc). lia. Qed.

Example layout_hyps_satisfiable :
  let K := 1500000000 * 200 / 3 + 17 in
  Dom K 200 3 /\ file_start (F_of K 200 3 400 + 400) 200 3 < H64.
Proof. vm_compute. repeat split; intros; discriminate. Qed.
