(* Basic facts about the writer models: rejection happens before any effect (C05), validation does
   not depend on the per-file iteration, the Python validation implies the C validation, and the
   counters identity of the Python front end (C19). *)
From Coq Require Import ZArith List Bool Lia.
From DRF Require Import Base.DivLemmas Model.LayoutSpec Model.IndexCalc Model.WriterCore Model.PyWriter.
Import ListNotations.
Local Open Scope Z_scope.

(* ------------------------------------------------------------------ validation is a function of the arrays *)

Fixpoint bad_blocks (first : bool) (vlen pidx psmp : Z) (bl : list (Z * Z)) : bool :=
  match bl with
  | [] => false
  | (g, dx) :: tl =>
    (dx >=? vlen)
    || (negb first && ((pidx >=? dx) || (psmp >=? g) || ((dx - pidx) >? (g - psmp))))
    || bad_blocks false vlen dx g tl
  end.

Lemma pass1_err bl : forall first cf vlen next last st, p_err st = false ->
  p_err (pass1_loop first cf vlen next last bl st) = bad_blocks first vlen (p_pidx st) (p_psmp st) bl.
Proof.
  induction bl as [|[g dx] tl IH]; intros first cf vlen next last st Hst; cbn [pass1_loop bad_blocks].
  - exact Hst.
  - destruct (dx >=? vlen) eqn:E1; cbn [orb p_err]; [reflexivity|].
    destruct first; cbn [negb andb orb].
    + rewrite IH by reflexivity. reflexivity.
    + destruct (p_pidx st >=? dx) eqn:E2; cbn [orb p_err]; [reflexivity|].
      destruct (p_psmp st >=? g) eqn:E3; cbn [orb p_err]; [reflexivity|].
      destruct (dx - p_pidx st >? g - p_psmp st) eqn:E4; cbn [orb p_err]; [reflexivity|].
      rewrite IH by reflexivity. reflexivity.
Qed.

Definition valid_arrays (gi vlen : Z) (bl : list (Z * Z)) : bool :=
  match bl with
  | [] => false
  | (g0, d0) :: _ => (d0 =? 0) && negb (g0 <? gi) && negb (bad_blocks true vlen 0 0 bl)
  end.

(* create_rf_data_index rejects exactly the malformed arrays, whatever the iteration (sw > 0) *)
Lemma crdi_none_iff start gi chunk cont sw left cap bl vlen next fe :
  create_rf_data_index start gi chunk cont sw left cap bl vlen next fe = None <->
  match bl with
  | [] => True
  | (g0, _) :: _ => ((sw =? 0) && (g0 <? gi)) || bad_blocks true vlen 0 0 bl = true
  end.
Proof.
  unfold create_rf_data_index. destruct bl as [|[g0 d0] tl]; [tauto|].
  destruct ((sw =? 0) && (g0 <? gi)) eqn:E0; cbn [orb]; [tauto|].
  rewrite pass1_err by reflexivity. cbn [p_pidx p_psmp].
  destruct (bad_blocks true vlen 0 0 ((g0, d0) :: tl)) eqn:Eb; [tauto|].
  split; [|discriminate].
  destruct (p_rows _ =? 0); discriminate.
Qed.

(* ------------------------------------------------------------------ C05: rejection precedes any effect *)

Lemma write_blocks_reject_noop c st bl vec rc st' :
  write_blocks c st bl vec = (rc, st') -> rc = -1 \/ rc = -3 \/ rc = -4 -> st' = st.
Proof.
  unfold write_blocks. intros H Hrc.
  destruct (w_failed st); [inversion H; reflexivity|].
  destruct bl as [|[g0 d0] tl]; [inversion H; subst; lia|].
  destruct (g0 <? w_gi st); [inversion H; reflexivity|].
  destruct (c_cont c && negb match tl with [] => true | _ => false end); [inversion H; reflexivity|].
  (* the loop never returns -1, -3 or -4 *)
  exfalso. revert H. generalize (S (length vec)) as fuel. generalize 0 as sw. generalize st as s0.
  intros s0 sw fuel. revert s0 sw. induction fuel as [|fuel IH]; intros s0 sw; cbn [write_loop].
  - destruct (sw <? Z.of_nat (length vec)); intros H; inversion H; subst; lia.
  - destruct (sw <? Z.of_nat (length vec)); [|intros H; inversion H; subst; lia].
    destruct (write_samples_to_file c s0 sw ((g0, d0) :: tl) vec) as [[k|] s1].
    + destruct (k =? 0); [intros H; inversion H; subst; lia|]. apply IH.
    + intros H; inversion H; subst; lia.
Qed.

(* malformed arrays: the very first per-file step fails and leaves the state untouched *)
Lemma malformed_first_step_noop c st bl vec :
  valid_arrays (w_gi st) (Z.of_nat (length vec)) bl = false ->
  write_samples_to_file c st 0 bl vec = (Fail, st).
Proof.
  unfold valid_arrays, write_samples_to_file. destruct bl as [|[g0 d0] tl]; [reflexivity|].
  intros H. destruct (d0 =? 0) eqn:Ed; cbn [negb]; [|reflexivity].
  cbn [andb] in H.
  match goal with |- context [create_rf_data_index ?a ?b ?c0 ?d ?e ?f ?g ?h ?i ?j ?k] =>
    assert (E : create_rf_data_index a b c0 d e f g h i j k = None) end.
  { apply crdi_none_iff. cbn [Z.eqb andb].
    destruct (g0 <? w_gi st); cbn [negb andb orb] in *; [reflexivity|].
    destruct (bad_blocks true (Z.of_nat (length vec)) 0 0 ((g0, d0) :: tl)); [reflexivity|discriminate]. }
  rewrite E. reflexivity.
Qed.

Theorem c_malformed_call_changes_nothing c st bl vec :
  valid_arrays (w_gi st) (Z.of_nat (length vec)) bl = false ->
  exists rc, rc <> 0 /\ write_blocks c st bl vec = (rc, st) \/ (vec = [] /\ write_blocks c st bl vec = (rc, st)).
Proof.
  intros Hbad. unfold write_blocks.
  destruct (w_failed st); [exists (-1); left; split; [lia|reflexivity]|].
  destruct bl as [|[g0 d0] tl]; [exists (-6); left; split; [lia|reflexivity]|].
  destruct (g0 <? w_gi st) eqn:Eg; [exists (-3); left; split; [lia|reflexivity]|].
  destruct (c_cont c && negb match tl with [] => true | _ => false end); [exists (-4); left; split; [lia|reflexivity]|].
  cbn [write_loop].
  destruct (0 <? Z.of_nat (length vec)) eqn:El.
  - rewrite (malformed_first_step_noop c st _ vec Hbad). exists (-6). left. split; [lia|reflexivity].
  - exists 0. right. split; [|reflexivity]. destruct vec; [reflexivity|]. cbn in El. discriminate.
Qed.

(* ------------------------------------------------------------------ Python front end *)

Lemma py_rf_write_reject_noop gr c ps ns vec cls ret ps' :
  py_rf_write gr c ps ns vec = ((cls, ret), ps') -> cls = ValueError \/ cls = IOError -> ps' = ps.
Proof.
  unfold py_rf_write, ValueError, IOError, RuntimeError, OK. intros H Hc.
  destruct (_ <? p_next ps); [inversion H; reflexivity|].
  destruct (p_closed ps); [inversion H; reflexivity|].
  destruct (write_one c (p_w ps) _ vec) as [rc w'].
  destruct (negb (rc =? 0)); inversion H; subst; lia.
Qed.

Lemma py_rf_write_blocks_reject_noop c ps G D vec cls ret ps' :
  py_rf_write_blocks c ps G D vec = ((cls, ret), ps') -> cls = ValueError \/ cls = IOError -> ps' = ps.
Proof.
  unfold py_rf_write_blocks, ValueError, IOError, RuntimeError, OK. intros H Hc.
  destruct G as [|g0 G']; [inversion H; reflexivity|].
  destruct D as [|d0 D']; [inversion H; reflexivity|].
  repeat match type of H with
  | (if ?b then _ else _) = _ => destruct b; [inversion H; reflexivity|]
  end.
  destruct (if c_cont c && _ then _ else _) as [rc w'].
  destruct (negb (rc =? 0)); inversion H; subst; lia.
Qed.

(* counters identity, for every history of calls (accepted, rejected or failed) *)
Inductive pyop :=
| OpWrite (ns : option Z) (vec : list Z)
| OpBlocks (G D : list Z) (vec : list Z)
| OpClose.

Definition py_step (c : cfg) (ps : pystate) (op : pyop) : pystate :=
  match op with
  | OpWrite ns vec => snd (py_rf_write FromCursor c ps ns vec)
  | OpBlocks G D vec => snd (py_rf_write_blocks c ps G D vec)
  | OpClose => py_close ps
  end.

Definition counters_ok (ps : pystate) : Prop := p_written ps + p_gap ps = p_next ps.

Lemma py_step_counters c ps op : counters_ok ps -> counters_ok (py_step c ps op).
Proof.
  unfold counters_ok. intros H. destruct op as [ns vec|G D vec|]; cbn [py_step].
  - unfold py_rf_write.
    destruct (_ <? p_next ps); [exact H|]. destruct (p_closed ps); [exact H|].
    destruct (write_one c (p_w ps) _ vec) as [rc w']. destruct (negb (rc =? 0)); cbn; lia.
  - unfold py_rf_write_blocks.
    destruct G as [|g0 G']; [exact H|]. destruct D as [|d0 D']; [exact H|].
    repeat match goal with
    | |- context [if ?b then ((ValueError, _), ps) else _] => destruct b; [exact H|]
    | |- context [if ?b then ((IOError, _), ps) else _] => destruct b; [exact H|]
    end.
    destruct (if c_cont c && _ then _ else _) as [rc w']. destruct (negb (rc =? 0)); cbn; lia.
  - unfold py_close. destruct (p_closed ps); cbn; exact H.
Qed.

Theorem counters_sum_all_histories c ops :
  counters_ok (fold_left (py_step c) ops py_init).
Proof.
  assert (G : forall ps, counters_ok ps -> counters_ok (fold_left (py_step c) ops ps)).
  { induction ops as [|op ops IH]; intros ps H; cbn [fold_left]; [exact H|].
    apply IH. apply py_step_counters. exact H. }
  apply G. reflexivity.
Qed.

(* ------------------------------------------------------------------ Python validation implies C validation *)

Definition py_arrays_ok (next vlen : Z) (G D : list Z) : bool :=
  match G, D with
  | g0 :: _, d0 :: _ =>
    negb (g0 <? next) && (d0 =? 0) && Nat.eqb (length G) (length D)
    && negb (existsb (fun x => x <? 1) (diffs D)) && negb (existsb (fun x => x <? 1) (diffs G))
    && negb (last D 0 >=? vlen) && negb (any2 Z.gtb (diffs D) (diffs G))
  | _, _ => false
  end.

Lemma last_cons_ge d D : existsb (fun x => x <? 1) (diffs (d :: D)) = false -> d <= last (d :: D) 0.
Proof.
  revert d. induction D as [|e D IH]; intros d H; [cbn; lia|].
  cbn [diffs existsb] in H. apply orb_false_iff in H as [H1 H2].
  specialize (IH e H2). change (last (d :: e :: D) 0) with (last (e :: D) 0).
  apply Z.ltb_ge in H1. lia.
Qed.

Lemma py_ok_tail vlen : forall G D g d,
  length G = length D ->
  existsb (fun x => x <? 1) (diffs (d :: D)) = false ->
  existsb (fun x => x <? 1) (diffs (g :: G)) = false ->
  last (d :: D) 0 < vlen ->
  any2 Z.gtb (diffs (d :: D)) (diffs (g :: G)) = false ->
  bad_blocks false vlen d g (combine G D) = false.
Proof.
  induction G as [|g' G IH]; intros D g d Hl HD HG Hlast Hov; [reflexivity|].
  destruct D as [|d' D]; [discriminate|].
  cbn [combine bad_blocks negb andb].
  cbn [diffs existsb] in HD, HG. apply orb_false_iff in HD as [HD1 HD2]. apply orb_false_iff in HG as [HG1 HG2].
  cbn [diffs any2] in Hov. apply orb_false_iff in Hov as [Ho1 Ho2].
  change (last (d :: d' :: D) 0) with (last (d' :: D) 0) in Hlast.
  pose proof (last_cons_ge d' D HD2) as Hle.
  apply Z.ltb_ge in HD1, HG1.
  rewrite Z.gtb_ltb in Ho1. apply Z.ltb_ge in Ho1.
  assert (E1 : (d' >=? vlen) = false) by (rewrite Z.geb_leb; apply Z.leb_gt; lia).
  assert (E2 : (d >=? d') = false) by (rewrite Z.geb_leb; apply Z.leb_gt; lia).
  assert (E3 : (g >=? g') = false) by (rewrite Z.geb_leb; apply Z.leb_gt; lia).
  assert (E4 : (d' - d >? g' - g) = false) by (rewrite Z.gtb_ltb; apply Z.ltb_ge; lia).
  rewrite E1, E2, E3, E4. cbn [orb].
  apply IH; try assumption. cbn in Hl. lia.
Qed.

Theorem py_valid_implies_c_valid next vlen G D :
  py_arrays_ok next vlen G D = true -> valid_arrays next vlen (combine G D) = true.
Proof.
  unfold py_arrays_ok, valid_arrays. destruct G as [|g0 G]; [discriminate|]. destruct D as [|d0 D]; [discriminate|].
  intros H. repeat (apply andb_true_iff in H as [H ?]).
  cbn [combine].
  repeat match goal with Hx : negb _ = true |- _ => apply negb_true_iff in Hx end.
  match goal with Hx : (d0 =? 0) = true |- _ => rewrite Hx end.
  match goal with Hx : (g0 <? next) = false |- _ => rewrite Hx end.
  cbn [negb andb bad_blocks orb].
  match goal with Hx : (last (d0 :: D) 0 >=? vlen) = false |- _ => rewrite Z.geb_leb in Hx; apply Z.leb_gt in Hx; rename Hx into Hlast end.
  match goal with Hx : existsb _ (diffs (d0 :: D)) = false |- _ => pose proof (last_cons_ge d0 D Hx) as Hle; rename Hx into HD end.
  assert (E1 : (d0 >=? vlen) = false) by (rewrite Z.geb_leb; apply Z.leb_gt; lia).
  rewrite E1. cbn [orb].
  rewrite py_ok_tail; try assumption; [reflexivity|].
  match goal with Hx : Nat.eqb _ _ = true |- _ => apply Nat.eqb_eq in Hx; cbn in Hx; lia end.
Qed.
