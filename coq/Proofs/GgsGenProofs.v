(* digital_rf_get_global_sample regenerated from the C source with its unsigned 64-bit arithmetic
   (Gen/GgsGen.v, translator T12) equals the hand transcription Model/IndexCalc.v (unbounded Z) on every
   input the writer can pass: non-negative entries, the first data index not beyond samples_written, and
   no overflow of global index + samples_written. *)
From Coq Require Import ZArith List Bool Lia.
From DRF Require Import Base.U64 Model.IndexCalc Gen.GgsGen.
Import ListNotations.
Local Open Scope Z_scope.

Definition row_ok (sw : Z) (r : Z * Z) : Prop := 0 <= fst r /\ 0 <= snd r /\ fst r + sw < W64.

Lemma step_exact sw g dx : 0 <= sw -> row_ok sw (g, dx) -> dx <= sw -> u64_add g (u64_sub sw dx) = g + (sw - dx).
Proof.
  intros Hs (Hg & Hd & Hb) Hle. cbn [fst snd] in *. unfold u64_add, u64_sub.
  rewrite (u64_small (sw - dx)) by (unfold W64 in *; lia). apply u64_small. unfold W64 in *. lia.
Qed.

Lemma ggs_loop_regen sw : 0 <= sw -> forall bl ret, Forall (row_ok sw) bl -> gen_ggs_loop sw bl ret = ggs_loop sw bl ret.
Proof.
  intros Hs. induction bl as [|[g dx] tl IH]; intros ret Hok; [reflexivity|].
  inversion Hok as [|? ? Hr Htl]; subst. cbn [gen_ggs_loop ggs_loop].
  destruct (sw <? dx) eqn:E; [reflexivity|]. apply Z.ltb_ge in E.
  rewrite (step_exact sw g dx Hs Hr E). apply IH. exact Htl.
Qed.

Theorem get_global_sample_regen sw bl : 0 <= sw -> Forall (row_ok sw) bl ->
  (match bl with (_, d0) :: _ => d0 <= sw | [] => True end) ->
  gen_get_global_sample sw bl = get_global_sample sw bl.
Proof.
  intros Hs Hok H0. destruct bl as [|[g0 d0] tl]; [reflexivity|].
  inversion Hok as [|? ? Hr Htl]; subst. cbn [gen_get_global_sample get_global_sample].
  rewrite (step_exact sw g0 d0 Hs Hr H0). apply ggs_loop_regen; assumption.
Qed.

Example regen_example : gen_get_global_sample 7 [(100, 0); (200, 5); (300, 9)] = 202 /\
                        get_global_sample 7 [(100, 0); (200, 5); (300, 9)] = 202.
Proof. vm_compute. split; reflexivity. Qed.
