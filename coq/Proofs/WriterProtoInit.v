(* Proofs/WriterProtoInit.v -- construction of the writer (digital_rf_handle_metadata, staged
   properties file) under an arbitrary fault oracle (C10):
   * the writer object is returned only when every operation on the properties file (other than the
     existence probe H5Fcreate makes, whose failure is the expected outcome) succeeded, and then
     drf_properties.h5 is a whole file: the channel can be opened by a reader;
   * when any of them fails, construction reports failure, no write call runs, and nothing is
     published: no path other than tmp.drf_properties.h5 exists (and that one only if its removal
     failed as well). *)
From Coq Require Import ZArith List Bool Lia.
From DRF Require Import Base.Fs Model.WriterProto Proofs.ProtoSafety Proofs.WriterProtoProofs Proofs.WriterFaultProofs.
Import ListNotations.
Local Open Scope Z_scope.

Lemma issue_trace F o w : w_trace (fst (issue F o w)) = (o, snd (issue F o w)) :: w_trace w.
Proof. Transparent issue. reflexivity. Opaque issue. Qed.

(* every operation so far, other than an existence probe, succeeded *)
Definition AllOk (w : W) : Prop :=
  forall o r, In (o, r) (w_trace w) -> (forall p, o <> Probe p) -> r = Ok.

(* nothing exists but (possibly) the staged properties file *)
Definition OnlyTmpProps (w : W) : Prop := forall p, p <> PProps true -> w_fs w p = None.

Definition tmp := PProps true.

Lemma res_ok_Ok r : res_ok r = true -> r = Ok.
Proof. destruct r; simpl; congruence. Qed.

Lemma allok_issue F o w :
  AllOk w -> res_ok (snd (issue F o w)) = true -> AllOk (fst (issue F o w)).
Proof.
  intros A H o' r Hin Hp. rewrite issue_trace in Hin. destruct Hin as [E|Hin]; [|eauto].
  inversion E; subst. now apply res_ok_Ok.
Qed.

Lemma allok_issue_probe F p w : AllOk w -> AllOk (fst (issue F (Probe p) w)).
Proof.
  intros A o' r Hin Hp. rewrite issue_trace in Hin. destruct Hin as [E|Hin]; [|eauto].
  inversion E; subst. exfalso. eapply Hp; reflexivity.
Qed.

Lemma not_allok_issue F o w :
  (forall p, o <> Probe p) -> res_ok (snd (issue F o w)) = false -> ~ AllOk (fst (issue F o w)).
Proof.
  intros Hp H A. specialize (A o (snd (issue F o w))). rewrite issue_trace in A.
  rewrite (A (or_introl eq_refl) Hp) in H. discriminate H.
Qed.

(* the trace only grows: a failure stays visible *)
Definition Ext (w w' : W) : Prop := forall x, In x (w_trace w) -> In x (w_trace w').
Lemma ext_refl w : Ext w w. Proof. intros x H; exact H. Qed.
Lemma ext_trans a b c : Ext a b -> Ext b c -> Ext a c.
Proof. intros H1 H2 x H; auto. Qed.
Lemma ext_issue F o w : Ext w (fst (issue F o w)).
Proof. intros x H. rewrite issue_trace. now right. Qed.
Lemma not_allok_ext w w' : Ext w w' -> ~ AllOk w -> ~ AllOk w'.
Proof. intros E N A. apply N. intros o r Hin Hp. apply (A o r); auto. Qed.

Lemma only_issue F o w :
  OnlyTmpProps w -> op_target o = tmp -> (forall p q, o <> Rename p q) -> OnlyTmpProps (fst (issue F o w)).
Proof.
  intros H Ht Hr p Hp. rewrite issue_fs, exec_other.
  - auto.
  - rewrite Ht. intros E. apply Hp. now rewrite <- E.
  - intros q E. eapply Hr; exact E.
Qed.

Lemma low_target kd p : op_target (low_op kd p) = p /\ (forall a b, low_op kd p <> Rename a b)
                        /\ (forall a, low_op kd p <> Probe a).
Proof. destruct kd; simpl; repeat split; intros; discriminate. Qed.

(* a failed rename changes nothing *)
Lemma failed_rename_fs F p q w :
  res_ok (snd (issue F (Rename p q) w)) = false -> w_fs (fst (issue F (Rename p q) w)) = w_fs w.
Proof.
  destruct (issue_cases F (Rename p q) w) as [[Hf Hr]|[Hf Hr]]; rewrite Hf, Hr; [|reflexivity].
  simpl. destruct (w_fs w p) as [[|c]|]; simpl; auto. discriminate.
Qed.

(* an operation that succeeded was not faulted *)
Lemma ok_issue_apply F o w :
  res_ok (snd (issue F o w)) = true ->
  w_fs (fst (issue F o w)) = fst (apply o (w_fs w)) /\ snd (apply o (w_fs w)) = Ok.
Proof.
  destruct (issue_cases F o w) as [[Hf Hr]|[Hf Hr]]; rewrite Hr; [|discriminate].
  intros H. split; auto. now apply res_ok_Ok.
Qed.

Definition Staging (w : W) : Prop := w_fs w tmp = Some (File (Partial false)).

Lemma staging_low F kd w :
  Staging w -> res_ok (snd (issue F (low_op kd tmp) w)) = true -> Staging (fst (issue F (low_op kd tmp) w)).
Proof.
  unfold Staging. intros S H. destruct (ok_issue_apply _ _ _ H) as [Hf _]. rewrite Hf.
  destruct kd; simpl; rewrite S; simpl; exact S.
Qed.

(* ---------------------------------------------------------------- the two loops *)
Lemma create_lows_spec F l : forall w w' st,
  props_create_lows F tmp l w = (w', st) ->
  Ext w w' /\ (OnlyTmpProps w -> OnlyTmpProps w') /\
  match st with
  | Go => (AllOk w -> AllOk w') /\ (Staging w -> Staging w')
  | Abort => ~ AllOk w'
  end.
Proof.
  induction l as [|kd l IH]; simpl; intros w w' st H.
  - inversion H; subst. repeat split; auto using ext_refl.
  - rewrite (surjective_pairing (issue F _ w)) in H.
    destruct (low_target kd tmp) as (T1 & T2 & T3).
    destruct (res_ok (snd (issue F (low_op kd tmp) w))) eqn:R.
    + destruct (IH _ _ _ H) as (E & O & S). split; [|split].
      * eapply ext_trans; [apply ext_issue | exact E].
      * intros X. apply O, only_issue; auto.
      * destruct st; auto. destruct S as [S1 S2]. split; intros X.
        -- apply S1, allok_issue; auto.
        -- apply S2, staging_low; auto.
    + inversion H; subst. split; [apply ext_issue | split].
      * intros X. apply only_issue; auto.
      * apply not_allok_issue; auto.
Qed.

Lemma close_lows_spec F l : forall w w' ok,
  props_close_lows F tmp l w = (w', ok) ->
  Ext w w' /\ (OnlyTmpProps w -> OnlyTmpProps w') /\
  if ok then (AllOk w -> AllOk w') /\ (Staging w -> Staging w') else ~ AllOk w'.
Proof.
  induction l as [|kd l IH]; simpl; intros w w' ok H.
  - inversion H; subst. repeat split; auto using ext_refl.
  - rewrite (surjective_pairing (issue F _ w)) in H.
    destruct (low_target kd tmp) as (T1 & T2 & T3).
    destruct (props_close_lows F tmp l (fst (issue F (low_op kd tmp) w))) as [w2 ok2] eqn:E2.
    inversion H; subst. clear H.
    destruct (IH _ _ _ E2) as (E & O & S). split; [|split].
    + eapply ext_trans; [apply ext_issue | exact E].
    + intros X. apply O, only_issue; auto.
    + destruct (res_ok (snd (issue F (low_op kd tmp) w))) eqn:R; simpl.
      * destruct ok2; auto. destruct S as [S1 S2]. split; intros X.
        -- apply S1, allok_issue; auto.
        -- apply S2, staging_low; auto.
      * eapply not_allok_ext; [exact E | apply not_allok_issue; auto].
Qed.

(* ---------------------------------------------------------------- construction *)
Lemma allok_W0 : AllOk W0. Proof. intros o r []. Qed.
Lemma only_W0 : OnlyTmpProps W0. Proof. intros p _. reflexivity. Qed.

Ltac tmp_op := first [reflexivity | intros; discriminate].

Theorem init_staged_spec F c rc w ok :
  init F (mkVar Staged c) rc W0 = (w, ok) ->
  if ok then AllOk w /\ w_fs w (PProps false) = Some (File (Complete 0))
  else ~ AllOk w /\ OnlyTmpProps w.
Proof.
  unfold init. change (probe (w_fs W0) (PProps false)) with Absent. cbv beta iota. simpl v_props. cbv iota.
  fold tmp.
  rewrite (surjective_pairing (issue F (Probe tmp) W0)).
  set (w1 := fst (issue F (Probe tmp) W0)).
  assert (A1 : AllOk w1) by (apply allok_issue_probe, allok_W0).
  assert (O1 : OnlyTmpProps w1) by (apply only_issue; [apply only_W0 | tmp_op..]).
  rewrite (surjective_pairing (issue F (CreateTrunc tmp) w1)).
  set (w2 := fst (issue F (CreateTrunc tmp) w1)).
  assert (O2 : OnlyTmpProps w2) by (apply only_issue; [exact O1 | tmp_op..]).
  destruct (res_ok (snd (issue F (CreateTrunc tmp) w1))) eqn:R2; simpl negb; cbv iota.
  2:{ intros H; inversion H; subst. split; [|exact O2]. apply not_allok_issue; [tmp_op | exact R2]. }
  assert (A2 : AllOk w2) by (apply allok_issue; auto).
  assert (S2 : Staging w2).
  { unfold Staging, w2. destruct (ok_issue_apply _ _ _ R2) as [Hf Hr]. rewrite Hf.
    simpl in *. destruct (w_fs w1 tmp) as [[|c0]|]; simpl in *; try discriminate; apply upd_same. }
  destruct (props_create_lows F tmp (r_props_create rc) w2) as [w3 st] eqn:E3.
  destruct (create_lows_spec _ _ _ _ _ E3) as (X3 & O3 & P3). specialize (O3 O2).
  destruct st.
  2:{ intros H; inversion H; subst. split.
      - eapply not_allok_ext; [apply ext_issue | exact P3].
      - apply only_issue; [exact O3 | tmp_op..]. }
  destruct P3 as [A3 S3]. specialize (A3 A2). specialize (S3 S2).
  destruct (props_close_lows F tmp (r_props_close rc) w3) as [w4 ok4] eqn:E4.
  destruct (close_lows_spec _ _ _ _ _ E4) as (X4 & O4 & P4). specialize (O4 O3).
  rewrite (surjective_pairing (issue F (CloseFd tmp 0) w4)).
  set (w5 := fst (issue F (CloseFd tmp 0) w4)).
  assert (O5 : OnlyTmpProps w5) by (apply only_issue; [exact O4 | tmp_op..]).
  destruct ok4; simpl andb.
  2:{ intros H; inversion H; subst. split.
      - eapply not_allok_ext; [eapply ext_trans; apply ext_issue | exact P4].
      - apply only_issue; [exact O5 | tmp_op..]. }
  destruct P4 as [A4 S4]. specialize (A4 A3). specialize (S4 S3).
  destruct (res_ok (snd (issue F (CloseFd tmp 0) w4))) eqn:R5.
  2:{ intros H; inversion H; subst. split.
      - eapply not_allok_ext; [apply ext_issue | apply not_allok_issue; [tmp_op | exact R5]].
      - apply only_issue; [exact O5 | tmp_op..]. }
  assert (A5 : AllOk w5) by (apply allok_issue; auto).
  assert (C5 : w_fs w5 tmp = Some (File (Complete 0))).
  { unfold w5. destruct (ok_issue_apply _ _ _ R5) as [Hf _]. rewrite Hf. simpl. rewrite S4. apply upd_same. }
  rewrite (surjective_pairing (issue F (Rename tmp (PProps false)) w5)).
  set (w6 := fst (issue F (Rename tmp (PProps false)) w5)).
  destruct (res_ok (snd (issue F (Rename tmp (PProps false)) w5))) eqn:R6.
  - intros H; inversion H; subst. split; [apply allok_issue; auto|].
    destruct (ok_issue_apply _ _ _ R6) as [Hf _]. unfold w6. rewrite Hf. simpl. rewrite C5. apply upd_same.
  - intros H; inversion H; subst. split.
    + eapply not_allok_ext; [apply ext_issue | apply not_allok_issue; [tmp_op | exact R6]].
    + apply only_issue; [|tmp_op..]. intros p Hp. unfold w6. rewrite failed_rename_fs by exact R6. auto.
Qed.

(* some operation of the construction other than the existence probe failed *)
Definition construction_op_failed (F : fault) (v : variant) (rc : recording) : Prop :=
  exists o e, In (o, Err e) (w_trace (fst (init F v rc W0))) /\ forall p, o <> Probe p.

(* construction under a fault on the properties-file operations reports failure, runs no write call and
   publishes nothing *)
Theorem construction_fault_reported F c rc :
  construction_op_failed F (mkVar Staged c) rc ->
  let r := wrun F (mkVar Staged c) rc in
  rs_init r = false /\ rs_out r = [] /\ rs_w r = fst (init F (mkVar Staged c) rc W0) /\
  forall p, p <> PProps true -> w_fs (rs_w r) p = None.
Proof.
  intros (o & e & Hin & Hp). unfold wrun. destruct (init F (mkVar Staged c) rc W0) as [w ok] eqn:Ei.
  pose proof (init_staged_spec _ _ _ _ _ Ei) as S. simpl in Hin. destruct ok.
  - destruct S as [A _]. specialize (A o (Err e) Hin Hp). discriminate A.
  - destruct S as [_ O]. simpl. repeat split; auto.
Qed.

(* a constructed writer has published a whole drf_properties.h5: a reader can open the channel *)
Theorem constructed_channel_opens F c rc :
  rs_init (wrun F (mkVar Staged c) rc) = true ->
  open_channel (w_fs (fst (init F (mkVar Staged c) rc W0))) = true.
Proof.
  unfold wrun. destruct (init F (mkVar Staged c) rc W0) as [w ok] eqn:Ei.
  pose proof (init_staged_spec _ _ _ _ _ Ei) as S. destruct ok.
  - intros _. destruct S as [_ E]. simpl. unfold open_channel, probe. now rewrite E.
  - simpl. discriminate.
Qed.

(* non-vacuity: the recording of the refutation witnesses; operations 2..6 of the construction are
   create, write, write, close, rename.  Failing any of them is a [construction_op_failed]; the probe
   (operation 1) is not; and without a fault the writer is constructed. *)
Example construction_faults_exist :
  Forall (fun n => exists o e, In (o, Err e) (w_trace (fst (init (Build_fault n false) (mkVar Staged Checked) wit_rec W0)))
                               /\ o <> Probe tmp /\ o <> Probe (PProps false))
         [2; 3; 4; 5; 6]%nat.
Proof.
  repeat constructor.
  - exists (CreateTrunc tmp), EINJ. vm_compute. repeat split; auto; discriminate.
  - exists (Write tmp), EINJ. vm_compute. repeat split; auto; discriminate.
  - exists (Write tmp), EINJ. vm_compute. repeat split; auto; discriminate.
  - exists (CloseFd tmp 0), EINJ. vm_compute. repeat split; auto; discriminate.
  - exists (Rename tmp (PProps false)), EINJ. vm_compute. repeat split; auto; discriminate.
Qed.

Example construction_ok_example :
  rs_init (wrun no_fault (mkVar Staged Checked) wit_rec) = true /\
  rs_init (wrun (Build_fault 1 false) (mkVar Staged Checked) wit_rec) = true /\
  rs_init (wrun (Build_fault 6 false) (mkVar Staged Checked) wit_rec) = false /\
  w_fs (rs_w (wrun (Build_fault 6 true) (mkVar Staged Checked) wit_rec)) (PProps true) = Some (File (Complete 0)).
Proof. vm_compute. repeat split; reflexivity. Qed.
