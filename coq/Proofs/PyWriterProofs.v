(* The public Python writer on top of the refinement theorems: after any history of rf_write calls
   the value returned by each accepted call is the next available sample, which is the Spec cursor
   (one past the highest index written); rejected calls return ValueError and change nothing. *)
From Coq Require Import ZArith List Bool Lia.
From DRF Require Import Model.IndexCalc Model.WriterCore Model.PyWriter
  Proofs.WriterBasics Proofs.WriterInv Proofs.WriterInvU.
Import ListNotations.
Local Open Scope Z_scope.

Section Lift.
  Variable c : cfg.
  Variable R : wstate -> spec -> Prop.
  Hypothesis R_cur : forall st s, R st s -> w_gi st = s_cur s.
  Hypothesis R_call : forall st s g vec, 0 <= g -> R st s ->
    if g <? w_gi st then write_one c st g vec = (-3, st)
    else exists st', write_one c st g vec = (0, st') /\ R st' (spec_step c s (g, vec)).

  Definition resolve (s : spec) (ns : option Z) : Z := match ns with Some x => x | None => s_cur s end.

  Definition PyInv (ps : pystate) (s : spec) : Prop :=
    p_closed ps = false /\ R (p_w ps) s /\ p_next ps = s_cur s /\ 0 <= s_cur s.

  (* one rf_write call *)
  Lemma py_write_step ps s ns vec : PyInv ps s -> 0 <= resolve s ns ->
    let g := resolve s ns in
    let '((cls, ret), ps') := py_rf_write FromCursor c ps ns vec in
    if g <? s_cur s
    then cls = ValueError /\ ps' = ps                       (* at or before a written index *)
    else cls = OK /\ ret = s_cur (spec_step c s (g, vec)) /\ PyInv ps' (spec_step c s (g, vec)).
  Proof.
    intros (Hcl & HR & Hn & H0) Hg g. unfold py_rf_write.
    assert (Eg : match ns with Some x => x | None => p_next ps end = g).
    { unfold g, resolve. destruct ns; [reflexivity|exact Hn]. }
    rewrite Eg, Hn.
    destruct (g <? s_cur s) eqn:El; [split; reflexivity|].
    rewrite Hcl.
    pose proof (R_call (p_w ps) s g vec Hg HR) as Hc. rewrite (R_cur _ _ HR), El in Hc.
    destruct Hc as (st' & Hw & HR'). rewrite Hw. cbn [Z.eqb negb].
    pose proof (R_cur _ _ HR') as Hcur'.
    split; [reflexivity|]. split; [exact Hcur'|].
    unfold PyInv. cbn [p_closed p_w p_next]. split; [reflexivity|]. split; [exact HR'|]. split; [exact Hcur'|].
    unfold spec_step. rewrite El. cbn [s_cur]. apply Z.ltb_ge in El.
    destruct (zlen vec =? 0); [lia|unfold zlen; lia].
  Qed.

  Definition spec_step_opt (s : spec) (op : option Z * list Z) : spec :=
    spec_step c s (resolve s (fst op), snd op).

  Definition py_write_state (ps : pystate) (op : option Z * list Z) : pystate :=
    snd (py_rf_write FromCursor c ps (fst op) (snd op)).

  Theorem py_history ops : forall ps s, PyInv ps s ->
    Forall (fun op => match fst op with Some x => 0 <= x | None => True end) ops ->
    PyInv (fold_left py_write_state ops ps) (fold_left spec_step_opt ops s).
  Proof.
    induction ops as [|[ns vec] ops IH]; intros ps s HI Hops; cbn [fold_left]; [exact HI|].
    inversion Hops as [|? ? Hop Hops']; subst. cbn [fst] in Hop.
    assert (Hg : 0 <= resolve s ns) by (destruct ns; cbn; [exact Hop|destruct HI as (_ & _ & _ & H); exact H]).
    pose proof (py_write_step ps s ns vec HI Hg) as H.
    unfold py_write_state, spec_step_opt. cbn [fst snd].
    destruct (py_rf_write FromCursor c ps ns vec) as [[cls ret] ps'].
    cbv beta iota zeta in H. cbn [snd]. apply IH; [|exact Hops'].
    destruct (resolve s ns <? s_cur s) eqn:El.
    - destruct H as (_ & ->). unfold spec_step. rewrite El. exact HI.
    - destruct H as (_ & _ & H). exact H.
  Qed.
End Lift.

(* instances *)
Lemma chunked_R_call c : vcfg c -> c_chunk c = true ->
  forall st s g vec, 0 <= g -> refines c st s ->
    if g <? w_gi st then write_one c st g vec = (-3, st)
    else exists st', write_one c st g vec = (0, st') /\ refines c st' (spec_step c s (g, vec)).
Proof.
  intros Hc Hch st s g vec Hg HR.
  pose proof (refines_step c st s (g, vec) Hc Hch Hg HR) as Hs. unfold model_step in Hs. cbn [fst snd] in Hs.
  destruct HR as (HI & Hgi & Hlk).
  pose proof (write_one_chunked c st g vec Hc Hch HI Hg) as H.
  destruct (g <? w_gi st); [exact H|].
  destruct H as (st' & Hw & _). exists st'. split; [exact Hw|]. rewrite Hw in Hs. exact Hs.
Qed.

Lemma unchunked_R_call c : vcfg c -> c_chunk c = false -> c_cont c = true ->
  forall st s g vec, 0 <= g -> refines_u c st s ->
    if g <? w_gi st then write_one c st g vec = (-3, st)
    else exists st', write_one c st g vec = (0, st') /\ refines_u c st' (spec_step c s (g, vec)).
Proof.
  intros Hc Hch Hco st s g vec Hg HR.
  pose proof (refines_u_step c st s (g, vec) Hc Hch Hco Hg HR) as Hs. unfold model_step in Hs. cbn [fst snd] in Hs.
  pose proof (write_one_u c st g vec Hc Hch Hco (ru_inv _ _ _ HR) Hg) as H.
  destruct (g <? w_gi st); [exact H|].
  destruct H as (st' & Hw & _). exists st'. split; [exact Hw|]. rewrite Hw in Hs. exact Hs.
Qed.

Theorem py_rf_write_history_chunked c ops : vcfg c -> c_chunk c = true ->
  Forall (fun op => match fst op with Some x => 0 <= x | None => True end) ops ->
  PyInv (refines c) (fold_left (py_write_state c) ops py_init) (fold_left (spec_step_opt c) ops spec_init).
Proof.
  intros Hc Hch Hops. apply (py_history c (refines c)).
  - intros st s (_ & H & _). exact H.
  - apply chunked_R_call; assumption.
  - unfold PyInv. cbn. split; [reflexivity|]. split; [|split; [reflexivity|lia]].
    split; [apply Inv_init|]. split; [reflexivity|]. split; [reflexivity|exact I].
  - exact Hops.
Qed.

Theorem py_rf_write_history_unchunked c ops : vcfg c -> c_chunk c = false -> c_cont c = true ->
  Forall (fun op => match fst op with Some x => 0 <= x | None => True end) ops ->
  PyInv (refines_u c) (fold_left (py_write_state c) ops py_init) (fold_left (spec_step_opt c) ops spec_init).
Proof.
  intros Hc Hch Hco Hops. apply (py_history c (refines_u c)).
  - intros st s H. exact (ru_cur _ _ _ H).
  - apply unchunked_R_call; assumption.
  - unfold PyInv. cbn. split; [reflexivity|]. split; [|split; [reflexivity|lia]].
    constructor; cbn; try discriminate; [apply InvU_init|reflexivity|intros a []|exact I].
  - exact Hops.
Qed.

(* ------------------------------------------------------------------ rf_write_blocks, gapped mode *)
From DRF Require Import Proofs.WriterMultiIdx Proofs.WriterMulti.

(* the Python pre-validation is exactly py_arrays_ok *)
Lemma py_blocks_validation c ps G D vec :
  py_arrays_ok (p_next ps) (zlen vec) G D = false ->
  exists code, py_rf_write_blocks c ps G D vec = ((ValueError, code), ps).
Proof.
  unfold py_arrays_ok, py_rf_write_blocks. fold (zlen vec).
  destruct G as [|g0 G']; [intros _; eexists; reflexivity|].
  destruct D as [|d0 D']; [intros _; eexists; reflexivity|].
  intros H.
  destruct (g0 <? p_next ps); [eexists; reflexivity|].
  destruct (d0 =? 0); cbn [negb]; [|eexists; reflexivity].
  destruct (Nat.eqb (length (g0 :: G')) (length (d0 :: D'))); cbn [negb]; [|eexists; reflexivity].
  destruct (existsb (fun x => x <? 1) (diffs (d0 :: D'))); [eexists; reflexivity|].
  destruct (existsb (fun x => x <? 1) (diffs (g0 :: G'))); [eexists; reflexivity|].
  destruct (last (d0 :: D') 0 >=? zlen vec); [eexists; reflexivity|].
  destruct (any2 Z.gtb (diffs (d0 :: D')) (diffs (g0 :: G'))); [eexists; reflexivity|].
  cbn in H. discriminate.
Qed.

Lemma py_blocks_accepted c ps G D vec :
  py_arrays_ok (p_next ps) (zlen vec) G D = true -> p_closed ps = false ->
  py_rf_write_blocks c ps G D vec =
    (let '(rc, w') := if c_cont c && (1 <? Z.of_nat (length G)) then split_blocks c (p_w ps) G D vec (zlen vec)
                      else write_blocks c (p_w ps) (combine G D) vec in
     if negb (rc =? 0) then ((RuntimeError, 0), mkPy (p_next ps) (p_written ps) (p_gap ps) false w')
     else ((OK, w_gi w'), mkPy (w_gi w') (p_written ps + zlen vec) (p_gap ps + ((w_gi w' - p_next ps) - zlen vec)) false w')).
Proof.
  unfold py_arrays_ok, py_rf_write_blocks. fold (zlen vec).
  destruct G as [|g0 G']; [discriminate|]. destruct D as [|d0 D']; [discriminate|].
  intros H Hcl. repeat (apply andb_true_iff in H as [H ?]).
  repeat match goal with Hx : negb _ = true |- _ => apply negb_true_iff in Hx end.
  repeat match goal with Hx : _ = false |- _ => rewrite Hx end.
  repeat match goal with Hx : _ = true |- _ => rewrite Hx end.
  cbn [negb]. reflexivity.
Qed.

(* gapped mode: an rf_write_blocks call with arrays the Python validation accepts succeeds, returns the
   Spec cursor (one past the call's highest index) and keeps the refinement; any other call raises
   ValueError and changes nothing *)
Theorem py_rf_write_blocks_gapped c ps s G D vec :
  vcfg c -> c_chunk c = true -> c_cont c = false ->
  PyInv (refines c) ps s -> first_nonneg (combine G D) ->
  if py_arrays_ok (s_cur s) (zlen vec) G D
  then fst (py_rf_write_blocks c ps G D vec) = (OK, blocks_end (combine G D) (zlen vec)) /\
       PyInv (refines c) (snd (py_rf_write_blocks c ps G D vec)) (spec_step_blocks c s (combine G D, vec))
  else (exists code, py_rf_write_blocks c ps G D vec = ((ValueError, code), ps)).
Proof.
  intros Hc Hch Hco (Hcl & HR & Hn & H0) Hnn.
  destruct (py_arrays_ok (s_cur s) (zlen vec) G D) eqn:Eok.
  - rewrite <- Hn in Eok. rewrite (py_blocks_accepted c ps G D vec Eok Hcl). rewrite Hco. cbn [andb].
    pose proof (py_valid_implies_c_valid _ _ _ _ Eok) as Hv.
    destruct HR as (HI & Hgi & Hlk & Hso).
    rewrite Hn, <- Hgi in Hv.
    destruct (write_blocks_chunked c (p_w ps) (combine G D) vec Hc Hch HI Hv ltac:(rewrite Hco; reflexivity) Hnn)
      as (st' & Hw & HI' & Hgi' & Hso' & Hlk').
    rewrite Hw. cbn [Z.eqb negb fst snd]. rewrite Hgi'. split; [reflexivity|].
    unfold PyInv. cbn [p_closed p_w p_next]. split; [reflexivity|].
    assert (Ha : accepted c (s_cur s) (combine G D) vec = true).
    { unfold accepted. rewrite Hco. cbn [andb negb]. rewrite andb_true_r. rewrite <- Hgi. exact Hv. }
    unfold spec_step_blocks. rewrite Ha. cbn [s_cur s_map].
    split; [|split; [reflexivity|]].
    + split; [exact HI'|]. split; [cbn [s_cur]; exact Hgi'|]. split; [|exact (Hso' Hso)].
      intros k. cbn [s_map]. rewrite Hlk', Hlk. reflexivity.
    + (* the new cursor is >= 0: it is >= the old one *)
      destruct (valid_arrays_wf _ _ _ Hv) as (g0 & tl & E & Hge & Hvl & Hwf).
      rewrite E in *. cbn [blocks_end].
      destruct (rows_wf_end tl g0 0 (zlen vec) _ Hwf) as (Hwf' & _). cbn [first_nonneg] in Hnn.
      pose proof (rows_wf_first_lt_top tl (zlen vec) _ g0 0 Hwf'). lia.
  - rewrite <- Hn in Eok. exact (py_blocks_validation c ps G D vec Eok).
Qed.

(* ------------------------------------------------------------------ rf_write_blocks, continuous mode
   The C library accepts one block per call in continuous mode, so the extension splits the call into
   one digital_rf_write_hdf5 per block (py_rf_write_hdf5.c 265-288; split_blocks in the model).  For
   arrays that pass the Python validation every sub-call is accepted, and the call as a whole has the
   effect of the Spec steps of its blocks. *)

Fixpoint blocks_of (G D : list Z) (vec : list Z) (vlen : Z) : list (Z * list Z) :=
  match G, D with
  | g :: G', dx :: D' =>
    let nxt := match D' with d' :: _ => d' | [] => vlen end in
    (g, slice vec dx (nxt - dx)) :: blocks_of G' D' vec vlen
  | _, _ => []
  end.

Section LiftBlocks.
  Variable c : cfg.
  Variable R : wstate -> spec -> Prop.
  Hypothesis R_cur : forall st s, R st s -> w_gi st = s_cur s.
  Hypothesis R_call : forall st s g vec, 0 <= g -> R st s ->
    if g <? w_gi st then write_one c st g vec = (-3, st)
    else exists st', write_one c st g vec = (0, st') /\ R st' (spec_step c s (g, vec)).

  (* blocks are "ascending" w.r.t. a cursor: each starts at or after the end of the previous one *)
  Fixpoint ascending (cur : Z) (bs : list (Z * list Z)) : Prop :=
    match bs with
    | [] => True
    | (g, v) :: tl => cur <= g /\ 0 <= g /\ 0 < zlen v /\ ascending (g + zlen v) tl
    end.

  Lemma split_blocks_spec : forall G D vec vlen st s,
    length G = length D -> R st s -> ascending (s_cur s) (blocks_of G D vec vlen) ->
    exists st', split_blocks c st G D vec vlen = (0, st') /\
                R st' (fold_left (spec_step c) (blocks_of G D vec vlen) s).
  Proof.
    induction G as [|g G IH]; intros D vec vlen st s Hl HR Hasc.
    - destruct D; [|discriminate]. exists st. split; [reflexivity|exact HR].
    - destruct D as [|dx D]; [discriminate|]. cbn [split_blocks blocks_of fold_left] in *.
      set (nxt := match D with d' :: _ => d' | [] => vlen end) in *.
      destruct Hasc as (Hcur & Hg & Hlen & Hrest).
      pose proof (R_call st s g (slice vec dx (nxt - dx)) Hg HR) as Hc.
      rewrite (R_cur _ _ HR) in Hc.
      assert (E : (g <? s_cur s) = false) by (apply Z.ltb_ge; lia). rewrite E in Hc.
      destruct Hc as (st1 & Hw & HR1). rewrite Hw. cbn [Z.eqb negb].
      apply IH; [cbn in Hl; lia|exact HR1|].
      unfold spec_step. rewrite E. cbn [s_cur].
      assert (E0 : (zlen (slice vec dx (nxt - dx)) =? 0) = false) by (apply Z.eqb_neq; lia).
      rewrite E0. exact Hrest.
  Qed.
End LiftBlocks.

(* the Python validation makes the blocks ascending *)
Lemma py_ok_ascending next vec : forall G D,
  py_arrays_ok next (zlen vec) G D = true -> first_nonneg (combine G D) ->
  ascending next (blocks_of G D vec (zlen vec)).
Proof.
  intros G D Hok Hnn.
  pose proof (py_valid_implies_c_valid _ _ _ _ Hok) as Hv.
  destruct (valid_arrays_wf _ _ _ Hv) as (g0 & tl & E & Hge & Hvl & Hwf).
  (* recover G and D from the combined list with equal lengths *)
  unfold py_arrays_ok in Hok. destruct G as [|g G]; [discriminate|]. destruct D as [|d0 D]; [discriminate|].
  repeat (apply andb_true_iff in Hok as [Hok ?]).
  match goal with Hx : Nat.eqb _ _ = true |- _ => apply Nat.eqb_eq in Hx; rename Hx into Hlen end.
  cbn [combine] in E. injection E as Eg Ed Etl. subst g0. subst d0.
  cbn [first_nonneg combine] in Hnn.
  clear - Hwf Hge Hlen Etl Hnn Hvl.
  (* generalise over the running block *)
  assert (Gen : forall G1 D1 g1 d1 tl1 top cur, length G1 = length D1 -> combine G1 D1 = tl1 ->
            rows_wf ((g1, d1) :: tl1) (zlen vec) top -> cur <= g1 -> 0 <= g1 -> 0 <= d1 ->
            ascending cur (blocks_of (g1 :: G1) (d1 :: D1) vec (zlen vec))).
  { clear. induction G1 as [|g' G1 IH]; intros D1 g1 d1 tl1 top cur Hl Ec Hw Hc Hg Hd.
    - destruct D1; [|discriminate]. cbn [combine] in Ec. subst tl1. cbn [blocks_of ascending].
      cbn [rows_wf] in Hw.
      rewrite slice_length by lia. repeat split; try lia.
    - destruct D1 as [|d' D1]; [discriminate|]. cbn [combine] in Ec. subst tl1.
      cbn [blocks_of]. cbn [ascending].
      change (rows_wf ((g1, d1) :: (g', d') :: combine G1 D1) (zlen vec) top) in Hw.
      cbn [rows_wf] in Hw. destruct Hw as (H1 & H2 & H3).
      pose proof (rows_wf_offset_lt (combine G1 D1) (zlen vec) top g' d' H3) as Hod.
      rewrite slice_length by lia.
      split; [lia|]. split; [lia|]. split; [lia|].
      apply (IH D1 g' d' (combine G1 D1) top); try lia; [cbn in Hl; lia|reflexivity|exact H3]. }
  apply (Gen G D g 0 tl (rows_end g 0 tl (zlen vec)) next); try lia; [cbn in Hlen; lia|exact Etl|exact Hwf].
Qed.

(* the public rf_write_blocks in continuous mode (either layout): arrays that pass the Python
   validation are accepted; the call returns the cursor after its last block and has the effect of the
   Spec steps of its blocks; any other call raises ValueError and changes nothing *)
Theorem py_rf_write_blocks_continuous c (R : wstate -> spec -> Prop) ps s G D vec :
  (forall st s, R st s -> w_gi st = s_cur s) ->
  (forall st s g vec, 0 <= g -> R st s ->
     if g <? w_gi st then write_one c st g vec = (-3, st)
     else exists st', write_one c st g vec = (0, st') /\ R st' (spec_step c s (g, vec))) ->
  c_cont c = true -> (1 < length G)%nat ->
  PyInv R ps s -> first_nonneg (combine G D) ->
  if py_arrays_ok (s_cur s) (zlen vec) G D
  then exists st', snd (py_rf_write_blocks c ps G D vec) =
                     mkPy (w_gi st') (p_written ps + zlen vec) (p_gap ps + ((w_gi st' - p_next ps) - zlen vec)) false st' /\
                   fst (py_rf_write_blocks c ps G D vec) = (OK, w_gi st') /\
                   R st' (fold_left (spec_step c) (blocks_of G D vec (zlen vec)) s)
  else (exists code, py_rf_write_blocks c ps G D vec = ((ValueError, code), ps)).
Proof.
  intros Rcur Rcall Hco Hmulti (Hcl & HR & Hn & H0) Hnn.
  destruct (py_arrays_ok (s_cur s) (zlen vec) G D) eqn:Eok.
  - rewrite <- Hn in Eok. rewrite (py_blocks_accepted c ps G D vec Eok Hcl). rewrite Hco.
    assert (Em : (1 <? Z.of_nat (length G)) = true) by (apply Z.ltb_lt; lia). rewrite Em. cbn [andb].
    assert (Hlen : length G = length D).
    { unfold py_arrays_ok in Eok. destruct G; [discriminate|]. destruct D; [discriminate|].
      repeat (apply andb_true_iff in Eok as [Eok ?]).
      match goal with Hx : Nat.eqb _ _ = true |- _ => apply Nat.eqb_eq in Hx; exact Hx end. }
    rewrite Hn in Eok.
    destruct (split_blocks_spec c R Rcur Rcall G D vec (zlen vec) (p_w ps) s Hlen HR
                (py_ok_ascending _ vec G D Eok Hnn)) as (st' & Hsp & HR').
    rewrite Hsp. cbn [Z.eqb negb fst snd]. exists st'. auto.
  - rewrite <- Hn in Eok. exact (py_blocks_validation c ps G D vec Eok).
Qed.
