(* The public Python writer on top of the refinement theorems: after any history of rf_write calls
   the value returned by each accepted call is the next available sample, which is the Spec cursor
   (one past the highest index written); rejected calls return ValueError and change nothing. *)
From Coq Require Import ZArith List Bool Lia.
From DRF Require Import Model.IndexCalc Model.WriterCore Model.PyWriter
  Proofs.WriterBasics Proofs.WriterInv Proofs.WriterInvU.
Import ListNotations.
Local Open Scope Z_scope.

Section Lift.
  Variable c : cfg.
  Variable R : wstate -> spec -> Prop.
  Hypothesis R_cur : forall st s, R st s -> w_gi st = s_cur s.
  Hypothesis R_call : forall st s g vec, 0 <= g -> R st s ->
    if g <? w_gi st then write_one c st g vec = (-3, st)
    else exists st', write_one c st g vec = (0, st') /\ R st' (spec_step c s (g, vec)).

  Definition resolve (s : spec) (ns : option Z) : Z := match ns with Some x => x | None => s_cur s end.

  Definition PyInv (ps : pystate) (s : spec) : Prop :=
    p_closed ps = false /\ R (p_w ps) s /\ p_next ps = s_cur s /\ 0 <= s_cur s.

  (* one rf_write call *)
  Lemma py_write_step ps s ns vec : PyInv ps s -> 0 <= resolve s ns ->
    let g := resolve s ns in
    let '((cls, ret), ps') := py_rf_write FromCursor c ps ns vec in
    if g <? s_cur s
    then cls = ValueError /\ ps' = ps                       (* at or before a written index *)
    else cls = OK /\ ret = s_cur (spec_step c s (g, vec)) /\ PyInv ps' (spec_step c s (g, vec)).
  Proof.
    intros (Hcl & HR & Hn & H0) Hg g. unfold py_rf_write.
    assert (Eg : match ns with Some x => x | None => p_next ps end = g).
    { unfold g, resolve. destruct ns; [reflexivity|exact Hn]. }
    rewrite Eg, Hn.
    destruct (g <? s_cur s) eqn:El; [split; reflexivity|].
    rewrite Hcl.
    pose proof (R_call (p_w ps) s g vec Hg HR) as Hc. rewrite (R_cur _ _ HR), El in Hc.
    destruct Hc as (st' & Hw & HR'). rewrite Hw. cbn [Z.eqb negb].
    pose proof (R_cur _ _ HR') as Hcur'.
    split; [reflexivity|]. split; [exact Hcur'|].
    unfold PyInv. cbn [p_closed p_w p_next]. split; [reflexivity|]. split; [exact HR'|]. split; [exact Hcur'|].
    unfold spec_step. rewrite El. cbn [s_cur]. apply Z.ltb_ge in El.
    destruct (zlen vec =? 0); [lia|unfold zlen; lia].
  Qed.

  Definition spec_step_opt (s : spec) (op : option Z * list Z) : spec :=
    spec_step c s (resolve s (fst op), snd op).

  Definition py_write_state (ps : pystate) (op : option Z * list Z) : pystate :=
    snd (py_rf_write FromCursor c ps (fst op) (snd op)).

  Theorem py_history ops : forall ps s, PyInv ps s ->
    Forall (fun op => match fst op with Some x => 0 <= x | None => True end) ops ->
    PyInv (fold_left py_write_state ops ps) (fold_left spec_step_opt ops s).
  Proof.
    induction ops as [|[ns vec] ops IH]; intros ps s HI Hops; cbn [fold_left]; [exact HI|].
    inversion Hops as [|? ? Hop Hops']; subst. cbn [fst] in Hop.
    assert (Hg : 0 <= resolve s ns) by (destruct ns; cbn; [exact Hop|destruct HI as (_ & _ & _ & H); exact H]).
    pose proof (py_write_step ps s ns vec HI Hg) as H.
    unfold py_write_state, spec_step_opt. cbn [fst snd].
    destruct (py_rf_write FromCursor c ps ns vec) as [[cls ret] ps'].
    cbv beta iota zeta in H. cbn [snd]. apply IH; [|exact Hops'].
    destruct (resolve s ns <? s_cur s) eqn:El.
    - destruct H as (_ & ->). unfold spec_step. rewrite El. exact HI.
    - destruct H as (_ & _ & H). exact H.
  Qed.
End Lift.

(* instances *)
Lemma chunked_R_call c : vcfg c -> c_chunk c = true ->
  forall st s g vec, 0 <= g -> refines c st s ->
    if g <? w_gi st then write_one c st g vec = (-3, st)
    else exists st', write_one c st g vec = (0, st') /\ refines c st' (spec_step c s (g, vec)).
Proof.
  intros Hc Hch st s g vec Hg HR.
  pose proof (refines_step c st s (g, vec) Hc Hch Hg HR) as Hs. unfold model_step in Hs. cbn [fst snd] in Hs.
  destruct HR as (HI & Hgi & Hlk).
  pose proof (write_one_chunked c st g vec Hc Hch HI Hg) as H.
  destruct (g <? w_gi st); [exact H|].
  destruct H as (st' & Hw & _). exists st'. split; [exact Hw|]. rewrite Hw in Hs. exact Hs.
Qed.

Lemma unchunked_R_call c : vcfg c -> c_chunk c = false -> c_cont c = true ->
  forall st s g vec, 0 <= g -> refines_u c st s ->
    if g <? w_gi st then write_one c st g vec = (-3, st)
    else exists st', write_one c st g vec = (0, st') /\ refines_u c st' (spec_step c s (g, vec)).
Proof.
  intros Hc Hch Hco st s g vec Hg HR.
  pose proof (refines_u_step c st s (g, vec) Hc Hch Hco Hg HR) as Hs. unfold model_step in Hs. cbn [fst snd] in Hs.
  pose proof (write_one_u c st g vec Hc Hch Hco (ru_inv _ _ _ HR) Hg) as H.
  destruct (g <? w_gi st); [exact H|].
  destruct H as (st' & Hw & _). exists st'. split; [exact Hw|]. rewrite Hw in Hs. exact Hs.
Qed.

Theorem py_rf_write_history_chunked c ops : vcfg c -> c_chunk c = true ->
  Forall (fun op => match fst op with Some x => 0 <= x | None => True end) ops ->
  PyInv (refines c) (fold_left (py_write_state c) ops py_init) (fold_left (spec_step_opt c) ops spec_init).
Proof.
  intros Hc Hch Hops. apply (py_history c (refines c)).
  - intros st s (_ & H & _). exact H.
  - apply chunked_R_call; assumption.
  - unfold PyInv. cbn. split; [reflexivity|]. split; [|split; [reflexivity|lia]].
    split; [apply Inv_init|]. split; [reflexivity|]. split; [reflexivity|exact I].
  - exact Hops.
Qed.

Theorem py_rf_write_history_unchunked c ops : vcfg c -> c_chunk c = false -> c_cont c = true ->
  Forall (fun op => match fst op with Some x => 0 <= x | None => True end) ops ->
  PyInv (refines_u c) (fold_left (py_write_state c) ops py_init) (fold_left (spec_step_opt c) ops spec_init).
Proof.
  intros Hc Hch Hco Hops. apply (py_history c (refines_u c)).
  - intros st s H. exact (ru_cur _ _ _ H).
  - apply unchunked_R_call; assumption.
  - unfold PyInv. cbn. split; [reflexivity|]. split; [|split; [reflexivity|lia]].
    constructor; cbn; try discriminate; [apply InvU_init|reflexivity|intros a []].
  - exact Hops.
Qed.
