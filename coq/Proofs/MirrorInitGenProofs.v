(* The handler list of the hand model (Model/Mirror.v: handlers = mirror_handlers ++ ring_handlers, each
   with the predicate of the files it reacts to) is the list DigitalRFMirror.__init__ builds, as
   regenerated from mirror.py (Gen/MirrorInitGen.v, T15): same order, same kind of handler, same files. *)
From Coq Require Import ZArith List Bool Lia.
From DRF Require Import Model.Ringbuffer Model.Mirror Model.MirrorInitBase Gen.MirrorInitGen.
Import ListNotations.
Local Open Scope Z_scope.

Definition is_move (mc : mcfg) : bool := match m_meth mc with MMove => true | _ => false end.

(* the model's handler for a regenerated entry; a ring buffer must be the count=1 one of Model/Mirror.rbc *)
Definition g_hnd (mc : mcfg) (g : gfun) : option hnd :=
  match g with
  | GCopyLike => Some (HMirror (match m_meth mc with MLink => Link | _ => Copy end))
  | GShutilMove => Some (HMirror Move)
  | GRingbuffer c => if c =? 1 then Some HRing else None
  end.

Definition dflt (a : bool) (o : option bool) : bool := match o with Some b => b | None => a end.

(* DigitalRFEventHandler: the regexes a handler matches, from its four flags *)
Definition g_match (f : gflags) (p : path) : bool :=
  (g_drf f && kind_rf p) || (g_dmd f && kind_md p) ||
  (dflt (g_drf f) (g_drfp f) && (pg p =? -1)) || (dflt (g_dmd f) (g_dmdp f) && (pg p =? -2)).

Lemma kinds_disjoint p :
  (kind_rf p = true -> kind_md p = false /\ (pg p =? -1) = false /\ (pg p =? -2) = false) /\
  (kind_md p = true -> (pg p =? -1) = false /\ (pg p =? -2) = false).
Proof.
  unfold kind_rf, kind_md. split; intro H; apply andb_prop in H; destruct H as [H0 H1]; apply Z.leb_le in H0.
  - repeat split; try (apply Z.eqb_neq; lia). rewrite <- Z.negb_even, H1. rewrite andb_false_r. reflexivity.
  - split; apply Z.eqb_neq; lia.
Qed.

Theorem mirror_handlers_regen : forall mc p,
  map (fun hf : hnd * (path -> bool) => (Some (fst hf), snd hf p)) (handlers mc)
  = map (fun gf : gfun * gflags => (g_hnd mc (fst gf), g_match (snd gf) p))
        (gen_event_handlers (is_move mc) (m_drf mc) (m_dmd mc)).
Proof.
  intros [meth sfs lk drf dmd] p.
  unfold handlers, mirror_handlers, ring_handlers, gen_event_handlers, is_move, g_match, copy_match, dflt.
  cbn [m_meth m_drf m_dmd].
  destruct (kinds_disjoint p) as [Hr Hm].
  destruct meth, drf, dmd; cbn [map app fst snd g_hnd g_drf g_dmd g_drfp g_dmdp andb orb negb Z.eqb];
    repeat (f_equal; try reflexivity);
    destruct (kind_rf p) eqn:Er; destruct (kind_md p) eqn:Em;
    try (destruct (Hr eq_refl) as [E1 [E2 E3]]; try congruence; rewrite ?E2, ?E3);
    try (destruct (Hm eq_refl) as [E2 E3]; rewrite ?E2, ?E3);
    cbn; rewrite ?orb_false_r, ?andb_false_r; try reflexivity;
    destruct (pg p =? -1); destruct (pg p =? -2); reflexivity.
Qed.

(* every handler of the regenerated list is one the model knows (no ring buffer other than count = 1) *)
Theorem mirror_handlers_all_known : forall mc,
  forallb (fun gf : gfun * gflags => match g_hnd mc (fst gf) with Some _ => true | None => false end)
          (gen_event_handlers (is_move mc) (m_drf mc) (m_dmd mc)) = true.
Proof. intros [meth sfs lk drf dmd]. destruct meth, drf, dmd; reflexivity. Qed.

Example handlers_move_example :
  map fst (gen_event_handlers true true true) = [GCopyLike; GShutilMove; GRingbuffer 1].
Proof. reflexivity. Qed.
