(* C19: the last file written.  After every accepted, non-empty block call the name the writer holds
   (sub_directory / basename, reported by get_last_file_written / get_last_dir_written) is the file of
   the most recently written sample: w_cur = Fk (start + cursor - 1).  Chunked layouts, block calls. *)
From Coq Require Import ZArith List Bool Lia.
From DRF Require Import Base.DivLemmas Model.LayoutSpec Model.IndexCalc Model.WriterCore
  Proofs.LayoutProofs Proofs.WriterBasics Proofs.WriterInv Proofs.WriterMultiIdx Proofs.WriterMulti.
Import ListNotations.
Local Open Scope Z_scope.

(* whenever a per-file step writes, the committed name is the file of the step's first sample *)
Lemma wstf_cur c st sw bl vec k st' :
  write_samples_to_file c st sw bl vec = (Wrote k, st') ->
  w_cur st' = Some (Fk c (c_start c + get_global_sample sw bl)).
Proof.
  unfold write_samples_to_file, Fk.
  destruct bl as [|[g0 d0] tl]; [discriminate|].
  destruct (negb (d0 =? 0)); [discriminate|].
  set (F := F_of _ _ _ _).
  destruct (create_rf_data_index _ _ _ _ _ _ _ _ _ _ _) as [[rows stw]|]; [|discriminate].
  destruct (match w_cur st with Some f => (f =? F) && w_open st | None => false end) eqn:Efe; cbn [negb].
  - destruct (w_cur st) as [f|] eqn:Ecur; [|discriminate].
    apply andb_true_iff in Efe as [Ef _]. apply Z.eqb_eq in Ef. subst f.
    destruct (w_openf st) as [a|]; [|discriminate].
    destruct (c_chunk c); intros H; inversion H; subst; cbn [w_cur]; congruence.
  - destruct (has_final F (finalize st)); [discriminate|].
    intros H; inversion H; subst; reflexivity.
Qed.

Lemma loop_last c g0 tl vec top :
  vcfg c -> c_chunk c = true -> 0 <= g0 -> rows_wf ((g0, 0) :: tl) (zlen vec) top ->
  forall fuel st sw, Inv c st -> 0 <= sw < zlen vec ->
  w_gi st <= get_global_sample sw ((g0, 0) :: tl) ->
  zlen vec - sw < Z.of_nat fuel ->
  exists st',
    write_loop fuel c st sw ((g0, 0) :: tl) vec = (0, st') /\
    w_cur st' = Some (Fk c (c_start c + w_gi st' - 1)).
Proof.
  intros Hc Hch Hg0 Hwf. pose (bl := (g0, 0) :: tl).
  induction fuel as [|fuel IH]; intros st sw HI Hsw Hgi Hfuel.
  - cbn in Hfuel. lia.
  - cbn [write_loop]. fold (zlen vec).
    assert (El : (sw <? zlen vec) = true) by (apply Z.ltb_lt; lia). rewrite El.
    set (next := get_global_sample sw bl) in *.
    set (last := whi c (Fk c (c_start c + next)) - c_start c).
    set (T := topidx last g0 0 tl (zlen vec)).
    destruct (step_blocks c st g0 tl vec sw top next last T Hc Hch HI Hwf Hg0 ltac:(lia)
                eq_refl eq_refl eq_refl Hgi)
      as (st1 & Hstep & HT & HI1 & Hgi1 & _ & Hnext1 & _ & _ & _).
    pose proof (wstf_cur c st sw bl vec _ st1 Hstep) as Hcur1. fold next in Hcur1.
    rewrite Hstep.
    assert (E0 : (T - sw =? 0) = false) by (apply Z.eqb_neq; lia). rewrite E0.
    replace (sw + (T - sw)) with T by lia.
    destruct (Z_lt_le_dec T (zlen vec)) as [Hlt|Hge].
    + destruct (Hnext1 Hlt) as (Hn1 & _).
      apply (IH st1 T HI1 ltac:(lia) ltac:(lia) ltac:(rewrite Nat2Z.inj_succ in Hfuel; lia)).
    + assert (ET : T = zlen vec) by lia. rewrite ET.
      destruct fuel as [|fuel']; cbn [write_loop]; fold (zlen vec);
        rewrite (proj2 (Z.ltb_ge (zlen vec) (zlen vec)) ltac:(lia)).
      * exists st1. split; [reflexivity|]. rewrite Hcur1. f_equal. symmetry.
        apply (Fk_same c (c_start c + next) (c_start c + w_gi st1 - 1) Hc).
        pose proof (Fk_window c (c_start c + next) Hc). unfold last in Hgi1. lia.
      * exists st1. split; [reflexivity|]. rewrite Hcur1. f_equal. symmetry.
        apply (Fk_same c (c_start c + next) (c_start c + w_gi st1 - 1) Hc).
        pose proof (Fk_window c (c_start c + next) Hc). unfold last in Hgi1. lia.
Qed.

Theorem last_file_is_file_of_last_sample c st bl vec :
  vcfg c -> c_chunk c = true -> Inv c st ->
  valid_arrays (w_gi st) (zlen vec) bl = true -> c_cont c && multi bl = false -> first_nonneg bl ->
  exists st', write_blocks c st bl vec = (0, st') /\
              w_cur st' = Some (Fk c (c_start c + w_gi st' - 1)).
Proof.
  intros Hc Hch HI Hv Hm Hnn.
  destruct (valid_arrays_wf _ _ _ Hv) as (g0 & tl & -> & Hge & Hvl & Hwf).
  cbn [first_nonneg] in Hnn. unfold write_blocks. rewrite (inv_nf c st HI).
  assert (Eg : (g0 <? w_gi st) = false) by (apply Z.ltb_ge; lia). rewrite Eg.
  assert (Em : c_cont c && negb match tl with [] => true | _ :: _ => false end = false).
  { destruct tl; [apply andb_false_r|exact Hm]. }
  rewrite Em.
  apply (loop_last c g0 tl vec _ Hc Hch Hnn Hwf (S (length vec)) st 0 HI ltac:(lia)).
  - cbn [get_global_sample]. destruct tl as [|[g' d'] tl']; cbn [ggs_loop]; [lia|].
    cbn [rows_wf] in Hwf. destruct Hwf as (Hd & _).
    assert (E : (0 <? d') = true) by (apply Z.ltb_lt; lia). rewrite E. lia.
  - unfold zlen. lia.
Qed.

(* ---------- the same in the un-chunked continuous layout (single-block calls) ---------- *)
From DRF Require Import Proofs.WriterInvU.

Lemma loop_last_u c g vec : vcfg c -> c_chunk c = false -> c_cont c = true -> 0 <= g ->
  forall fuel st sw, InvU c st -> 0 <= sw < zlen vec -> w_gi st <= g + sw ->
  zlen vec - sw < Z.of_nat fuel ->
  exists st',
    write_loop fuel c st sw [(g, 0)] vec = (0, st') /\
    w_cur st' = Some (Fk c (c_start c + w_gi st' - 1)).
Proof.
  intros Hc Hch Hco Hg0. induction fuel as [|fuel IH]; intros st sw HI Hsw Hgi Hfuel.
  - cbn in Hfuel. lia.
  - cbn [write_loop]. fold (zlen vec).
    assert (El : (sw <? zlen vec) = true) by (apply Z.ltb_lt; lia). rewrite El.
    destruct (step_u_rel c st g vec sw Hc Hch Hco HI Hsw Hgi Hg0)
      as (st1 & Hstep & Hpos & HI1 & Hgi1 & _ & _).
    set (K := c_start c + (g + sw)) in *.
    set (stw := Z.min (whi c (Fk c K) - K) (zlen vec - sw)) in *.
    pose proof (wstf_cur c st sw [(g, 0)] vec _ st1 Hstep) as Hcur1.
    cbn [get_global_sample ggs_loop] in Hcur1.
    replace (c_start c + (g + (sw - 0))) with K in Hcur1 by (unfold K; lia).
    rewrite Hstep.
    assert (E0 : (stw =? 0) = false) by (apply Z.eqb_neq; lia). rewrite E0.
    assert (Hlast : w_cur st1 = Some (Fk c (c_start c + w_gi st1 - 1))).
    { rewrite Hcur1. f_equal. symmetry. apply (Fk_same c K (c_start c + w_gi st1 - 1) Hc).
      pose proof (Fk_window c K Hc). unfold stw in Hgi1 |- *. unfold K in *. lia. }
    destruct (Z_lt_le_dec (sw + stw) (zlen vec)) as [Hlt|Hge].
    + apply (IH st1 (sw + stw) HI1 ltac:(lia) ltac:(lia) ltac:(rewrite Nat2Z.inj_succ in Hfuel; lia)).
    + assert (ET : sw + stw = zlen vec) by (unfold stw in *; lia). rewrite ET.
      exists st1. split; [|exact Hlast].
      destruct fuel as [|fuel']; cbn [write_loop]; fold (zlen vec);
        rewrite ?(proj2 (Z.ltb_ge (zlen vec) (zlen vec)) ltac:(lia)); reflexivity.
Qed.

Theorem last_file_is_file_of_last_sample_u c st g vec :
  vcfg c -> c_chunk c = false -> c_cont c = true -> InvU c st -> w_gi st <= g -> 0 <= g -> 0 < zlen vec ->
  exists st', write_one c st g vec = (0, st') /\
              w_cur st' = Some (Fk c (c_start c + w_gi st' - 1)).
Proof.
  intros Hc Hch Hco HI Hgi Hg Hlen. unfold write_one, write_blocks. rewrite (invu_nf c st HI).
  assert (Eg : (g <? w_gi st) = false) by (apply Z.ltb_ge; lia). rewrite Eg.
  rewrite andb_false_r.
  apply (loop_last_u c g vec Hc Hch Hco Hg (S (length vec)) st 0 HI ltac:(lia) ltac:(lia)).
  unfold zlen. lia.
Qed.

(* close keeps the name (get_last_file_written / get_last_dir_written stay available), the cursor
   and the counters; it only finalizes the open file *)
Lemma close_keeps_last st : w_cur (close_writer st) = w_cur st /\ w_gi (close_writer st) = w_gi st.
Proof. split; reflexivity. Qed.
