(* Proofs/WriterProtoRestart.v -- a second writer session on a channel directory a killed recorder left
   behind (C02, C09): the state [s] holds the properties file, finalized data files and the in-progress
   tmp.rf@X.h5 of the killed process.  When the first piece of the restarted session addresses the file
   period of that leftover file, under ANY fault oracle and both variants: the exclusive creation cannot
   succeed, has_failure is set, every write of the session is refused, and neither the refusal nor the
   close publishes or changes anything under a final name (close REMOVES the leftover file: it takes
   the has_failure branch of digital_rf_close_hdf5_file). *)
From Coq Require Import ZArith List Bool Lia.
From DRF Require Import Base.Fs Model.WriterProto Proofs.ProtoSafety Proofs.WriterProtoProofs Proofs.WriterFaultProofs.
Import ListNotations.
Local Open Scope Z_scope.

(* a fresh writer object on an existing tree *)
Definition W_on (s : fs) : W := mkW false None None s 0 [] false.

(* [wrun] started on [s] instead of the empty tree *)
Definition wrun_on (s : fs) (F : fault) (v : variant) (rc : recording) : result :=
  let '(w1, ok) := init F v rc (W_on s) in
  if ok then
    let '(w2, outs) := calls F v (r_calls rc) w1 in
    mkRes true outs (close_call F v w2)
  else mkRes false [] w1.

Lemma fsame_datasame w w' : DataSame w w' -> FinSame w w'.
Proof. intros D d k. apply D. Qed.

Lemma fsame_set_hf w : FinSame w (set_hf true w). Proof. intros d k; reflexivity. Qed.

(* the creation of a file whose tmp name is taken *)
Lemma part_stale F v fp w w' st c :
  w_hf w = false -> w_cur w = None -> w_name w = None ->
  w_fs w (PData (fp_d fp) true (fp_k fp)) = Some (File c) ->
  w_fs w (PData (fp_d fp) false (fp_k fp)) = None ->
  part F v fp w = (w', st) ->
  st = Abort /\ w_hf w' = true /\ w_cur w' = None /\ DataSame w w' /\
  (w_name w' = None \/ w_name w' = Some (fp_d fp, fp_k fp)).
Proof.
  intros Hh Hc Hn Ht Hf. unfold part. set (d := fp_d fp) in *. set (k := fp_k fp) in *.
  rewrite Hn. simpl same_name. cbv iota. rewrite Hc, Hh.
  rewrite (surjective_pairing (issue F (Mkdir (PDir d)) w)).
  set (w2 := fst (issue F (Mkdir (PDir d)) w)).
  assert (D2 : DataSame w w2) by (apply ds_issue_nodata; simpl; intros; discriminate).
  assert (C2 : w_cur w2 = None) by (unfold w2; now rewrite issue_cur).
  assert (N2 : w_name w2 = None) by (unfold w2; now rewrite issue_name).
  destruct (mkdir_failed _).
  { intros H; inversion H; subst. repeat split; auto. }
  set (w3 := set_name (Some (d, k)) w2).
  assert (Ef : exists_at (w_fs w3) (PData d false k) = false).
  { unfold exists_at, w3. simpl. now rewrite D2, Hf. }
  rewrite Ef.
  rewrite (surjective_pairing (issue F (Probe (PData d true k)) w3)).
  set (w4 := fst (issue F (Probe (PData d true k)) w3)).
  assert (D4 : DataSame w w4).
  { eapply ds_trans; [exact D2|]. intros d' t' k'. unfold w4. rewrite (ds_probe F _ w3). reflexivity. }
  assert (C4 : w_cur w4 = None) by (unfold w4; rewrite issue_cur; exact C2).
  assert (N4 : w_name w4 = Some (d, k)) by (unfold w4; now rewrite issue_name).
  destruct (res_ok _).
  { intros H; inversion H; subst. repeat split; auto. }
  rewrite (surjective_pairing (issue F (CreateExcl (PData d true k)) w4)).
  set (w5 := fst (issue F (CreateExcl (PData d true k)) w4)).
  assert (T4 : w_fs w4 (PData d true k) = Some (File c)) by (now rewrite D4).
  assert (E5 : w_fs w5 = w_fs w4 /\ res_ok (snd (issue F (CreateExcl (PData d true k)) w4)) = false).
  { unfold w5. destruct (issue_cases F (CreateExcl (PData d true k)) w4) as [[A B]|[A B]]; rewrite A, B; simpl.
    - rewrite T4. auto.
    - auto. }
  destruct E5 as [E5 R5]. rewrite R5.
  assert (C5 : w_cur w5 = None) by (unfold w5; rewrite issue_cur; exact C4).
  assert (N5 : w_name w5 = Some (d, k)) by (unfold w5; rewrite issue_name; exact N4).
  assert (D5 : DataSame w w5) by (intros d' t' k'; rewrite E5; apply D4).
  intros H; inversion H; subst. simpl. repeat split; auto.
Qed.

Lemma close_after_refusal F v w :
  w_hf w = true -> w_cur w = None -> FinSame w (close_call F v w).
Proof.
  intros Hh Hc. unfold close_call, close_handles. rewrite Hc. unfold publish.
  destruct (w_name w) as [[d k]|]; [|apply fsame_refl].
  destruct (exists_at _ _); [|apply fsame_refl]. rewrite Hh.
  eapply fsame_issue_tmp; [reflexivity | intros; discriminate].
Qed.

Theorem restart_over_stale_tmp F v rc s fp rest cs c :
  r_calls rc = (fp :: rest) :: cs ->
  open_channel s = true ->
  s (PData (fp_d fp) true (fp_k fp)) = Some (File c) ->
  s (PData (fp_d fp) false (fp_k fp)) = None ->
  let r := wrun_on s F v rc in
  rs_init r = true /\ rs_out r = map (fun _ => false) (r_calls rc) /\ w_hf (rs_w r) = true /\
  forall d k, w_fs (rs_w r) (PData d false k) = s (PData d false k).
Proof.
  intros Hr Ho Ht Hf. unfold wrun_on, init. change (w_fs (W_on s)) with s.
  unfold open_channel in Ho. destruct (probe s (PProps false)); try discriminate. clear Ho.
  destruct (part F v fp (W_on s)) as [w1 st] eqn:Ep.
  destruct (part_stale F v fp (W_on s) w1 st c eq_refl eq_refl eq_refl Ht Hf Ep) as (-> & Hh & Hc & D & _).
  assert (Ecall : call F v (fp :: rest) (W_on s) = (w1, false)).
  { unfold call. change (w_hf (W_on s)) with false. cbv iota. simpl parts. rewrite Ep. reflexivity. }
  assert (Ecalls : calls F v (r_calls rc) (W_on s) = (w1, map (fun _ => false) (r_calls rc))).
  { rewrite Hr. simpl. rewrite Ecall, (calls_refused F v cs w1 Hh). reflexivity. }
  rewrite Ecalls. simpl.
  split; [reflexivity|]. split; [reflexivity|]. split.
  - pose proof (grows_close_call F v w1) as [G _]. auto.
  - intros d k. rewrite (close_after_refusal F v w1 Hh Hc). apply D.
Qed.

(* hence a reader pass (which only forms final names) returns after the restarted session what it
   returned on the tree the kill left *)
Lemma read_pass_ext s s' cands :
  (forall d k, s' (PData d false k) = s (PData d false k)) -> read_pass s' cands = read_pass s cands.
Proof.
  intros H. induction cands as [|[d k] r IH]; simpl; auto. unfold probe. now rewrite H, IH.
Qed.

Theorem restart_reader_unaffected F v rc s fp rest cs c cands :
  r_calls rc = (fp :: rest) :: cs ->
  open_channel s = true ->
  s (PData (fp_d fp) true (fp_k fp)) = Some (File c) ->
  s (PData (fp_d fp) false (fp_k fp)) = None ->
  read_pass (w_fs (rs_w (wrun_on s F v rc))) cands = read_pass s cands.
Proof.
  intros Hr Ho Ht Hf. apply read_pass_ext.
  apply (restart_over_stale_tmp F v rc s fp rest cs c Hr Ho Ht Hf).
Qed.

(* non-vacuity, on the recording of the C10 witnesses: the recorder is killed after 10 operations (the
   first data file created and written, not closed); the restarted session's first piece addresses the
   same period.  Fault-free, the leftover file is gone after the close. *)
Definition killed_tree : fs := crash_state (trace_of (mkVar Staged Checked) wit_rec) 10 empty_fs.
Definition restart_rec : recording :=
  mkRec [] [] [[mkPart 10 10000 [(LW, PhCreate)] [LW] 9]; [mkPart 10 12000 [(LW, PhCreate)] [LW] 10]].

Example restart_hypotheses :
  open_channel killed_tree = true /\
  killed_tree (PData 10 true 10000) = Some (File (Partial false)) /\
  killed_tree (PData 10 false 10000) = None.
Proof. vm_compute. repeat split; reflexivity. Qed.

Example restart_removes_leftover :
  let r := wrun_on killed_tree no_fault (mkVar Staged Checked) restart_rec in
  rs_out r = [false; false] /\ w_fs (rs_w r) (PData 10 true 10000) = None /\
  w_fs (rs_w r) (PData 10 false 10000) = None /\ w_fs (rs_w r) (PData 10 false 12000) = None.
Proof. vm_compute. repeat split; reflexivity. Qed.
