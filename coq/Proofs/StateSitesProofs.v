(* The models keep all state in the writer / reader / handler objects and treat conversions and listings as
   functions of their arguments.  Gen/StateSites.v (translator T17) lists, per source area, every place where the
   sources could keep state elsewhere (static locals and mutable file-scope variables in C; class-level and
   module-level containers, `global` rebinding and cache decorators in Python).  There is none. *)
From Coq Require Import String List.
From DRF Require Import Gen.StateSites.
Import ListNotations.

Theorem no_state_outside_objects_c_library : state_sites_c_library = [].  Proof. reflexivity. Qed.
Theorem no_state_outside_objects_extension : state_sites_extension = [].  Proof. reflexivity. Qed.
Theorem no_state_outside_objects_rf_python : state_sites_rf_python = [].  Proof. reflexivity. Qed.
Theorem no_state_outside_objects_metadata : state_sites_metadata = [].  Proof. reflexivity. Qed.
Theorem no_state_outside_objects_listing : state_sites_listing = [].  Proof. reflexivity. Qed.
Theorem no_state_outside_objects_events : state_sites_events = [].  Proof. reflexivity. Qed.
