(* Proofs/WriterProtoProofs.v -- the fault-free writer of Model/WriterProto.v obeys the publication
   protocol: its trace is accepted by [proto_run] and ends in the idle state (so the theorems of
   Proofs/ProtoSafety.v apply to every prefix of every recording). *)
From Coq Require Import ZArith List Bool Lia.
From DRF Require Import Base.Fs Model.WriterProto Proofs.ProtoSafety.
Import ListNotations.
Local Open Scope Z_scope.

(* ---------------------------------------------------------------- issue *)
Lemma ops_of_issue F o w : ops_of (fst (issue F o w)) = ops_of w ++ [o].
Proof. unfold ops_of, issue; simpl. now rewrite map_app. Qed.

Lemma issue_hf F o w : w_hf (fst (issue F o w)) = w_hf w. Proof. reflexivity. Qed.
Lemma issue_name F o w : w_name (fst (issue F o w)) = w_name w. Proof. reflexivity. Qed.
Lemma issue_cur F o w : w_cur (fst (issue F o w)) = w_cur w. Proof. reflexivity. Qed.
Lemma issue_ud F o w : w_ud (fst (issue F o w)) = w_ud w. Proof. reflexivity. Qed.
Lemma issue_fs_nf o w : w_fs (fst (issue no_fault o w)) = fst (apply o (w_fs w)). Proof. reflexivity. Qed.
Lemma issue_res_nf o w : snd (issue no_fault o w) = snd (apply o (w_fs w)). Proof. reflexivity. Qed.

Global Opaque issue.

Lemma proto_run_snoc pv t : forall ps0 s0 o,
  proto_run pv ps0 s0 (t ++ [o]) =
  match proto_run pv ps0 s0 t with
  | Some (ps, s) => match pstep pv ps s o with Some ps' => Some (ps', fst (apply o s)) | None => None end
  | None => None
  end.
Proof.
  induction t as [|a t IH]; simpl; intros.
  - destruct (pstep pv ps0 s0 o); reflexivity.
  - destruct (pstep pv ps0 s0 a); auto.
Qed.

Definition Acc (pv : props_publication) (w : W) (ps : pstate) : Prop :=
  proto_run pv PsStart empty_fs (ops_of w) = Some (ps, w_fs w).

Lemma acc_issue pv w ps o ps' :
  Acc pv w ps -> pstep pv ps (w_fs w) o = Some ps' -> Acc pv (fst (issue no_fault o w)) ps'.
Proof.
  unfold Acc. intros H Hs. rewrite ops_of_issue, proto_run_snoc, H, Hs. reflexivity.
Qed.

Lemma acc_inv pv w ps : Acc pv w ps -> Inv pv ps (w_fs w).
Proof. intros H. eapply run_inv; [apply Inv_start | exact H]. Qed.

Ltac fields := simpl; rewrite ?issue_hf, ?issue_name, ?issue_cur, ?issue_ud; try congruence; auto.

(* setters do not change what Acc looks at *)
Lemma acc_set_hf pv w ps b : Acc pv w ps -> Acc pv (set_hf b w) ps. Proof. auto. Qed.
Lemma acc_set_name pv w ps x : Acc pv w ps -> Acc pv (set_name x w) ps. Proof. auto. Qed.
Lemma acc_set_cur pv w ps x : Acc pv w ps -> Acc pv (set_cur x w) ps. Proof. auto. Qed.

(* ---------------------------------------------------------------- the simulation relation *)
Definition Rel (pv : props_publication) (w : W) (ps : pstate) : Prop :=
  Acc pv w ps /\ w_ud w = false /\
  match w_cur w with
  | Some _ => exists d k, w_name w = Some (d, k) /\ ps = PsOpen d k /\ w_hf w = false
  | None => ps = PsIdle
  end.

Lemma open_tmp pv w d k : Acc pv w (PsOpen d k) ->
  w_fs w (PData d true k) = Some (File (Partial false)) /\ w_fs w (PData d false k) = None.
Proof.
  intros A. destruct (acc_inv _ _ _ A) as [(F1 & F2 & F3 & F4) _].
  destruct (F3 d k eq_refl) as [Hf Ht]. split; auto.
  destruct (w_fs w (PData d true k)) eqn:E; [|congruence].
  destruct (F2 _ _ _ E) as (_ & _ & ->). reflexivity.
Qed.

Lemma pstep_open_low pv d k s kd :
  pstep pv (PsOpen d k) s (low_op kd (PData d true k)) = Some (PsOpen d k).
Proof. destruct kd; simpl; now rewrite !Z.eqb_refl. Qed.

Lemma apply_low_open s d k kd :
  s (PData d true k) = Some (File (Partial false)) -> apply (low_op kd (PData d true k)) s = (s, Ok).
Proof. intros H. destruct kd; simpl; now rewrite H. Qed.

(* low-level operations on the open tmp file: all succeed, nothing else changes *)
Lemma do_lows_ok pv d k l : forall w,
  Acc pv w (PsOpen d k) ->
  exists w', do_lows no_fault (PData d true k) l w = (w', Go) /\ Acc pv w' (PsOpen d k) /\
             w_hf w' = w_hf w /\ w_name w' = w_name w /\ w_cur w' = w_cur w /\ w_ud w' = w_ud w /\ w_fs w' = w_fs w.
Proof.
  induction l as [|[kd ph] l IH]; intros w A; simpl.
  - exists w. repeat split; auto.
  - destruct (open_tmp _ _ _ _ A) as [Ht Hf].
    pose proof (acc_issue _ _ _ (low_op kd (PData d true k)) _ A (pstep_open_low _ _ _ _ _)) as A1.
    rewrite (surjective_pairing (issue no_fault (low_op kd (PData d true k)) w)).
    rewrite issue_res_nf, apply_low_open by auto. simpl res_ok. cbv iota.
    destruct (IH _ A1) as (w' & H1 & H2 & H3 & H4 & H5 & H6 & H7).
    exists w'. rewrite H1. repeat split; auto.
    rewrite H7, issue_fs_nf, apply_low_open; auto.
Qed.

Lemma close_lows_ok pv v d k l : forall w,
  Acc pv w (PsOpen d k) ->
  exists w', close_lows no_fault v (PData d true k) l w = w' /\ Acc pv w' (PsOpen d k) /\
             w_hf w' = w_hf w /\ w_name w' = w_name w /\ w_cur w' = w_cur w /\ w_ud w' = w_ud w /\ w_fs w' = w_fs w.
Proof.
  induction l as [|kd l IH]; intros w A; simpl.
  - exists w. repeat split; auto.
  - destruct (open_tmp _ _ _ _ A) as [Ht Hf].
    pose proof (acc_issue _ _ _ (low_op kd (PData d true k)) _ A (pstep_open_low _ _ _ _ _)) as A1.
    rewrite (surjective_pairing (issue no_fault (low_op kd (PData d true k)) w)).
    rewrite issue_res_nf, apply_low_open by auto. simpl res_ok. cbv iota.
    destruct (IH _ A1) as (w' & H1 & H2 & H3 & H4 & H5 & H6 & H7).
    exists w'. rewrite H1. repeat split; auto.
    rewrite H7, issue_fs_nf, apply_low_open; auto.
Qed.

(* closing the handles of the open file: the tmp file becomes a complete image *)
Lemma close_handles_ok pv v w d k o :
  Acc pv w (PsOpen d k) -> w_cur w = Some o -> w_name w = Some (d, k) ->
  exists w', close_handles no_fault v w = w' /\ Acc pv w' (PsClosed d k) /\
             w_hf w' = w_hf w /\ w_name w' = w_name w /\ w_cur w' = None /\ w_ud w' = w_ud w /\
             w_fs w' = upd (PData d true k) (Some (File (Complete (of_tag o)))) (w_fs w).
Proof.
  intros A Hc Hn. unfold close_handles. rewrite Hc, Hn.
  destruct (close_lows_ok pv v d k (of_close o) w A) as (w1 & -> & A1 & H3 & H4 & H5 & H6 & H7).
  destruct (open_tmp _ _ _ _ A1) as [Ht Hf].
  assert (Hs : pstep pv (PsOpen d k) (w_fs w1) (CloseFd (PData d true k) (of_tag o)) = Some (PsClosed d k))
    by (simpl; now rewrite !Z.eqb_refl).
  pose proof (acc_issue _ _ _ _ _ A1 Hs) as A2.
  rewrite (surjective_pairing (issue no_fault (CloseFd (PData d true k) (of_tag o)) w1)).
  rewrite issue_res_nf. simpl apply. rewrite Ht. simpl.
  eexists; split; [reflexivity|]. repeat split; auto; try (fields; fail).
  simpl. rewrite issue_fs_nf. simpl. rewrite Ht. simpl. now rewrite H7.
Qed.

(* digital_rf_close_hdf5_file on a closed tmp file: renamed to its final name *)
Lemma publish_ok pv v w d k :
  Acc pv w (PsClosed d k) -> w_name w = Some (d, k) -> w_hf w = false ->
  exists w' t, publish no_fault v w = w' /\ Acc pv w' PsIdle /\
             w_hf w' = w_hf w /\ w_name w' = w_name w /\ w_cur w' = w_cur w /\ w_ud w' = w_ud w /\
             w_fs w (PData d true k) = Some (File (Complete t)) /\
             w_fs w' = upd (PData d false k) (Some (File (Complete t))) (upd (PData d true k) None (w_fs w)).
Proof.
  intros A Hn Hh. unfold publish. rewrite Hn, Hh.
  destruct (acc_inv _ _ _ A) as [(F1 & F2 & F3 & F4) _].
  destruct (F3 d k eq_refl) as [Hf Ht].
  destruct (w_fs w (PData d true k)) as [n|] eqn:E; [|congruence].
  destruct (F2 _ _ _ E) as (_ & _ & t & ->).
  unfold exists_at. rewrite E.
  assert (Hs : pstep pv (PsClosed d k) (w_fs w) (Rename (PData d true k) (PData d false k)) = Some PsIdle)
    by (simpl; now rewrite !Z.eqb_refl).
  pose proof (acc_issue _ _ _ _ _ A Hs) as A2.
  rewrite (surjective_pairing (issue no_fault (Rename (PData d true k) (PData d false k)) w)).
  rewrite issue_res_nf. simpl apply. rewrite E. simpl.
  eexists; exists t; split; [reflexivity|]. repeat split; auto; try (fields; fail).
  rewrite issue_fs_nf. simpl. now rewrite E.
Qed.

(* ---------------------------------------------------------------- what has been published *)
Definition is_cur (w : W) (d k : Z) : bool :=
  match w_cur w, w_name w with
  | Some _, Some (d', k') => (d' =? d) && (k' =? k)
  | _, _ => false
  end.

(* every file addressed so far is either the open one (holding the latest image in memory) or is
   under its final name, complete, with the latest image *)
Definition Pub (done : list filepart) (w : W) : Prop :=
  forall d k t, last_tag done d k = Some t ->
    if is_cur w d k then exists o, w_cur w = Some o /\ of_tag o = t
    else w_fs w (PData d false k) = Some (File (Complete t)).

Lemma last_tag_snoc l fp d k :
  last_tag (l ++ [fp]) d k =
  if (fp_d fp =? d) && (fp_k fp =? k) then Some (fp_tag fp) else last_tag l d k.
Proof.
  induction l as [|a l IH]; simpl.
  - destruct ((fp_d fp =? d) && (fp_k fp =? k)); reflexivity.
  - rewrite IH. destruct ((fp_d fp =? d) && (fp_k fp =? k)); reflexivity.
Qed.

Lemma same_name_true x d k : same_name x d k = true -> x = Some (d, k).
Proof.
  destruct x as [[d' k']|]; simpl; [|discriminate]. intros H. apply andb_prop in H as [H1 H2].
  apply Z.eqb_eq in H1, H2. now subst.
Qed.

Lemma same_name_false d' k' d k : same_name (Some (d', k')) d k = false -> (d', k') <> (d, k).
Proof.
  simpl. intros H E. inversion E; subst. now rewrite !Z.eqb_refl in H.
Qed.

Lemma mkdir_nf_ok s d : mkdir_failed (snd (apply (Mkdir (PDir d)) s)) = false.
Proof. simpl. destruct (s (PDir d)); reflexivity. Qed.

Lemma mkdir_parent pv ps s d t k :
  Inv pv ps s -> parent_ok (fst (apply (Mkdir (PDir d)) s)) (PData d t k) = true.
Proof.
  intros [(_ & _ & _ & F4) _]. simpl. destruct (s (PDir d)) eqn:E; simpl.
  - rewrite E. now rewrite (F4 _ _ E).
  - now rewrite upd_same.
Qed.

Lemma mkdir_other s d p : p <> PDir d -> fst (apply (Mkdir (PDir d)) s) p = s p.
Proof. intros H. apply apply_other; simpl; auto; intros; discriminate. Qed.

(* state reached by the roll-over part of a piece that addresses a new file *)
Lemma rollover_ok pv v w ps done :
  Rel pv w ps -> w_hf w = false -> Pub done w ->
  exists w1, match w_cur w with Some _ => publish no_fault v (close_handles no_fault v w) | None => w end = w1 /\
             Acc pv w1 PsIdle /\ w_cur w1 = None /\ w_hf w1 = false /\ w_ud w1 = false /\ w_name w1 = w_name w /\
             Pub done w1.
Proof.
  intros (A & Hud & Hc) Hh HP.
  destruct (w_cur w) as [o0|] eqn:Ec.
  - destruct Hc as (d0 & k0 & Hn & -> & _).
    destruct (close_handles_ok pv v w d0 k0 o0 A Ec Hn) as (wa & -> & Aa & Ha1 & Ha2 & Ha3 & Ha4 & Ha5).
    assert (Hna : w_name wa = Some (d0, k0)) by congruence.
    assert (Hha : w_hf wa = false) by congruence.
    destruct (publish_ok pv v wa d0 k0 Aa Hna Hha) as (w1 & t & -> & A1 & H1 & H2 & H3 & H4 & H5 & H6).
    exists w1. repeat split; auto; try congruence.
    intros d k tg Hl. specialize (HP d k tg Hl).
    unfold is_cur in *. rewrite H3, Ha3. rewrite Ec, Hn in HP.
    rewrite Ha5, upd_same in H5. inversion H5; subst t.
    rewrite H6, Ha5.
    destruct ((d0 =? d) && (k0 =? k)) eqn:E.
    + apply andb_prop in E as [E1 E2]. apply Z.eqb_eq in E1, E2. subst d0 k0.
      destruct HP as (o & Ho & Ht). inversion Ho; subst o. now rewrite upd_same, Ht.
    + rewrite !upd_other; auto; intros E'; inversion E'; subst; now rewrite !Z.eqb_refl in E.
  - subst ps. exists w. repeat split; auto.
Qed.

Lemma idle_no_tmp_data pv w d k : Acc pv w PsIdle -> w_fs w (PData d true k) = None.
Proof.
  intros A. destruct (acc_inv _ _ _ A) as [(_ & F2 & _) _].
  destruct (w_fs w (PData d true k)) eqn:E; auto. apply F2 in E. destruct E.
Qed.

Lemma exists_at_none s p : s p = None -> exists_at s p = false.
Proof. unfold exists_at. now intros ->. Qed.

Lemma pstep_probe pv ps s p : s p = None -> pstep pv ps s (Probe p) = Some ps.
Proof. intros H. simpl. now rewrite exists_at_none. Qed.

Lemma apply_probe_absent s p : s p = None -> apply (Probe p) s = (s, Err ENOENT).
Proof. intros H. simpl. unfold is_file. now rewrite H. Qed.

Lemma apply_create_ok s p :
  s p = None -> parent_ok s p = true -> apply (CreateExcl p) s = (upd p (Some (File (Partial false))) s, Ok).
Proof. intros H1 H2. simpl. now rewrite H1, H2. Qed.

Lemma pstep_create pv s d k :
  s (PData d false k) = None -> s (PData d true k) = None -> parent_ok s (PData d true k) = true ->
  pstep pv PsIdle s (CreateExcl (PData d true k)) = Some (PsOpen d k).
Proof. intros H1 H2 H3. cbn [pstep]. now rewrite !exists_at_none, H3. Qed.

Lemma exists_at_false s p : exists_at s p = false -> s p = None.
Proof. unfold exists_at. destruct (s p); [discriminate|reflexivity]. Qed.

(* one per-file piece, fault free *)
Lemma part_ok pv v fp w ps done :
  Rel pv w ps -> w_hf w = false -> Pub done w ->
  exists w' st ps', part no_fault v fp w = (w', st) /\ Rel pv w' ps' /\
     (st = Go -> w_hf w' = false /\ Pub (done ++ [fp]) w').
Proof.
  intros R Hh HP. pose proof R as (A & Hud & Hc).
  unfold part. set (d := fp_d fp). set (k := fp_k fp).
  destruct (same_name (w_name w) d k) eqn:Esn.
  - (* the open file is extended *)
    apply same_name_true in Esn.
    destruct (w_cur w) as [o0|] eqn:Ec.
    + destruct Hc as (d0 & k0 & Hn & -> & _). rewrite Hn in Esn. inversion Esn; subst d0 k0.
      set (w0 := set_cur (Some (mkOpen (fp_close fp) (fp_tag fp))) w).
      assert (A0 : Acc pv w0 (PsOpen d k)) by exact A.
      destruct (do_lows_ok pv d k (fp_pre fp) w0 A0) as (w' & -> & A' & H3 & H4 & H5 & H6 & H7).
      exists w', Go, (PsOpen d k). split; [reflexivity|]. split.
      * split; [exact A'|]. split; [simpl in H6; congruence|]. rewrite H5. simpl.
        exists d, k. repeat split; simpl in *; congruence.
      * intros _. split; [simpl in H3; congruence|].
        intros d' k' tg Hl. rewrite last_tag_snoc in Hl. fold d k in Hl.
        unfold is_cur. rewrite H5, H4. simpl. rewrite Hn.
        destruct ((d =? d') && (k =? k')) eqn:E.
        { inversion Hl; subst. eexists; split; reflexivity. }
        { specialize (HP d' k' tg Hl). unfold is_cur in HP. rewrite Ec, Hn, E in HP. now rewrite H7. }
    + subst ps. exists (set_hf true w), Abort, PsIdle. split; [reflexivity|]. split.
      * split; [exact A|]. split; [exact Hud|]. simpl. now rewrite Ec.
      * discriminate.
  - (* a new file *)
    destruct (rollover_ok pv v w ps done R Hh HP) as (w1 & -> & A1 & Hc1 & Hh1 & Hu1 & Hn1 & HP1).
    rewrite Hh1.
    (* mkdir *)
    assert (Hs2 : pstep pv PsIdle (w_fs w1) (Mkdir (PDir d)) = Some PsIdle) by reflexivity.
    pose proof (acc_issue _ _ _ _ _ A1 Hs2) as A2.
    rewrite (surjective_pairing (issue no_fault (Mkdir (PDir d)) w1)).
    rewrite issue_res_nf, mkdir_nf_ok.
    set (w2 := fst (issue no_fault (Mkdir (PDir d)) w1)) in *.
    assert (Hf2 : w_fs w2 = fst (apply (Mkdir (PDir d)) (w_fs w1))) by apply issue_fs_nf.
    set (w3 := set_name (Some (d, k)) w2).
    assert (A3 : Acc pv w3 PsIdle) by exact A2.
    assert (Hc3 : w_cur w3 = None) by (unfold w3, w2; fields).
    assert (Hu3 : w_ud w3 = false) by (unfold w3, w2; fields).
    assert (Hh3 : w_hf w3 = false) by (unfold w3, w2; fields).
    destruct (exists_at (w_fs w3) (PData d false k)) eqn:Ef.
    + exists w3, Abort, PsIdle. split; [reflexivity|]. split; [|discriminate].
      split; [exact A3|]. split; [exact Hu3|]. now rewrite Hc3.
    + (* probe *)
      apply exists_at_false in Ef.
      pose proof (idle_no_tmp_data pv w3 d k A3) as Ht3.
      pose proof (acc_issue _ _ _ _ _ A3 (pstep_probe pv PsIdle _ _ Ht3)) as A4.
      rewrite (surjective_pairing (issue no_fault (Probe (PData d true k)) w3)).
      rewrite issue_res_nf, (apply_probe_absent _ _ Ht3). cbn [snd res_ok].
      set (w4 := fst (issue no_fault (Probe (PData d true k)) w3)) in *.
      assert (Hf4 : w_fs w4 = w_fs w3)
        by (unfold w4; now rewrite issue_fs_nf, (apply_probe_absent _ _ Ht3)).
      (* create *)
      assert (Hp4 : parent_ok (w_fs w4) (PData d true k) = true).
      { rewrite Hf4. change (w_fs w3) with (w_fs w2). rewrite Hf2.
        eapply mkdir_parent. eapply acc_inv; eauto. }
      assert (Ht4 : w_fs w4 (PData d true k) = None) by now rewrite Hf4.
      assert (Hff4 : w_fs w4 (PData d false k) = None) by now rewrite Hf4.
      pose proof (acc_issue _ _ _ _ _ A4 (pstep_create pv _ _ _ Hff4 Ht4 Hp4)) as A5.
      rewrite (surjective_pairing (issue no_fault (CreateExcl (PData d true k)) w4)).
      rewrite issue_res_nf, (apply_create_ok _ _ Ht4 Hp4). cbn [snd res_ok].
      set (w5 := fst (issue no_fault (CreateExcl (PData d true k)) w4)) in *.
      assert (Hf5 : w_fs w5 = upd (PData d true k) (Some (File (Partial false))) (w_fs w4))
        by (unfold w5; now rewrite issue_fs_nf, (apply_create_ok _ _ Ht4 Hp4)).
      set (w6 := set_cur (Some (mkOpen (fp_close fp) (fp_tag fp))) w5).
      assert (A6 : Acc pv w6 (PsOpen d k)) by exact A5.
      destruct (do_lows_ok pv d k (fp_pre fp) w6 A6) as (w' & -> & A' & H3 & H4 & H5 & H6 & H7).
      assert (Hn6 : w_name w6 = Some (d, k)) by (unfold w6, w5, w4, w3; fields).
      exists w', Go, (PsOpen d k). split; [reflexivity|]. split.
      * split; [exact A'|]. split.
        { rewrite H6. unfold w6, w5, w4. fields. }
        rewrite H5. cbn [w6 set_cur w_cur]. exists d, k. repeat split; try congruence.
        rewrite H3. unfold w6, w5, w4. fields.
      * intros _. split; [rewrite H3; unfold w6, w5, w4; fields|].
        intros d' k' tg Hl. rewrite last_tag_snoc in Hl. fold d k in Hl.
        unfold is_cur. rewrite H5, H4, Hn6. cbn [w6 set_cur w_cur].
        destruct ((d =? d') && (k =? k')) eqn:E.
        { inversion Hl; subst. eexists; split; reflexivity. }
        { specialize (HP1 d' k' tg Hl). unfold is_cur in HP1. rewrite Hc1 in HP1.
          rewrite H7. change (w_fs w6) with (w_fs w5). rewrite Hf5, upd_other by discriminate.
          rewrite Hf4. change (w_fs w3) with (w_fs w2). rewrite Hf2, mkdir_other by discriminate. exact HP1. }
Qed.

Lemma parts_ok pv v l : forall w ps done,
  Rel pv w ps -> w_hf w = false -> Pub done w ->
  exists w' st ps', parts no_fault v l w = (w', st) /\ Rel pv w' ps' /\
     (st = Go -> w_hf w' = false /\ Pub (done ++ l) w').
Proof.
  induction l as [|fp l IH]; intros w ps done R Hh HP; simpl.
  - exists w, Go, ps. rewrite app_nil_r. auto.
  - destruct (part_ok pv v fp w ps done R Hh HP) as (w1 & st1 & ps1 & -> & R1 & H1).
    destruct st1.
    + destruct (H1 eq_refl) as [Hh1 HP1].
      destruct (IH w1 ps1 (done ++ [fp]) R1 Hh1 HP1) as (w' & st & ps' & -> & R' & H').
      exists w', st, ps'. rewrite <- app_assoc in H'. auto.
    + exists w1, Abort, ps1. split; [reflexivity|]. split; [exact R1|]. intros E; discriminate E.
Qed.

Lemma call_ok pv v l w ps done :
  Rel pv w ps -> Pub done w ->
  exists w' ok ps', call no_fault v l w = (w', ok) /\ Rel pv w' ps' /\
     (ok = true -> w_hf w' = false /\ Pub (done ++ l) w').
Proof.
  intros R HP. unfold call. destruct (w_hf w) eqn:Hh.
  - exists w, false, ps. split; [reflexivity|]. split; [exact R|]. intros E; discriminate E.
  - destruct (parts_ok pv v l w ps done R Hh HP) as (w' & st & ps' & -> & R' & H').
    exists w', (match st with Go => true | Abort => false end), ps'. split; [reflexivity|]. split; [exact R'|].
    destruct st; [intros _; apply H'; reflexivity | intros E; discriminate E].
Qed.

Lemma calls_ok pv v cs : forall w ps done,
  Rel pv w ps -> Pub done w ->
  exists w' outs ps', calls no_fault v cs w = (w', outs) /\ Rel pv w' ps' /\
     (forallb (fun b => b) outs = true -> Pub (done ++ concat cs) w').
Proof.
  induction cs as [|c cs IH]; intros w ps done R HP; simpl.
  - exists w, [], ps. rewrite app_nil_r. auto.
  - destruct (call_ok pv v c w ps done R HP) as (w1 & ok & ps1 & -> & R1 & H1).
    destruct ok.
    + destruct (H1 eq_refl) as [_ HP1].
      destruct (IH w1 ps1 (done ++ c) R1 HP1) as (w' & outs & ps' & -> & R' & H').
      exists w', (true :: outs), ps'. rewrite <- app_assoc in H'. auto.
    + (* the rest still runs (and keeps the relation); nothing is claimed about publication *)
      assert (HPx : Pub [] w1) by (intros d k t Hl; discriminate).
      destruct (IH w1 ps1 [] R1 HPx) as (w' & outs & ps' & -> & R' & _).
      exists w', (false :: outs), ps'. split; [reflexivity|]. split; [exact R'|]. simpl. intros E; discriminate E.
Qed.

(* digital_rf_close_write_hdf5, fault free: back to idle, everything addressed is final *)
Lemma close_call_ok pv v w ps done :
  Rel pv w ps -> Pub done w ->
  exists w', close_call no_fault v w = w' /\ Acc pv w' PsIdle /\ w_ud w' = false /\
     forall d k t, last_tag done d k = Some t -> w_fs w' (PData d false k) = Some (File (Complete t)).
Proof.
  intros R HP. pose proof R as (A & Hud & Hc). unfold close_call.
  destruct (w_cur w) as [o0|] eqn:Ec.
  - destruct Hc as (d0 & k0 & Hn & -> & Hh).
    destruct (rollover_ok pv v w _ done R Hh HP) as (w1 & E & A1 & Hc1 & Hh1 & Hu1 & Hn1 & HP1).
    rewrite Ec in E. exists w1. repeat split; auto.
    intros d k t Hl. specialize (HP1 d k t Hl). unfold is_cur in HP1. now rewrite Hc1 in HP1.
  - subst ps. unfold close_handles. rewrite Ec.
    exists w. split.
    + unfold publish. destruct (w_name w) as [[d k]|]; auto.
      now rewrite exists_at_none by (eapply idle_no_tmp_data; eauto).
    + repeat split; auto. intros d k t Hl. specialize (HP d k t Hl). unfold is_cur in HP. now rewrite Ec in HP.
Qed.

(* ---------------------------------------------------------------- channel creation *)
Lemma props_tmp pv w t : Acc pv w (PsProps t false) -> w_fs w (PProps t) = Some (File (Partial false)).
Proof. intros A. destruct (acc_inv _ _ _ A) as [_ (_ & P & _)]. exact P. Qed.

Lemma pstep_props_low pv t s kd : pstep pv (PsProps t false) s (low_op kd (PProps t)) = Some (PsProps t false).
Proof. destruct kd, t; reflexivity. Qed.

Lemma apply_low_partial s p kd : s p = Some (File (Partial false)) -> apply (low_op kd p) s = (s, Ok).
Proof. intros H. destruct kd; simpl; now rewrite H. Qed.

Lemma props_create_lows_ok pv t l : forall w,
  Acc pv w (PsProps t false) ->
  exists w', props_create_lows no_fault (PProps t) l w = (w', Go) /\ Acc pv w' (PsProps t false) /\
             w_hf w' = w_hf w /\ w_name w' = w_name w /\ w_cur w' = w_cur w /\ w_ud w' = w_ud w.
Proof.
  induction l as [|kd l IH]; intros w A; simpl.
  - exists w. repeat split; auto.
  - pose proof (props_tmp _ _ _ A) as Ht.
    pose proof (acc_issue _ _ _ (low_op kd (PProps t)) _ A (pstep_props_low _ _ _ _)) as A1.
    rewrite (surjective_pairing (issue no_fault (low_op kd (PProps t)) w)).
    rewrite issue_res_nf, apply_low_partial by auto. cbn [snd res_ok].
    destruct (IH _ A1) as (w' & H1 & H2 & H3 & H4 & H5 & H6).
    exists w'. rewrite H1. repeat split; auto.
Qed.

Lemma props_close_lows_ok pv t l : forall w,
  Acc pv w (PsProps t false) ->
  exists w', props_close_lows no_fault (PProps t) l w = (w', true) /\ Acc pv w' (PsProps t false) /\
             w_hf w' = w_hf w /\ w_name w' = w_name w /\ w_cur w' = w_cur w /\ w_ud w' = w_ud w.
Proof.
  induction l as [|kd l IH]; intros w A; simpl.
  - exists w. repeat split; auto.
  - pose proof (props_tmp _ _ _ A) as Ht.
    pose proof (acc_issue _ _ _ (low_op kd (PProps t)) _ A (pstep_props_low _ _ _ _)) as A1.
    rewrite (surjective_pairing (issue no_fault (low_op kd (PProps t)) w)).
    rewrite issue_res_nf, apply_low_partial by auto. cbn [snd res_ok].
    destruct (IH _ A1) as (w' & H1 & H2 & H3 & H4 & H5 & H6).
    exists w'. rewrite H1. repeat split; auto.
Qed.

Lemma acc_W0 pv : Acc pv W0 PsStart.
Proof. reflexivity. Qed.

Lemma init_ok v rc :
  exists w', init no_fault v rc W0 = (w', true) /\ Rel (v_props v) w' PsIdle /\
             w_cur w' = None /\ w_hf w' = false.
Proof.
  unfold init. change (probe (w_fs W0) (PProps false)) with Absent. cbv iota.
  set (pv := v_props v). destruct pv eqn:Epv.
  - (* Direct *)
    pose proof (acc_W0 Direct) as A0.
    pose proof (acc_issue _ _ _ _ _ A0 (pstep_probe Direct PsStart _ (PProps false) eq_refl)) as A1.
    rewrite (surjective_pairing (issue no_fault (Probe (PProps false)) W0)).
    set (w1 := fst (issue no_fault (Probe (PProps false)) W0)) in *.
    assert (Hf1 : w_fs w1 = empty_fs) by (unfold w1; now rewrite issue_fs_nf).
    assert (Hs2 : pstep Direct PsStart (w_fs w1) (CreateExcl (PProps false)) = Some (PsProps false false)) by reflexivity.
    pose proof (acc_issue _ _ _ _ _ A1 Hs2) as A2.
    rewrite (surjective_pairing (issue no_fault (CreateExcl (PProps false)) w1)).
    rewrite issue_res_nf, apply_create_ok by (rewrite Hf1; reflexivity). cbn [snd res_ok negb].
    destruct (props_create_lows_ok Direct false (r_props_create rc) _ A2) as (w3 & -> & A3 & H31 & H32 & H33 & H34).
    destruct (props_close_lows_ok Direct false (r_props_close rc) _ A3) as (w4 & -> & A4 & H41 & H42 & H43 & H44).
    pose proof (props_tmp _ _ _ A4) as Ht4.
    assert (Hs5 : pstep Direct (PsProps false false) (w_fs w4) (CloseFd (PProps false) 0) = Some PsIdle) by reflexivity.
    pose proof (acc_issue _ _ _ _ _ A4 Hs5) as A5.
    rewrite (surjective_pairing (issue no_fault (CloseFd (PProps false) 0) w4)).
    rewrite issue_res_nf. simpl apply. rewrite Ht4. cbn [snd res_ok andb].
    eexists. split; [reflexivity|].
    repeat split; try exact A5; fields; rewrite ?H44, ?H43, ?H41, ?H34, ?H33, ?H31; fields.
  - (* Staged *)
    pose proof (acc_W0 Staged) as A0.
    pose proof (acc_issue _ _ _ _ _ A0 (pstep_probe Staged PsStart _ (PProps true) eq_refl)) as A1.
    rewrite (surjective_pairing (issue no_fault (Probe (PProps true)) W0)).
    set (w1 := fst (issue no_fault (Probe (PProps true)) W0)) in *.
    assert (Hf1 : w_fs w1 = empty_fs) by (unfold w1; now rewrite issue_fs_nf).
    assert (Hs2 : pstep Staged PsStart (w_fs w1) (CreateTrunc (PProps true)) = Some (PsProps true false)) by reflexivity.
    pose proof (acc_issue _ _ _ _ _ A1 Hs2) as A2.
    rewrite (surjective_pairing (issue no_fault (CreateTrunc (PProps true)) w1)).
    rewrite issue_res_nf. simpl apply. rewrite Hf1. cbn [empty_fs parent_ok snd res_ok negb].
    destruct (props_create_lows_ok Staged true (r_props_create rc) _ A2) as (w3 & -> & A3 & H31 & H32 & H33 & H34).
    destruct (props_close_lows_ok Staged true (r_props_close rc) _ A3) as (w4 & -> & A4 & H41 & H42 & H43 & H44).
    pose proof (props_tmp _ _ _ A4) as Ht4.
    assert (Hs5 : pstep Staged (PsProps true false) (w_fs w4) (CloseFd (PProps true) 0) = Some (PsProps true true)) by reflexivity.
    pose proof (acc_issue _ _ _ _ _ A4 Hs5) as A5.
    rewrite (surjective_pairing (issue no_fault (CloseFd (PProps true) 0) w4)).
    rewrite issue_res_nf. simpl apply. rewrite Ht4. cbn [snd res_ok andb].
    set (w5 := fst (issue no_fault (CloseFd (PProps true) 0) w4)) in *.
    assert (Ht5 : w_fs w5 (PProps true) = Some (File (Complete 0))).
    { unfold w5. rewrite issue_fs_nf. simpl apply. rewrite Ht4. simpl. now rewrite upd_same. }
    assert (Hs6 : pstep Staged (PsProps true true) (w_fs w5) (Rename (PProps true) (PProps false)) = Some PsIdle) by reflexivity.
    pose proof (acc_issue _ _ _ _ _ A5 Hs6) as A6.
    rewrite (surjective_pairing (issue no_fault (Rename (PProps true) (PProps false)) w5)).
    rewrite issue_res_nf. simpl apply. rewrite Ht5. cbn [snd res_ok].
    eexists. split; [reflexivity|].
    repeat split; try exact A6; unfold w5; fields; rewrite ?H44, ?H43, ?H41, ?H34, ?H33, ?H31; fields.
Qed.

(* ---------------------------------------------------------------- the whole fault-free run *)
Lemma wrun_nf v rc :
  exists w1 w2 outs ps2,
    init no_fault v rc W0 = (w1, true) /\ calls no_fault v (r_calls rc) w1 = (w2, outs) /\
    wrun no_fault v rc = mkRes true outs (close_call no_fault v w2) /\
    Rel (v_props v) w2 ps2 /\ (forallb (fun b => b) outs = true -> Pub (all_parts rc) w2).
Proof.
  destruct (init_ok v rc) as (w1 & Hi & R1 & Hc1 & Hh1).
  assert (HP1 : Pub [] w1) by (intros d k t Hl; discriminate).
  destruct (calls_ok (v_props v) v (r_calls rc) w1 PsIdle [] R1 HP1) as (w2 & outs & ps2 & Hc & R2 & H2).
  exists w1, w2, outs, ps2. unfold wrun. rewrite Hi, Hc. split; [reflexivity|]. split; [reflexivity|].
  split; [reflexivity|]. split; [exact R2|exact H2].
Qed.

(* the fault-free trace of every recording is accepted by the protocol and ends idle *)
Theorem writer_obeys v rc :
  proto_run (v_props v) PsStart empty_fs (trace_of v rc) =
  Some (PsIdle, w_fs (rs_w (wrun no_fault v rc))).
Proof.
  destruct (wrun_nf v rc) as (w1 & w2 & outs & ps2 & Hi & Hc & Hr & R2 & H2).
  assert (HPx : Pub [] w2) by (intros d k t Hl; discriminate).
  destruct (close_call_ok _ v w2 ps2 [] R2 HPx) as (w' & E & A' & _).
  unfold trace_of. rewrite Hr. simpl. rewrite E. exact A'.
Qed.

(* ... the channel is created, no unexamined failure occurs, and when every call was accepted
   every file addressed is under its final name, complete, with its last image *)
Theorem writer_publishes v rc :
  let r := wrun no_fault v rc in
  rs_init r = true /\ w_ud (rs_w r) = false /\
  (forallb (fun b => b) (rs_out r) = true ->
   forall d k t, last_tag (all_parts rc) d k = Some t ->
                 w_fs (rs_w r) (PData d false k) = Some (File (Complete t))).
Proof.
  destruct (wrun_nf v rc) as (w1 & w2 & outs & ps2 & Hi & Hc & Hr & R2 & H2).
  simpl. rewrite Hr. simpl. split; [reflexivity|].
  split.
  - assert (HPx : Pub [] w2) by (intros d k t Hl; discriminate).
    destruct (close_call_ok _ v w2 ps2 [] R2 HPx) as (w' & -> & _ & Hu & _). exact Hu.
  - intros Hall. destruct (close_call_ok _ v w2 ps2 _ R2 (H2 Hall)) as (w' & -> & _ & _ & H). exact H.
Qed.

(* the state the model reaches is the replay of its trace *)
Lemma writer_final_state v rc :
  w_fs (rs_w (wrun no_fault v rc)) = state_after (trace_of v rc) empty_fs.
Proof. eapply run_state. apply writer_obeys. Qed.
