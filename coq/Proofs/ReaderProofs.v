(* Lemmas about Model/ReaderCore.v: the reader refines the read Spec `runs` over the abstraction
   `files_abs` of the files on disk (reader half of C01), and the C08 relations follow. *)
From Coq Require Import ZArith List Lia Bool Sorted.
From DRF Require Import Base.DivLemmas Base.Runs Model.Ld80 Model.ReaderCore.
Import ListNotations.
Local Open Scope Z_scope.

(* ------------------------------------------------------------------ generic list facts *)

Lemma in_zseq a len x : In x (zseq a len) <-> a <= x < a + len.
Proof.
  unfold zseq. rewrite in_map_iff. split.
  - intros (i & <- & Hi). apply in_seq in Hi. lia.
  - intros H. exists (Z.to_nat (x - a)). split; [lia|]. apply in_seq. lia.
Qed.

Lemma map_seq_sorted (f : nat -> Z) n : forall s,
  (forall i j, (i < j)%nat -> f i < f j) -> StronglySorted Z.lt (map f (seq s n)).
Proof.
  induction n as [|n IH]; intros s Hf; simpl; constructor.
  - apply IH; auto.
  - apply Forall_forall. intros x Hx. apply in_map_iff in Hx. destruct Hx as (j & <- & Hj).
    apply in_seq in Hj. apply Hf. lia.
Qed.

Lemma zseq_sorted a len : StronglySorted Z.lt (zseq a len).
Proof. unfold zseq. apply map_seq_sorted. intros. lia. Qed.

Lemma SS_map {A B} (R : B -> B -> Prop) (R' : A -> A -> Prop) (f : A -> B) l :
  (forall x y, R' x y -> R (f x) (f y)) -> StronglySorted R' l -> StronglySorted R (map f l).
Proof.
  intros H. induction 1 as [|a l Hs IH Hall]; simpl; constructor; auto.
  apply Forall_forall. intros y Hy. apply in_map_iff in Hy. destruct Hy as (x & <- & Hx).
  rewrite Forall_forall in Hall. auto.
Qed.

Lemma SS_app_inv {A} (R : A -> A -> Prop) (a b : list A) :
  StronglySorted R (a ++ b) -> forall x y, In x a -> In y b -> R x y.
Proof.
  induction a as [|z a IH]; simpl; [tauto|].
  intros H x y [<-|Hx] Hy.
  - inversion H as [|? ? _ Hall]; subst. rewrite Forall_forall in Hall. apply Hall.
    apply in_or_app. auto.
  - inversion H; subst. apply IH; auto.
Qed.

Lemma SS_in_lt {A} (R : A -> A -> Prop) (l : list A) x y :
  StronglySorted R l -> In x l -> In y l -> x = y \/ R x y \/ R y x.
Proof.
  induction 1 as [|a l Hs IH Hall]; simpl; [tauto|].
  rewrite Forall_forall in Hall.
  intros [<-|Hx] [<-|Hy]; auto.
Qed.

Lemma nth_error_firstn' {A} n (l : list A) i : (i < n)%nat -> nth_error (firstn n l) i = nth_error l i.
Proof.
  revert l i. induction n as [|n IH]; intros l i Hi; [lia|].
  destruct l as [|x l]; simpl; [destruct i; reflexivity|].
  destruct i; simpl; auto. apply IH. lia.
Qed.

Lemma nth_error_skipn' {A} n (l : list A) i : nth_error (skipn n l) i = nth_error l (n + i).
Proof.
  revert l. induction n as [|n IH]; intros l; simpl; auto.
  destruct l as [|x l]; simpl; auto. destruct i; reflexivity.
Qed.

Lemma slice_length {A} (l : list A) a b : 0 <= a <= b -> b <= Z.of_nat (length l) ->
  Z.of_nat (length (slice l a b)) = b - a.
Proof. intros H1 H2. unfold slice. rewrite firstn_length, skipn_length. lia. Qed.

Lemma slice_nth {A} (l : list A) a b i : 0 <= a -> 0 <= i < b - a ->
  nth_error (slice l a b) (Z.to_nat i) = nth_error l (Z.to_nat (a + i)).
Proof.
  intros Ha Hi. unfold slice. rewrite nth_error_firstn' by lia. rewrite nth_error_skipn'.
  f_equal. lia.
Qed.

(* a dict filled in ascending key order lists its items in insertion order *)
Definition key_lt {P} (p q : Z * P) : Prop := fst p < fst q.

Lemma dict_set_snoc {P} (d : list (Z * P)) k v :
  (forall p, In p d -> fst p < k) -> dict_set k v d = d ++ [(k, v)].
Proof.
  induction d as [|[k' v'] d IH]; simpl; auto. intros H.
  pose proof (H (k', v') (or_introl eq_refl)) as Hk. simpl in Hk.
  destruct (Z.ltb_spec k k'); [lia|]. destruct (Z.eqb_spec k k'); [lia|].
  f_equal. apply IH. intros p Hp. apply H. auto.
Qed.

Lemma dict_of_sorted {P} (l : list (Z * P)) : StronglySorted key_lt l -> dict_of l = l.
Proof.
  unfold dict_of. intros H.
  assert (G : forall (l acc : list (Z * P)), StronglySorted key_lt (acc ++ l) ->
              fold_left (fun d p => dict_set (fst p) (snd p) d) l acc = acc ++ l).
  { clear. induction l as [|p l IH]; intros acc H; simpl.
    - rewrite app_nil_r. reflexivity.
    - rewrite dict_set_snoc.
      + destruct p as [k v]. simpl. rewrite IH; rewrite <- app_assoc; auto.
      + intros x Hx. apply (SS_app_inv _ _ _ H x p Hx). left. reflexivity. }
  apply (G l []). exact H.
Qed.

Lemma dict_of_map_snd {P Q} (g : P -> Q) (l : list (Z * P)) :
  StronglySorted key_lt l ->
  dict_of (map (fun p => (fst p, g (snd p))) l) = map (fun p => (fst p, g (snd p))) (dict_of l).
Proof.
  intros H. rewrite (dict_of_sorted l H). apply dict_of_sorted.
  apply (SS_map _ key_lt); auto.
Qed.

Lemma dict_of_lens {W} (bs : list (@block W)) :
  StronglySorted key_lt bs -> dict_of (lens bs) = lens (dict_of bs).
Proof. intros H. exact (dict_of_map_snd (fun d : list W => Z.of_nat (length d)) bs H). Qed.

Lemma first_some_in {A B} (g : A -> option B) l v :
  first_some g l = Some v -> exists a, In a l /\ g a = Some v.
Proof.
  induction l as [|a l IH]; simpl; [discriminate|].
  destruct (g a) eqn:E.
  - intros H. inversion H; subst. eauto.
  - intros H. destruct (IH H) as (x & Hx & Hg). eauto.
Qed.

Lemma first_some_none {A B} (g : A -> option B) l :
  first_some g l = None <-> forall a, In a l -> g a = None.
Proof.
  induction l as [|a l IH]; simpl.
  - split; auto. tauto.
  - destruct (g a) eqn:E.
    + split; [discriminate|]. intros H. rewrite (H a) in E by auto. discriminate.
    + rewrite IH. split.
      * intros H x [<-|Hx]; auto.
      * intros H x Hx. apply H. auto.
Qed.

Lemma first_some_owner {A B} (g : A -> option B) l a :
  In a l -> (forall a', In a' l -> g a' <> None -> a' = a) -> first_some g l = g a.
Proof.
  induction l as [|x l IH]; simpl; [tauto|].
  intros Hin Hu. destruct (g x) eqn:E.
  - assert (x = a) by (apply Hu; auto; congruence). subst. auto.
  - destruct Hin as [->|Hin]; [|apply IH; auto].
    rewrite E. apply first_some_none. intros a' Ha'. destruct (g a') eqn:E'; auto.
    assert (a' = a) by (apply Hu; auto; congruence). subst. congruence.
Qed.

Lemma first_some_ext {A B} (g g' : A -> option B) l :
  (forall a, In a l -> g a = g' a) -> first_some g l = first_some g' l.
Proof.
  induction l as [|a l IH]; simpl; auto. intros H.
  rewrite (H a) by auto. destruct (g' a); auto.
Qed.

Lemma den_flat_map {A W} (F : A -> list (@block W)) l k :
  den (flat_map F l) k = first_some (fun a => den (F a) k) l.
Proof.
  induction l as [|a l IH]; simpl; auto.
  rewrite den_app', IH. reflexivity.
Qed.

Lemma mult_step x y c : 0 < c -> x mod c = 0 -> y mod c = 0 -> x < y -> x + c <= y.
Proof.
  intros Hc Hx Hy Hlt.
  apply Z.div_exact in Hx; [|lia]. apply Z.div_exact in Hy; [|lia].
  set (p := x / c) in *. set (q := y / c) in *.
  assert (p < q) by nia. assert (c * (p + 1) <= c * q) by (apply Z.mul_le_mono_nonneg_l; lia). lia.
Qed.

(* ------------------------------------------------------------------ one file: the row loop *)

Section Rows.
Context {V W : Type} (sel : V -> W).

Definition clip_piece {P} (mk : Z -> Z -> P) (g o stop s e : Z) : list (Z * P) :=
  let cs := Z.max g s in
  let ce := Z.min (g + (stop - o)) (e + 1) in
  if cs <? ce then [(cs, mk (o + (cs - g)) (o + (ce - g)))] else [].

(* the branches of `_read` compute the intersection of the row with [s, e] *)
Lemma read_rows_gen_cons {P} (mk : Z -> Z -> P) g o rest dl s e :
  let stop := match rest with [] => dl | (_, o') :: _ => o' end in
  o < stop ->
  read_rows_gen mk ((g, o) :: rest) dl s e
  = clip_piece mk g o stop s e ++ read_rows_gen mk rest dl s e.
Proof.
  intros stop Ho. unfold clip_piece. cbn [read_rows_gen]. fold stop.
  destruct (Z.leb_spec s g); destruct (Z.leb_spec (g + (stop - o)) (e + 1));
    try destruct (Z.ltb_spec s (g + (stop - o)));
    repeat match goal with
           | |- context [?a <=? ?b] => destruct (Z.leb_spec a b)
           | |- context [?a <? ?b] => destruct (Z.ltb_spec a b)
           end; simpl; try reflexivity; try lia;
    try (f_equal; f_equal; f_equal; lia).
Qed.

Definition mkd (dat : list V) (a b : Z) : list W := map sel (slice dat a b).

Lemma rows_abs_below (dat : list V) dl lo hi k : forall rows, rows_ok rows dl lo hi ->
  match rows with (g, _) :: _ => k < g | [] => True end -> rows_abs rows dl dat k = None.
Proof.
  induction rows as [|[g o] rest IH]; cbn [rows_abs rows_ok]; auto.
  intros (A0 & A1 & A2 & A3 & A4 & A5 & A6) Hk.
  destruct (Z.leb_spec g k); simpl; [lia|]. apply IH; auto.
  destruct rest as [|[g' o'] rest']; auto. lia.
Qed.

Lemma read_rows_spec (dat : list V) dl lo hi s e : dl = Z.of_nat (length dat) ->
  forall rows, rows_ok rows dl lo hi ->
  let bs := read_rows_gen (mkd dat) rows dl s e in
  sorted_disj bs /\
  (forall b, In b bs ->
     match rows with (g, _) :: _ => g <= fst b | [] => True end /\
     lo <= fst b /\ bend b <= hi /\ s <= fst b /\ bend b <= e + 1) /\
  (forall k, den bs k = option_map sel (restrict (rows_abs rows dl dat) s e k)) /\
  lens bs = read_rows_gen (fun a b => b - a) rows dl s e.
Proof.
  intros Hdl. induction rows as [|[g o] rest IH]; intros Hok.
  - simpl. repeat split; auto; try tauto. intros k. unfold restrict.
    destruct ((s <=? k) && (k <=? e)); reflexivity.
  - cbn [rows_ok] in Hok. set (stop := match rest with [] => dl | (_, o') :: _ => o' end) in *.
    destruct Hok as (Ho0 & Ho & Hstop & Hlo & Hhi & Hnext & Hrest).
    specialize (IH Hrest). cbv zeta in IH. destruct IH as (IHs & IHb & IHd & IHl).
    intros bs. subst bs. rewrite !read_rows_gen_cons by (fold stop; lia). fold stop.
    set (tail := read_rows_gen (mkd dat) rest dl s e) in *.
    (* every block of the tail starts at or after the end of this row *)
    assert (Htail : forall b, In b tail -> g + (stop - o) <= fst b).
    { intros b Hb. destruct (IHb b Hb) as (H1 & _). destruct rest as [|[g' o'] rest']; [inversion Hb|]. lia. }
    assert (Habs : forall k, k < g + (stop - o) -> rows_abs rest dl dat k = None).
    { intros k Hk. apply (rows_abs_below dat dl lo hi k rest Hrest).
      destruct rest as [|[g' o'] rest']; auto. lia. }
    unfold clip_piece. set (cs := Z.max g s). set (ce := Z.min (g + (stop - o)) (e + 1)).
    destruct (Z.ltb_spec cs ce) as [Hlt|Hge]; cbn [app].
    + (* a non-empty piece *)
      set (pc := (cs, mkd dat (o + (cs - g)) (o + (ce - g))) : @block W).
      change (@cons (Z * list W)%type) with (@cons (@block W)).
      assert (Hlen : blen pc = ce - cs).
      { unfold blen, pc, mkd. simpl. rewrite map_length, slice_length; lia. }
      assert (Hend : bend pc = ce) by (unfold bend; rewrite Hlen; simpl; lia).
      split; [|split; [|split]].
      * split; [|split; [|exact IHs]].
        -- intros E. apply (f_equal (@length W)) in E. unfold blen in Hlen. simpl in *. lia.
        -- destruct tail as [|b' t] eqn:Et; auto. rewrite Hend.
           pose proof (Htail b' (or_introl eq_refl)). lia.
      * intros b [<-|Hb].
        -- rewrite Hend. simpl. lia.
        -- destruct (IHb b Hb) as (H1 & H2 & H3 & H4 & H5). pose proof (Htail b Hb).
           repeat split; auto. lia.
      * intros k. destruct (Z_lt_le_dec k cs) as [L1|L1]; [|destruct (Z_lt_le_dec k ce) as [L2|L2]].
        -- rewrite den_skip by (simpl; lia). rewrite IHd. unfold restrict.
           destruct ((s <=? k) && (k <=? e)) eqn:Er; auto. cbn [rows_abs]. fold stop.
           apply andb_true_iff in Er. destruct Er as [E1 E2]. apply Z.leb_le in E1, E2.
           destruct (Z.leb_spec g k); simpl; auto. destruct (Z.ltb_spec k (g + (stop - o))); auto. lia.
        -- rewrite den_head by (rewrite Hend; simpl; lia). unfold pc, mkd. simpl.
           rewrite nth_error_map. rewrite slice_nth by lia. unfold restrict.
           replace ((s <=? k) && (k <=? e)) with true
             by (symmetry; apply andb_true_iff; split; apply Z.leb_le; lia).
           cbn [rows_abs]. fold stop.
           replace ((g <=? k) && (k <? g + (stop - o))) with true
             by (symmetry; apply andb_true_iff; split; [apply Z.leb_le | apply Z.ltb_lt]; lia).
           do 3 f_equal. lia.
        -- rewrite den_skip by (rewrite Hend; simpl; lia). rewrite IHd. unfold restrict.
           destruct ((s <=? k) && (k <=? e)) eqn:Er; auto. cbn [rows_abs]. fold stop.
           apply andb_true_iff in Er. destruct Er as [E1 E2]. apply Z.leb_le in E1, E2.
           destruct (Z.leb_spec g k); simpl; auto. destruct (Z.ltb_spec k (g + (stop - o))); auto. lia.
      * cbn [lens map]. fold (lens tail). rewrite IHl. f_equal. f_equal. fold pc. rewrite Hlen. lia.
    + (* nothing of this row in [s, e] *)
      split; [exact IHs|]. split; [|split; [|exact IHl]].
      * intros b Hb. destruct (IHb b Hb) as (H1 & H2 & H3 & H4 & H5). pose proof (Htail b Hb).
        repeat split; auto. lia.
      * intros k. rewrite IHd. unfold restrict.
        destruct ((s <=? k) && (k <=? e)) eqn:Er; auto. cbn [rows_abs]. fold stop.
        apply andb_true_iff in Er. destruct Er as [E1 E2]. apply Z.leb_le in E1, E2.
        destruct (Z.leb_spec g k); simpl; auto. destruct (Z.ltb_spec k (g + (stop - o))); auto. lia.
Qed.

Lemma rows_abs_range (dat : list V) dl lo hi k : forall rows, rows_ok rows dl lo hi ->
  rows_abs rows dl dat k <> None -> lo <= k < hi.
Proof.
  induction rows as [|[g o] rest IH]; cbn [rows_abs rows_ok]; [congruence|].
  intros (A0 & A1 & A2 & A3 & A4 & A5 & A6).
  destruct (Z.leb_spec g k); simpl; auto. destruct (Z.ltb_spec k (g + (match rest with [] => dl | (_, o') :: _ => o' end - o))); auto.
  intros _. lia.
Qed.
End Rows.

(* ------------------------------------------------------------------ candidate files (exact lookup) *)

Lemma sample_ms_exact c k : sample_ms ExactRational c k = k * (1000 * rd c) / rn c.
Proof. unfold sample_ms. f_equal. ring. Qed.

Lemma sample_secs_exact c k : 0 < rn c -> sample_secs ExactRational c k = sample_ms ExactRational c k / 1000.
Proof.
  intros Hn. unfold sample_secs, sample_ms. rewrite Z.div_div by lia.
  rewrite Z.div_mul_cancel_r by lia. reflexivity.
Qed.

Lemma sample_ms_mono c k k' : 0 < rn c -> 0 < rd c -> k <= k' ->
  sample_ms ExactRational c k <= sample_ms ExactRational c k'.
Proof. intros Hn Hd H. unfold sample_ms. apply Z.div_le_mono; nia. Qed.

(* a file slot lies inside one subdirectory *)
Lemma slot_subdir ms T fc Q : 0 < fc -> 0 < Q -> Q mod fc = 0 -> ms mod fc = 0 ->
  ms <= T < ms + fc -> T / Q = ms / Q.
Proof.
  intros Hfc HQ HQm Hm HT.
  apply Z.div_exact in HQm; [|lia]. apply Z.div_exact in Hm; [|lia].
  set (q := Q / fc) in *. set (a := ms / fc) in *.
  assert (0 < q) by nia.
  rewrite HQm, Hm. rewrite <- !Z.div_div by lia.
  replace (fc * a / fc) with a by (rewrite Z.mul_comm, Z.div_mul; lia).
  replace (T / fc) with a; auto.
  symmetry. apply div_unique_pos; lia.
Qed.

Lemma cdiv_exact_div a b : 0 < b -> a mod b = 0 -> cdiv a b = a / b.
Proof.
  intros Hb Hm. rewrite cdiv_exact_or_up by auto. rewrite Hm. simpl. lia.
Qed.

Lemma cdiv_le_of_le a b q : 0 < b -> a <= b * q -> cdiv a b <= q.
Proof.
  intros Hb H. pose proof (proj1 (cdiv_spec a b (cdiv a b) Hb) eq_refl). nia.
Qed.

Section Candidates.
Variable c : cfg.
Hypothesis Hc : cfg_ok c.

Lemma subdir_files_in S E sub p :
  In p (subdir_files c S E sub) ->
  fst p = sub /\ exists j, 0 <= j /\ fcad c * j < scad c * 1000 /\ snd p = sub * 1000 + j * fcad c.
Proof.
  destruct Hc as (Hn & Hd & Hfc & Hsc & Hdiv).
  unfold subdir_files. intros Hin. apply in_map_iff in Hin. destruct Hin as (j & <- & Hj).
  apply in_zseq in Hj. simpl. split; auto. exists j.
  pose proof (proj1 (cdiv_spec (scad c * 1000) (fcad c) _ Hfc) eq_refl) as Hq.
  split; [lia|]. split; [nia|reflexivity].
Qed.

Lemma subdir_files_sorted S E sub :
  StronglySorted (fun p q => snd p < snd q) (subdir_files c S E sub).
Proof.
  destruct Hc as (Hn & Hd & Hfc & Hsc & Hdiv).
  unfold subdir_files. apply (SS_map _ Z.lt); [|apply zseq_sorted].
  intros x y Hxy. simpl. nia.
Qed.

Lemma get_file_list_sorted lk s e :
  StronglySorted (fun p q => snd p < snd q) (get_file_list lk c s e).
Proof.
  destruct Hc as (Hn & Hd & Hfc & Hsc & Hdiv).
  unfold get_file_list. apply (SS_flat_map Z.lt).
  - apply zseq_sorted.
  - intros i _. apply subdir_files_sorted.
  - intros i i' _ _ Hlt x y Hx Hy.
    apply subdir_files_in in Hx. apply subdir_files_in in Hy.
    destruct Hx as (_ & j & Hj0 & Hj1 & ->). destruct Hy as (_ & j' & Hj0' & Hj1' & ->). nia.
Qed.

(* every file slot holding an index of [s, e] is a candidate *)
Lemma get_file_list_complete s e k ms :
  0 <= ms -> ms mod fcad c = 0 ->
  slot_lo c ms <= k < slot_lo c (ms + fcad c) -> s <= k <= e ->
  In (ms / 1000 / scad c * scad c, ms) (get_file_list ExactRational c s e).
Proof.
  destruct Hc as (Hn & Hd & Hfc & Hsc & Hdiv).
  intros Hms Hmod Hwin Hse.
  unfold slot_lo in Hwin. apply window_iff in Hwin; try lia.
  set (T := k * (1000 * rd c) / rn c) in *.
  unfold get_file_list. rewrite !sample_secs_exact by lia.
  set (S := sample_ms ExactRational c s). set (E := sample_ms ExactRational c e).
  assert (HST : S <= T) by (unfold S, T; rewrite <- sample_ms_exact; apply sample_ms_mono; lia).
  assert (HTE : T <= E) by (unfold E, T; rewrite <- sample_ms_exact; apply sample_ms_mono; lia).
  set (Q := scad c * 1000) in *.
  assert (HQ : 0 < Q) by (unfold Q; lia).
  assert (Hsub : T / Q = ms / Q) by (apply (slot_subdir ms T (fcad c) Q); auto; lia).
  set (i := ms / 1000 / scad c).
  assert (Hi : i = ms / Q) by (unfold i, Q; rewrite Z.div_div by lia; f_equal; lia).
  apply in_flat_map. exists i. split.
  - apply in_zseq.
    assert (S / 1000 / scad c <= i).
    { rewrite Hi, <- Hsub. rewrite Z.div_div by lia. replace (1000 * scad c) with Q by (unfold Q; lia).
      apply Z.div_le_mono; lia. }
    assert (i <= (E / 1000 + 1) / scad c).
    { rewrite Hi, <- Hsub. transitivity (E / 1000 / scad c).
      - rewrite Z.div_div by lia. replace (1000 * scad c) with Q by (unfold Q; lia).
        apply Z.div_le_mono; lia.
      - apply Z.div_le_mono; lia. }
    lia.
  - unfold subdir_files. apply in_map_iff.
    (* position of the file inside its subdirectory *)
    pose proof (Z.div_mod ms Q ltac:(lia)) as Hdm. pose proof (Z.mod_pos_bound ms Q HQ) as Hmb.
    rewrite <- Hi in Hdm.
    assert (Hrm : (ms mod Q) mod fcad c = 0).
    { assert (Hf : fcad c <> 0) by lia.
      apply (proj2 (Z.mod_divide _ _ Hf)). rewrite (Z.mod_eq ms Q) by lia.
      apply Z.divide_sub_r.
      - apply (proj1 (Z.mod_divide _ _ Hf)). exact Hmod.
      - apply Z.divide_mul_l. apply (proj1 (Z.mod_divide _ _ Hf)). exact Hdiv. }
    apply Z.div_exact in Hrm; [|lia]. set (j := ms mod Q / fcad c) in *.
    assert (Hmsj : ms = i * scad c * 1000 + j * fcad c) by (unfold Q in *; lia).
    exists j. split; [f_equal; lia|]. apply in_zseq.
    assert (Hq : cdiv Q (fcad c) = Q / fcad c) by (apply cdiv_exact_div; auto).
    pose proof (Z.div_exact Q (fcad c) ltac:(lia)) as HQe. apply proj2 in HQe. specialize (HQe Hdiv).
    set (q := Q / fcad c) in *.
    assert (0 <= j) by nia.
    assert (j <= q - 1) by nia.
    assert (cdiv (S - (fcad c - 1) - i * scad c * 1000) (fcad c) <= j) by (apply cdiv_le_of_le; nia).
    assert (j <= (E - i * scad c * 1000) / fcad c) by (apply Z.div_le_lower_bound; nia).
    fold Q. rewrite Hq. lia.
Qed.
End Candidates.

(* ------------------------------------------------------------------ the file set *)

Section Files.
Context {V : Type}.
Variable c : cfg.
Notation rfile := (rfile V).
Implicit Types (f : rfile) (fs : list rfile).

Definition ms_lt f f' : Prop := file_ms f < file_ms f'.

Lemma ms_sorted_SS fs : ms_sorted fs -> StronglySorted ms_lt fs.
Proof.
  induction fs as [|f r IH]; simpl; [constructor|].
  intros (H1 & H2). specialize (IH H2). constructor; auto.
  destruct r as [|f' r']; [constructor|].
  inversion IH as [|? ? _ Hall]; subst. constructor; [exact H1|].
  apply Forall_forall. intros x Hx. rewrite Forall_forall in Hall. unfold ms_lt in *.
  specialize (Hall x Hx). lia.
Qed.

Lemma ms_unique fs f f' : ms_sorted fs -> In f fs -> In f' fs -> file_ms f = file_ms f' -> f = f'.
Proof.
  intros Hs Hf Hf' E. destruct (SS_in_lt ms_lt fs f f' (ms_sorted_SS fs Hs) Hf Hf') as [H|[H|H]];
    auto; unfold ms_lt in H; lia.
Qed.

Lemma file_abs_window f k : file_ok c f -> file_abs f k <> None ->
  slot_lo c (file_ms f) <= k < slot_lo c (file_ms f + fcad c).
Proof.
  intros (_ & _ & Hrows & _) H. unfold file_abs in H.
  apply (rows_abs_range (fdata f) (dlen f) _ _ k (findex f) Hrows H).
Qed.

(* two files of the set whose windows contain the same index are the same file *)
Lemma window_owner fs f f' k : FilesInv c fs -> In f fs -> In f' fs ->
  slot_lo c (file_ms f) <= k < slot_lo c (file_ms f + fcad c) ->
  slot_lo c (file_ms f') <= k < slot_lo c (file_ms f' + fcad c) -> f = f'.
Proof.
  intros ((Hn & Hd & Hfc & Hsc & Hdiv) & Hall & Hs) Hf Hf' W W'.
  rewrite Forall_forall in Hall.
  destruct (Hall f Hf) as (_ & _ & _ & _ & Hm & _). destruct (Hall f' Hf') as (_ & _ & _ & _ & Hm' & _).
  unfold slot_lo in *. apply window_iff in W; try lia. apply window_iff in W'; try lia.
  apply (ms_unique fs); auto.
  destruct (Z.lt_trichotomy (file_ms f) (file_ms f')) as [L|[L|L]]; auto; exfalso.
  - pose proof (mult_step _ _ _ Hfc Hm Hm' L). lia.
  - pose proof (mult_step _ _ _ Hfc Hm' Hm L). lia.
Qed.

Lemma find_file_some fs cand f : find_file fs cand = Some f ->
  In f fs /\ file_sub f = fst cand /\ file_ms f = snd cand.
Proof.
  unfold find_file. intros H. apply find_some in H. destruct H as (Hin & Hb).
  apply andb_true_iff in Hb. destruct Hb as [B1 B2]. apply Z.eqb_eq in B1, B2. auto.
Qed.

Lemma found_files_in lk fs s e f : In f (found_files lk c fs s e) ->
  In f fs /\ In (file_sub f, file_ms f) (get_file_list lk c s e).
Proof.
  unfold found_files. intros H. apply in_flat_map in H. destruct H as (cand & Hc & Hf).
  destruct (find_file fs cand) as [f'|] eqn:E; [|inversion Hf].
  destruct Hf as [<-|[]]. apply find_file_some in E. destruct E as (Hin & E1 & E2).
  split; auto. rewrite E1, E2. destruct cand; exact Hc.
Qed.

Lemma found_files_sorted lk fs s e : cfg_ok c -> StronglySorted ms_lt (found_files lk c fs s e).
Proof.
  intros Hc. unfold found_files. apply (SS_flat_map (fun p q => snd p < snd q)).
  - apply get_file_list_sorted. exact Hc.
  - intros a _. destruct (find_file fs a); repeat constructor.
  - intros a a' _ _ Hlt x y Hx Hy.
    destruct (find_file fs a) as [fa|] eqn:Ea; [|inversion Hx].
    destruct (find_file fs a') as [fa'|] eqn:Ea'; [|inversion Hy].
    destruct Hx as [<-|[]]. destruct Hy as [<-|[]].
    apply find_file_some in Ea, Ea'. unfold ms_lt. lia.
Qed.

(* file_list_complete, at the level of the files found *)
Lemma found_files_complete fs s e f k : FilesInv c fs -> In f fs ->
  file_abs f k <> None -> s <= k <= e -> In f (found_files ExactRational c fs s e).
Proof.
  intros Hinv Hf Habs Hse. pose proof Hinv as (Hc & Hall & Hs).
  rewrite Forall_forall in Hall. pose proof (Hall f Hf) as Hok.
  pose proof (file_abs_window f k Hok Habs) as Hw.
  destruct Hok as (_ & _ & _ & Hms & Hmod & Hsub).
  pose proof (get_file_list_complete c Hc s e k (file_ms f) Hms Hmod Hw Hse) as Hcand.
  rewrite <- Hsub in Hcand.
  unfold found_files. apply in_flat_map. exists (file_sub f, file_ms f). split; auto.
  destruct (find_file fs (file_sub f, file_ms f)) as [f'|] eqn:E.
  - apply find_file_some in E. destruct E as (Hin' & _ & E2). simpl in E2.
    left. apply (ms_unique fs); auto.
  - exfalso. unfold find_file in E.
    pose proof (find_none _ _ E f Hf) as Hn. simpl in Hn. rewrite !Z.eqb_refl in Hn. discriminate.
Qed.

Section Sel.
Context {W : Type} (sel : V -> W).

Definition file_blocks f s e : list (@block W) :=
  read_rows_gen (mk_data sel f) (findex f) (dlen f) s e.

Lemma file_blocks_spec f s e : file_ok c f ->
  sorted_disj (file_blocks f s e) /\
  (forall b, In b (file_blocks f s e) ->
     slot_lo c (file_ms f) <= fst b /\ bend b <= slot_lo c (file_ms f + fcad c)) /\
  (forall k, den (file_blocks f s e) k = option_map sel (restrict (file_abs f) s e k)) /\
  lens (file_blocks f s e) = read_rows_gen (mk_len f) (findex f) (dlen f) s e.
Proof.
  intros (_ & _ & Hrows & _).
  destruct (read_rows_spec sel (fdata f) (dlen f) _ _ s e eq_refl (findex f) Hrows) as (A & B & C & D).
  split; [exact A|]. split; [|split; [exact C | exact D]].
  intros b Hb. destruct (B b Hb) as (_ & H1 & H2 & _). auto.
Qed.

Lemma pieces_spec fs s e : FilesInv c fs ->
  let ps := pieces_gen (mk_data sel) ExactRational c fs s e in
  sorted_disj ps /\
  (forall k, den ps k = option_map sel (restrict (files_abs fs) s e k)) /\
  lens ps = pieces_gen mk_len ExactRational c fs s e.
Proof.
  intros Hinv ps. pose proof Hinv as (Hc & Hall & Hs). rewrite Forall_forall in Hall.
  pose proof Hc as (Hn & Hd & Hfc & Hsc & Hdiv).
  set (found := found_files ExactRational c fs s e).
  assert (Hfound : forall f, In f found -> In f fs /\ file_ok c f).
  { intros f Hf. apply found_files_in in Hf. destruct Hf. auto. }
  assert (Hps : ps = flat_map (fun f => file_blocks f s e) found) by reflexivity.
  split; [|split].
  - (* pieces of ascending files are ascending *)
    rewrite Hps. apply sorted_disj_SS. split.
    + apply Forall_forall. intros b Hb. apply in_flat_map in Hb. destruct Hb as (f & Hf & Hb).
      destruct (file_blocks_spec f s e (proj2 (Hfound f Hf))) as (A & _).
      apply (sorted_gap_nonempty _ _ _ A Hb).
    + apply (SS_flat_map ms_lt).
      * apply found_files_sorted. exact Hc.
      * intros f Hf. destruct (file_blocks_spec f s e (proj2 (Hfound f Hf))) as (A & _).
        apply sorted_disj_SS in A. apply A.
      * intros f f' Hf Hf' Hlt x y Hx Hy.
        destruct (file_blocks_spec f s e (proj2 (Hfound f Hf))) as (_ & B & _).
        destruct (file_blocks_spec f' s e (proj2 (Hfound f' Hf'))) as (_ & B' & _).
        destruct (B x Hx) as (_ & Hxe). destruct (B' y Hy) as (Hys & _).
        destruct (proj2 (Hfound f Hf)) as (_ & _ & _ & _ & Hm & _).
        destruct (proj2 (Hfound f' Hf')) as (_ & _ & _ & _ & Hm' & _).
        pose proof (mult_step _ _ _ Hfc Hm Hm' Hlt) as Hstep.
        assert (slot_lo c (file_ms f + fcad c) <= slot_lo c (file_ms f')).
        { unfold slot_lo. apply cdiv_le_mono; nia. }
        unfold bbefore. lia.
  - intros k. rewrite Hps, den_flat_map.
    rewrite (first_some_ext _ (fun f => option_map sel (restrict (file_abs f) s e k))).
    2:{ intros f Hf. destruct (file_blocks_spec f s e (proj2 (Hfound f Hf))) as (_ & _ & C & _). apply C. }
    unfold restrict. destruct ((s <=? k) && (k <=? e)) eqn:Er.
    + apply andb_true_iff in Er. destruct Er as [E1 E2]. apply Z.leb_le in E1, E2.
      unfold files_abs. destruct (first_some (fun f => file_abs f k) fs) as [v|] eqn:Ef.
      * apply first_some_in in Ef. destruct Ef as (f & Hf & Hv).
        assert (Hfk : file_abs f k <> None) by congruence.
        rewrite (first_some_owner _ found f).
        -- rewrite Hv. reflexivity.
        -- apply (found_files_complete fs s e f k); auto.
        -- intros f' Hf' Hne. destruct (Hfound f' Hf') as (Hin' & Hok').
           assert (file_abs f' k <> None) by (destruct (file_abs f' k); [congruence | simpl in Hne; congruence]).
           apply (window_owner fs f' f k); auto; apply file_abs_window; auto.
      * simpl. apply first_some_none. intros f Hf.
        rewrite (proj1 (first_some_none _ fs) Ef f (proj1 (Hfound f Hf))). reflexivity.
    + simpl. apply first_some_none. intros f Hf. reflexivity.
  - rewrite Hps. unfold pieces_gen. fold found. unfold lens. rewrite flat_map_concat_map, concat_map, map_map.
    rewrite flat_map_concat_map. f_equal. apply map_ext_in. intros f Hf.
    destruct (file_blocks_spec f s e (proj2 (Hfound f Hf))) as (_ & _ & _ & D). exact D.
Qed.

Lemma sorted_disj_keys (bs : list (@block W)) : sorted_disj bs -> StronglySorted key_lt bs.
Proof.
  intros H. apply sorted_disj_SS in H. destruct H as [F S].
  induction S as [|b l Hs IH Hall]; constructor.
  - apply IH. inversion F; auto.
  - inversion F as [|? ? Hb Hl]; subst. apply Forall_forall. intros y Hy.
    rewrite Forall_forall in Hall. specialize (Hall y Hy). unfold bbefore, key_lt, bend in *.
    pose proof (blen_pos b Hb). lia.
Qed.

(* reader_refines, with a column selection *)
Theorem reader_refines_sel fs s e : FilesInv c fs ->
  read_sel sel ExactRational c fs s e = runs (fun k => option_map sel (files_abs fs k)) s e.
Proof.
  intros Hinv. destruct (pieces_spec fs s e Hinv) as (A & B & _).
  unfold read_sel. rewrite dict_of_sorted by (apply sorted_disj_keys; exact A).
  apply runs_unique.
  - apply combine_canon. exact A.
  - intros k. rewrite combine_den by exact A. rewrite B. unfold restrict.
    destruct ((s <=? k) && (k <=? e)); reflexivity.
Qed.
End Sel.

Theorem reader_refines fs s e : FilesInv c fs ->
  read ExactRational c fs s e = runs (files_abs fs) s e.
Proof.
  intros Hinv. unfold read. rewrite reader_refines_sel by exact Hinv.
  apply runs_ext. intros k _. destruct (files_abs fs k); reflexivity.
Qed.

Theorem subchannel_is_column {W} (sel : V -> W) fs s e : FilesInv c fs ->
  read_sel sel ExactRational c fs s e = map (bmap sel) (read ExactRational c fs s e).
Proof.
  intros Hinv. rewrite reader_refines_sel, reader_refines by exact Hinv. apply runs_column.
Qed.

Theorem split_invariance fs s k e : FilesInv c fs -> s <= k < e ->
  read ExactRational c fs s e
  = merge (read ExactRational c fs s k) (read ExactRational c fs (k + 1) e).
Proof.
  intros Hinv Hk. rewrite !reader_refines by exact Hinv. apply runs_split; lia.
Qed.

Theorem lengths_agree fs s e : FilesInv c fs ->
  get_continuous_blocks ExactRational c fs s e = lens (read ExactRational c fs s e).
Proof.
  intros Hinv. destruct (pieces_spec (fun v => v) fs s e Hinv) as (A & _ & L).
  unfold get_continuous_blocks, read, read_sel. rewrite <- L.
  pose proof (sorted_disj_keys _ A) as K.
  rewrite dict_of_lens by exact K. apply combine_len_lens.
Qed.
End Files.

(* ------------------------------------------------------------------ file_list_complete, bounds *)

Section Bounds.
Context {V : Type}.
Variable c : cfg.
Notation rfile := (rfile V).
Implicit Types (f : rfile) (fs : list rfile).

Theorem file_list_complete fs f s e k : FilesInv c fs -> In f fs ->
  file_abs f k <> None -> s <= k <= e ->
  In (file_sub f, file_ms f) (get_file_list ExactRational c s e).
Proof.
  intros Hinv Hf Habs Hse.
  apply (found_files_in c ExactRational fs s e f).
  apply (found_files_complete c fs s e f k); auto.
Qed.

Lemma last_map_some (r : Z * Z) rest :
  last (map Some (r :: rest)) None
  = match rest with [] => Some r | _ :: _ => last (map Some rest) None end.
Proof. destruct rest; reflexivity. Qed.

Lemma rows_abs_cons (dat : list V) dl g o rest k :
  rows_abs ((g, o) :: rest) dl dat k
  = if (g <=? k) && (k <? g + (match rest with [] => dl | (_, o') :: _ => o' end - o))
    then nth_error dat (Z.to_nat (o + (k - g))) else rows_abs rest dl dat k.
Proof. reflexivity. Qed.

Lemma rows_bounds (dat : list V) dl lo hi : dl = Z.of_nat (length dat) ->
  forall rest g0 o0, rows_ok ((g0, o0) :: rest) dl lo hi ->
  exists gl ol, last (map Some ((g0, o0) :: rest)) None = Some (gl, ol) /\
    rows_abs ((g0, o0) :: rest) dl dat g0 <> None /\
    rows_abs ((g0, o0) :: rest) dl dat (gl + (dl - (ol + 1))) <> None /\
    g0 <= gl + (dl - (ol + 1)) /\
    forall k, rows_abs ((g0, o0) :: rest) dl dat k <> None -> g0 <= k <= gl + (dl - (ol + 1)).
Proof.
  intros Hdl. induction rest as [|[g1 o1] rest IH]; intros g0 o0 Hok.
  - cbn [rows_ok] in Hok. destruct Hok as (A0 & A1 & A2 & A3 & A4 & _).
    exists g0, o0. split; [reflexivity|]. cbn [rows_abs].
    assert (Hnth : forall k, g0 <= k < g0 + (dl - o0) -> nth_error dat (Z.to_nat (o0 + (k - g0))) <> None).
    { intros k Hk. apply nth_error_Some. lia. }
    split; [|split; [|split]].
    + destruct (Z.leb_spec g0 g0); [|lia]. destruct (Z.ltb_spec g0 (g0 + (dl - o0))); [|lia]. simpl.
      apply Hnth. lia.
    + destruct (Z.leb_spec g0 (g0 + (dl - (o0 + 1)))); [|lia].
      destruct (Z.ltb_spec (g0 + (dl - (o0 + 1))) (g0 + (dl - o0))); [|lia]. simpl. apply Hnth. lia.
    + lia.
    + intros k. destruct (Z.leb_spec g0 k); simpl; [|congruence].
      destruct (Z.ltb_spec k (g0 + (dl - o0))); [|congruence]. lia.
  - pose proof Hok as Hok'. cbn [rows_ok] in Hok.
    destruct Hok as (A0 & A1 & A2 & A3 & A4 & A5 & A6).
    change (rows_ok ((g1, o1) :: rest) dl lo hi) in A6.
    destruct (IH g1 o1 A6) as (gl & ol & L & F1 & F2 & F3 & F4).
    exists gl, ol. rewrite last_map_some. split; [exact L|].
    assert (Hskip : forall k, g0 + (o1 - o0) <= k ->
              rows_abs ((g0, o0) :: (g1, o1) :: rest) dl dat k = rows_abs ((g1, o1) :: rest) dl dat k).
    { intros k Hk. rewrite rows_abs_cons. destruct (Z.leb_spec g0 k); simpl; auto.
      destruct (Z.ltb_spec k (g0 + (o1 - o0))); auto. lia. }
    split; [|split; [|split]].
    + rewrite rows_abs_cons. destruct (Z.leb_spec g0 g0); [|lia].
      destruct (Z.ltb_spec g0 (g0 + (o1 - o0))); [|lia]. simpl. apply nth_error_Some. lia.
    + rewrite Hskip by lia. exact F2.
    + lia.
    + intros k Hk. destruct (Z_lt_le_dec k (g0 + (o1 - o0))) as [L1|L1].
      * rewrite rows_abs_cons in Hk. destruct (Z.leb_spec g0 k); cbn [andb] in Hk.
        -- lia.
        -- rewrite (rows_abs_below dat dl lo hi k _ A6) in Hk by lia. congruence.
      * rewrite Hskip in Hk by lia. specialize (F4 k Hk). lia.
Qed.

Lemma file_bounds f : file_ok c f ->
  exists a b, first_sample f = Some a /\ last_sample f = Some b /\
    file_abs f a <> None /\ file_abs f b <> None /\ a <= b /\
    forall k, file_abs f k <> None -> a <= k <= b.
Proof.
  intros (Hne & _ & Hrows & _). unfold first_sample, last_sample, file_abs.
  destruct (findex f) as [|[g0 o0] rest] eqn:E; [congruence|].
  destruct (rows_bounds (fdata f) (dlen f) _ _ eq_refl rest g0 o0 Hrows) as (gl & ol & L & F1 & F2 & F3 & F4).
  exists g0, (gl + (dlen f - (ol + 1))). rewrite L. repeat split; auto; apply F4; auto.
Qed.

Lemma files_abs_cons f fs k :
  files_abs (f :: fs) k = match file_abs f k with Some v => Some v | None => files_abs fs k end.
Proof. reflexivity. Qed.

Lemma files_abs_in fs k : files_abs fs k <> None -> exists f, In f fs /\ file_abs f k <> None.
Proof.
  unfold files_abs. destruct (first_some (fun f => file_abs f k) fs) eqn:E; [|congruence].
  intros _. apply first_some_in in E. destruct E as (f & Hf & Hv). exists f. split; auto. congruence.
Qed.

Lemma bounds_spec : cfg_ok c -> forall fs, Forall (file_ok c) fs -> ms_sorted fs -> fs <> [] ->
  exists a b, get_bounds fs = (Some a, Some b) /\
    files_abs fs a <> None /\ files_abs fs b <> None /\ a <= b /\
    forall k, files_abs fs k <> None -> a <= k <= b.
Proof.
  intros Hc. pose proof Hc as (Hn & Hd & Hfc & Hsc & Hdiv).
  induction fs as [|f r IH]; intros Hall Hs Hne; [congruence|].
  inversion Hall as [|? ? Hok Hall']; subst.
  destruct (file_bounds f Hok) as (a & b & Fa & Fb & Ha & Hb & Hab & Hk).
  destruct r as [|f' r'].
  - exists a, b. unfold get_bounds. simpl. rewrite Fa, Fb. split; auto.
    rewrite !files_abs_cons. split; [destruct (file_abs f a); congruence|].
    split; [destruct (file_abs f b); congruence|]. split; auto.
    intros k. rewrite files_abs_cons. destruct (file_abs f k) eqn:E; [|unfold files_abs; simpl; congruence].
    intros _. apply Hk. congruence.
  - destruct Hs as (Hlt & Hs').
    destruct (IH Hall' Hs' ltac:(discriminate)) as (a' & b' & G & Ga & Gb & Gab & Gk).
    (* everything in the later files lies after this file's window *)
    assert (Hafter : forall k, files_abs (f' :: r') k <> None -> slot_lo c (file_ms f + fcad c) <= k).
    { intros k Hk'. apply files_abs_in in Hk'. destruct Hk' as (f2 & Hf2 & Hk2).
      rewrite Forall_forall in Hall'. pose proof (Hall' f2 Hf2) as Hok2.
      pose proof (file_abs_window c f2 k Hok2 Hk2) as W.
      assert (file_ms f < file_ms f2).
      { pose proof (ms_sorted_SS (f :: f' :: r') (conj Hlt Hs')) as SS.
        inversion SS as [|? ? _ Hfa]; subst. rewrite Forall_forall in Hfa. apply (Hfa f2 Hf2). }
      destruct Hok as (_ & _ & _ & _ & Hm & _). destruct Hok2 as (_ & _ & _ & _ & Hm2 & _).
      pose proof (mult_step _ _ _ Hfc Hm Hm2 H).
      assert (slot_lo c (file_ms f + fcad c) <= slot_lo c (file_ms f2)) by (unfold slot_lo; apply cdiv_le_mono; nia).
      lia. }
    assert (Hin : forall k, file_abs f k <> None -> k < slot_lo c (file_ms f + fcad c)).
    { intros k Hk'. apply (file_abs_window c f k Hok Hk'). }
    unfold get_bounds in *. cbn [first_some last_some]. rewrite Fa.
    inversion G as [[G1 G2]]. rewrite G2. exists a, b'. split; [reflexivity|].
    pose proof (Hafter a' Ga). pose proof (Hin a Ha). pose proof (Hin b Hb).
    split; [rewrite files_abs_cons; destruct (file_abs f a); congruence|].
    split; [rewrite files_abs_cons; destruct (file_abs f b'); [congruence | exact Gb]|].
    split; [lia|]. intros k. rewrite files_abs_cons. destruct (file_abs f k) eqn:E.
    + intros _. assert (file_abs f k <> None) by congruence. specialize (Hk k H2). lia.
    + intros Hk'. specialize (Gk k Hk'). lia.
Qed.

Theorem bounds_are_extremes fs : FilesInv c fs ->
  (fs = [] -> get_bounds fs = (None, None)) /\
  (fs <> [] -> exists a b, get_bounds fs = (Some a, Some b) /\
      files_abs fs a <> None /\ files_abs fs b <> None /\
      (forall k, files_abs fs k <> None -> a <= k <= b) /\
      (forall s e blk, In blk (read ExactRational c fs s e) -> a <= fst blk /\ bend blk - 1 <= b) /\
      (forall s e, s <= a <= e -> den (read ExactRational c fs s e) a <> None) /\
      (forall s e, s <= b <= e -> den (read ExactRational c fs s e) b <> None)).
Proof.
  intros Hinv. split; [intros ->; reflexivity|]. intros Hne.
  pose proof Hinv as (Hc & Hall & Hs).
  destruct (bounds_spec Hc fs Hall Hs Hne) as (a & b & G & Ga & Gb & Gab & Gk).
  exists a, b. split; auto. split; auto. split; auto. split; auto.
  assert (Hden : forall s e k, s <= k <= e -> files_abs fs k <> None ->
                 den (read ExactRational c fs s e) k <> None).
  { intros s e k Hk Hf. rewrite reader_refines by exact Hinv. rewrite runs_den. unfold restrict.
    replace ((s <=? k) && (k <=? e)) with true; auto.
    symmetry. apply andb_true_iff. split; apply Z.leb_le; lia. }
  split; [|split].
  - intros s e blk Hin. rewrite reader_refines in Hin by exact Hinv.
    apply (runs_bounds (files_abs fs) s e blk a b Gk Hin).
  - intros s e Hse. apply Hden; auto.
  - intros s e Hse. apply Hden; auto.
Qed.
End Bounds.

(* ------------------------------------------------------------------ vector reads *)

Section Vectors.
Context {V W : Type}.
Variable c : cfg.
Variable sel : V -> W.
Notation rfile := (rfile V).
Implicit Types (fs : list rfile).

Definition vdims (is_sub : bool) (nsub L : Z) : list Z :=
  if is_sub then [L] else if nsub =? 1 then [L] else [L; nsub].

Lemma squeeze_axis1 (a n : Z) :
  match [a; n] with [a'; 1] => [a'] | _ => [a; n] end = if n =? 1 then [a] else [a; n].
Proof. destruct n as [|[p|p|]|p]; reflexivity. Qed.

Lemma vector_of_single sq is_sub nsub L (b : @block W) :
  blen b = L -> (sq = SqueezeAll -> L <> 1) ->
  vector_of_blocks sq is_sub nsub L [b] = VOk (vdims is_sub nsub L) (snd b).
Proof.
  intros Hb Hsq. unfold vector_of_blocks, vdims. rewrite Hb. destruct sq.
  - destruct is_sub; simpl.
    + rewrite Z.eqb_refl. reflexivity.
    + rewrite squeeze_axis1. destruct (nsub =? 1); simpl; rewrite Z.eqb_refl; reflexivity.
  - specialize (Hsq eq_refl). destruct is_sub; simpl.
    + destruct (Z.eqb_spec L 1); [contradiction|]. simpl. rewrite Z.eqb_refl. reflexivity.
    + destruct (Z.eqb_spec L 1); [contradiction|]. simpl.
      destruct (Z.eqb_spec nsub 1); simpl; rewrite Z.eqb_refl; reflexivity.
Qed.

(* a fully covered range: exactly the requested samples, shape (L,) or (L, N) *)
Lemma vector_exact_gen sq is_sub nsub fs s L : FilesInv c fs -> 1 <= L ->
  (sq = SqueezeAll -> L <> 1) ->
  (forall k, s <= k <= s + (L - 1) -> files_abs fs k <> None) ->
  exists vs, read_vector_raw sq sel is_sub nsub ExactRational c fs s L = VOk (vdims is_sub nsub L) vs /\
             Z.of_nat (length vs) = L /\
             forall i, 0 <= i < L -> nth_error vs (Z.to_nat i) = option_map sel (files_abs fs (s + i)).
Proof.
  intros Hinv HL Hsq Hcov. unfold read_vector_raw.
  destruct (Z.ltb_spec L 1); [lia|]. rewrite reader_refines_sel by exact Hinv.
  destruct (runs_covered (fun k => option_map sel (files_abs fs k)) s (s + (L - 1)) ltac:(lia)) as (vs & R & Len & Nth).
  { intros k Hk. specialize (Hcov k Hk). destruct (files_abs fs k); [discriminate | congruence]. }
  exists vs. rewrite R. split; [|split].
  - rewrite vector_of_single; auto. unfold blen. simpl. lia.
  - lia.
  - intros i Hi. apply Nth. lia.
Qed.

Theorem vector_exact is_sub nsub fs s L : FilesInv c fs -> 1 <= L ->
  (forall k, s <= k <= s + (L - 1) -> files_abs fs k <> None) ->
  exists vs, read_vector_raw SqueezeAxis1 sel is_sub nsub ExactRational c fs s L
             = VOk (vdims is_sub nsub L) vs /\
             Z.of_nat (length vs) = L /\
             forall i, 0 <= i < L -> nth_error vs (Z.to_nat i) = option_map sel (files_abs fs (s + i)).
Proof. intros. apply vector_exact_gen; auto. discriminate. Qed.

(* the code before the fix: the same, but only for L > 1 *)
Theorem vector_exact_partial_squeeze_all is_sub nsub fs s L : FilesInv c fs -> 1 < L ->
  (forall k, s <= k <= s + (L - 1) -> files_abs fs k <> None) ->
  exists vs, read_vector_raw SqueezeAll sel is_sub nsub ExactRational c fs s L
             = VOk (vdims is_sub nsub L) vs /\
             Z.of_nat (length vs) = L /\
             forall i, 0 <= i < L -> nth_error vs (Z.to_nat i) = option_map sel (files_abs fs (s + i)).
Proof. intros. apply vector_exact_gen; auto; lia. Qed.

(* any requested index missing (or a non-positive length): IOError, never data *)
Theorem vector_fails_closed is_sub nsub fs s L : FilesInv c fs ->
  L < 1 \/ (exists k, s <= k <= s + (L - 1) /\ files_abs fs k = None) ->
  read_vector_raw SqueezeAxis1 sel is_sub nsub ExactRational c fs s L = VIOError.
Proof.
  intros Hinv Hmiss. unfold read_vector_raw.
  destruct (Z.ltb_spec L 1) as [|HL]; [reflexivity|].
  destruct Hmiss as [|(k & Hk & Hnone)]; [lia|].
  rewrite reader_refines_sel by exact Hinv.
  set (m := fun k => option_map sel (files_abs fs k)).
  destruct (runs m s (s + (L - 1))) as [|b [|b' r]] eqn:R; try reflexivity.
  unfold vector_of_blocks.
  assert (Hne : blen b <> L).
  { intros Hb. pose proof (runs_block_range m s (s + (L - 1)) b) as Hr.
    rewrite R in Hr. specialize (Hr (or_introl eq_refl)). unfold bend in Hr.
    assert (fst b = s) by lia. destruct b as [s' vs]. simpl in *. subst s'.
    apply (runs_single_full m s (s + (L - 1)) vs ltac:(lia) R) with (k := k).
    - unfold blen in Hb. simpl in Hb. lia.
    - lia.
    - unfold m. rewrite Hnone. reflexivity. }
  destruct is_sub; simpl.
  - destruct (Z.eqb_spec (blen b) L); [contradiction | reflexivity].
  - rewrite squeeze_axis1. destruct (nsub =? 1); simpl;
      (destruct (Z.eqb_spec (blen b) L); [contradiction | reflexivity]).
Qed.
End Vectors.

(* ------------------------------------------------------------------ the executable invariant checker *)

Section Checker.
Context {V : Type}.
Notation rfile := (rfile V).

Lemma rows_ok_b_sound rows dl lo hi : rows_ok_b rows dl lo hi = true -> rows_ok rows dl lo hi.
Proof.
  induction rows as [|[g o] rest IH]; cbn [rows_ok_b rows_ok]; auto.
  intros H. repeat (apply andb_true_iff in H; destruct H as [H ?]).
  repeat match goal with
         | H : (_ <=? _) = true |- _ => apply Z.leb_le in H
         | H : (_ <? _) = true |- _ => apply Z.ltb_lt in H
         end.
  repeat split; auto.
  destruct rest as [|[g' o'] r]; auto. apply Z.leb_le. assumption.
Qed.

Lemma ms_sorted_b_sound (fs : list rfile) : ms_sorted_b fs = true -> ms_sorted fs.
Proof.
  induction fs as [|f r IH]; simpl; auto. intros H. apply andb_true_iff in H. destruct H as [H1 H2].
  split; auto. destruct r; auto. apply Z.ltb_lt. exact H1.
Qed.

Theorem files_inv_b_sound c (fs : list rfile) : files_inv_b c fs = true -> FilesInv c fs.
Proof.
  unfold files_inv_b, FilesInv. intros H.
  apply andb_true_iff in H. destruct H as [H Hs]. apply andb_true_iff in H. destruct H as [Hc Hf].
  split; [|split].
  - unfold cfg_ok_b in Hc. repeat (apply andb_true_iff in Hc; destruct Hc as [Hc ?]).
    repeat match goal with
           | H : (_ <? _) = true |- _ => apply Z.ltb_lt in H
           | H : (_ =? _) = true |- _ => apply Z.eqb_eq in H
           end.
    unfold cfg_ok. auto.
  - apply Forall_forall. intros f Hin. rewrite forallb_forall in Hf. specialize (Hf f Hin).
    unfold file_ok_b in Hf. repeat (apply andb_true_iff in Hf; destruct Hf as [Hf ?]).
    unfold file_ok. destruct (findex f) as [|[g o] rest] eqn:E; [discriminate|].
    repeat match goal with
           | H : (_ <=? _) = true |- _ => apply Z.leb_le in H
           | H : (_ =? _) = true |- _ => apply Z.eqb_eq in H
           end.
    split; [discriminate|]. split; auto. split; [apply rows_ok_b_sound; auto|]. auto.
  - apply ms_sorted_b_sound. exact Hs.
Qed.
End Checker.

(* ------------------------------------------------------------------ the long-double lookup (code before the fix) *)

Definition lookup_agrees (c : cfg) (s e : Z) : bool :=
  (sample_secs LongDouble c s =? sample_secs ExactRational c s) &&
  (sample_secs LongDouble c e =? sample_secs ExactRational c e) &&
  (sample_ms LongDouble c s =? sample_ms ExactRational c s) &&
  (sample_ms LongDouble c e =? sample_ms ExactRational c e).

Lemma get_file_list_agrees c s e : lookup_agrees c s e = true ->
  get_file_list LongDouble c s e = get_file_list ExactRational c s e.
Proof.
  unfold lookup_agrees. intros H. repeat (apply andb_true_iff in H; destruct H as [H ?]).
  repeat match goal with H : (_ =? _) = true |- _ => apply Z.eqb_eq in H end.
  unfold get_file_list. cbv zeta.
  repeat match goal with H : sample_secs LongDouble _ _ = _ |- _ => rewrite H; clear H
                    | H : sample_ms LongDouble _ _ = _ |- _ => rewrite H; clear H end.
  reflexivity.
Qed.

Theorem reader_refines_partial_longdouble {V} c (fs : list (rfile V)) s e :
  FilesInv c fs -> lookup_agrees c s e = true ->
  read LongDouble c fs s e = runs (files_abs fs) s e.
Proof.
  intros Hinv Hag. rewrite <- (reader_refines c fs s e Hinv).
  unfold read, read_sel, pieces_gen, found_files. rewrite (get_file_list_agrees c s e Hag). reflexivity.
Qed.

(* ------------------------------------------------------------------ concrete channel: non-vacuity and witnesses *)

(* 10^6/3 Hz, 400 ms files, 2 s subdirectories, two subchannels (rows of two tags).  Two files
   around the boundary k = 500000000800000 (first sample of rf@1500000002.400.h5): 5 samples before
   it, then 15 contiguous samples, a gap of 10, 20 more samples. *)
Definition ex_cfg : cfg := mkCfg 1000000 3 400 2.
Definition ex_k : Z := 500000000800000.
Definition ex_rows (a n : nat) : list (list Z) := map (fun i => [Z.of_nat (2 * i); Z.of_nat (2 * i + 1)]) (seq a n).
Definition ex_files : list (rfile (list Z)) :=
  [ mkFile 1500000002 1500000002000 [(ex_k - 5, 0)] (ex_rows 0 5);
    mkFile 1500000002 1500000002400 [(ex_k, 0); (ex_k + 25, 15)] (ex_rows 5 35) ].

Example ex_files_inv : FilesInv ex_cfg ex_files.
Proof. apply files_inv_b_sound. vm_compute. reflexivity. Qed.

(* the theorems' hypotheses are satisfiable on a non-trivial state and the read is non-trivial *)
Example ex_read : lens (read ExactRational ex_cfg ex_files (ex_k - 7) (ex_k + 30))
                  = [(ex_k - 5, 20); (ex_k + 25, 6)].
Proof. vm_compute. reflexivity. Qed.

Example ex_bounds : get_bounds ex_files = (Some (ex_k - 5), Some (ex_k + 44)).
Proof. vm_compute. reflexivity. Qed.

Example ex_vector : read_vector_raw SqueezeAxis1 (fun r => r) false 2 ExactRational ex_cfg ex_files ex_k 1
                    = VOk [1; 2] [[10; 11]].
Proof. vm_compute. reflexivity. Qed.

(* the long-double quotient of the boundary sample is one millisecond short *)
Example ex_longdouble_ms : sample_ms LongDouble ex_cfg ex_k = 1500000002399 /\
                           sample_ms ExactRational ex_cfg ex_k = 1500000002400.
Proof. vm_compute. split; reflexivity. Qed.

Theorem file_list_complete_refuted_longdouble :
  exists c (fs : list (rfile (list Z))) f s e k,
    FilesInv c fs /\ In f fs /\ file_abs f k <> None /\ s <= k <= e /\
    ~ In (file_sub f, file_ms f) (get_file_list LongDouble c s e).
Proof.
  exists ex_cfg, ex_files, (nth 1 ex_files (mkFile 0 0 [] [])), ex_k, ex_k, ex_k.
  split; [exact ex_files_inv|]. split; [right; left; reflexivity|].
  split; [vm_compute; discriminate|]. split; [unfold ex_k; lia|].
  vm_compute. intros [H|[]]. discriminate H.
Qed.

Theorem reader_refines_refuted_longdouble :
  exists c (fs : list (rfile (list Z))) s e,
    FilesInv c fs /\ read LongDouble c fs s e <> runs (files_abs fs) s e.
Proof.
  exists ex_cfg, ex_files, ex_k, ex_k. split; [exact ex_files_inv|]. vm_compute. discriminate.
Qed.

Theorem split_invariance_refuted_longdouble :
  exists c (fs : list (rfile (list Z))) s k e,
    FilesInv c fs /\ s <= k < e /\
    read LongDouble c fs s e <> merge (read LongDouble c fs s k) (read LongDouble c fs (k + 1) e).
Proof.
  exists ex_cfg, ex_files, (ex_k - 2), ex_k, (ex_k + 2). split; [exact ex_files_inv|].
  split; [unfold ex_k; lia|]. vm_compute. discriminate.
Qed.

(* z.squeeze() then len(z) *)
Theorem vector_exact_refuted_squeeze_all :
  exists c (fs : list (rfile (list Z))) s L,
    FilesInv c fs /\ 1 <= L /\ (forall k, s <= k <= s + (L - 1) -> files_abs fs k <> None) /\
    read_vector_raw SqueezeAll (fun r => [nth 0 r 0]) true 2 ExactRational c fs s L = VTypeError /\
    read_vector_raw SqueezeAll (fun r => r) false 2 ExactRational c fs s L = VIOError.
Proof.
  exists ex_cfg, ex_files, ex_k, 1. split; [exact ex_files_inv|]. split; [lia|]. split.
  - intros k Hk. replace k with ex_k by lia. vm_compute. discriminate.
  - split; vm_compute; reflexivity.
Qed.

(* one sample present, the next missing, two subchannels: the two subchannel values of the one
   sample are returned as if they were two samples *)
Theorem vector_fails_closed_refuted_squeeze_all :
  exists c (fs : list (rfile (list Z))) s L,
    FilesInv c fs /\ files_abs fs (s + 1) = None /\ s <= s + 1 <= s + (L - 1) /\
    read_vector_raw SqueezeAll (fun r => r) false 2 ExactRational c fs s L = VOk [2] [[38; 39]].
Proof.
  exists ex_cfg, ex_files, (ex_k + 14), 2. split; [exact ex_files_inv|].
  split; [vm_compute; reflexivity|]. split; [lia|]. vm_compute. reflexivity.
Qed.

(* ------------------------------------------------------------------ the full C08 statement (DESIGN 2.6) *)

(* the whole property, for a given variant of the two defect sites: on every file set satisfying
   the invariant, every query is a view of the one recording `files_abs fs` *)
Definition C08_full (lk : lookup) (sq : squeeze) : Prop :=
  forall (V : Type) (c : cfg) (fs : list (rfile V)), FilesInv c fs ->
    (* reading = the maximal runs of the recording inside the range (reader half of C01) *)
    (forall s e, read lk c fs s e = runs (files_abs fs) s e) /\
    (* lengths reported without reading = lengths of the blocks read *)
    (forall s e, get_continuous_blocks lk c fs s e = lens (read lk c fs s e)) /\
    (* reading a range = merge of reading any split of it *)
    (forall s k e, s <= k < e ->
       read lk c fs s e = merge (read lk c fs s k) (read lk c fs (k + 1) e)) /\
    (* selecting a subchannel = that column of the full read *)
    (forall (W : Type) (sel : V -> W) s e,
       read_sel sel lk c fs s e = map (bmap sel) (read lk c fs s e)) /\
    (* bounds = first and last index any read can return *)
    (fs <> [] -> exists a b, get_bounds fs = (Some a, Some b) /\
       (forall s e blk, In blk (read lk c fs s e) -> a <= fst blk /\ bend blk - 1 <= b) /\
       (forall s e, s <= a <= e -> den (read lk c fs s e) a <> None) /\
       (forall s e, s <= b <= e -> den (read lk c fs s e) b <> None)) /\
    (* vector reads: exactly the requested samples when covered ... *)
    (forall (W : Type) (sel : V -> W) is_sub nsub s L, 1 <= L ->
       (forall k, s <= k <= s + (L - 1) -> files_abs fs k <> None) ->
       exists vs, read_vector_raw sq sel is_sub nsub lk c fs s L = VOk (vdims is_sub nsub L) vs /\
                  Z.of_nat (length vs) = L /\
                  forall i, 0 <= i < L -> nth_error vs (Z.to_nat i) = option_map sel (files_abs fs (s + i))) /\
    (* ... and an I/O error, never data, when any requested index is missing *)
    (forall (W : Type) (sel : V -> W) is_sub nsub s L,
       L < 1 \/ (exists k, s <= k <= s + (L - 1) /\ files_abs fs k = None) ->
       read_vector_raw sq sel is_sub nsub lk c fs s L = VIOError).

Theorem C08_full_holds : C08_full ExactRational SqueezeAxis1.
Proof.
  intros V c fs Hinv.
  split; [intros; apply reader_refines; auto|].
  split; [intros; apply lengths_agree; auto|].
  split; [intros; apply split_invariance; auto|].
  split; [intros; apply subchannel_is_column; auto|].
  split.
  { intros Hne. destruct (proj2 (bounds_are_extremes c fs Hinv) Hne) as (a & b & G & _ & _ & _ & B1 & B2 & B3).
    exists a, b. auto. }
  split; [intros; apply vector_exact; auto|].
  intros; apply vector_fails_closed; auto.
Qed.

Theorem C08_full_refuted_longdouble : forall sq, ~ C08_full LongDouble sq.
Proof.
  intros sq H. destruct (H (list Z) ex_cfg ex_files ex_files_inv) as (R & _).
  specialize (R ex_k ex_k). revert R. vm_compute. discriminate.
Qed.

Theorem C08_full_refuted_squeeze_all : forall lk, ~ C08_full lk SqueezeAll.
Proof.
  intros lk H. destruct (H (list Z) ex_cfg ex_files ex_files_inv) as (_ & _ & _ & _ & _ & Vx & _).
  destruct (Vx (list Z) (fun r => [nth 0 r 0]) true 2 (ex_k + 1) 1 ltac:(lia)) as (vs & E & _).
  - intros k Hk. replace k with (ex_k + 1) by lia. vm_compute. discriminate.
  - revert E. destruct lk; vm_compute; discriminate.
Qed.

(* ------------------------------------------------------------------ get_properties(sample = k) *)

Section SampleProperties.
Context {V : Type}.
Variable c : cfg.
Hypothesis Hc : cfg_ok c.

Lemma subdir_files_window S E sub p : sub * 1000 mod fcad c = 0 ->
  In p (subdir_files c S E sub) ->
  S <= snd p + fcad c - 1 /\ snd p <= E /\ snd p mod fcad c = 0.
Proof.
  destruct Hc as (Hn & Hd & Hfc & Hsc & Hdiv). intros Hsub.
  unfold subdir_files. intros Hin. apply in_map_iff in Hin. destruct Hin as (j & <- & Hj).
  apply in_zseq in Hj. simpl.
  pose proof (proj1 (cdiv_spec (S - (fcad c - 1) - sub * 1000) (fcad c) _ Hfc) eq_refl) as Hlo.
  pose proof (Z.mul_div_le (E - sub * 1000) (fcad c) Hfc) as Hhi.
  split; [nia|]. split; [nia|].
  rewrite Z.add_mod, Hsub, Z.mod_mul by lia. reflexivity.
Qed.

Lemma get_file_list_point k p : In p (get_file_list ExactRational c k k) ->
  sample_ms ExactRational c k < snd p + fcad c /\ snd p <= sample_ms ExactRational c k /\
  snd p mod fcad c = 0.
Proof.
  destruct Hc as (Hn & Hd & Hfc & Hsc & Hdiv).
  unfold get_file_list. intros Hin. apply in_flat_map in Hin. destruct Hin as (i & _ & Hp).
  apply subdir_files_window in Hp.
  - lia.
  - replace (i * scad c * 1000) with (i * (scad c * 1000)) by ring.
    rewrite <- Zmult_mod_idemp_r, Hdiv, Z.mul_0_r. reflexivity.
Qed.

Lemma sorted_same_single {A} (key : A -> Z) (l : list A) a :
  StronglySorted (fun p q => key p < key q) l -> In a l ->
  (forall p q, In p l -> In q l -> key p = key q) -> l = [a].
Proof.
  intros Hs Hin Hsame. destruct l as [|x [|y r]]; [inversion Hin| |].
  - destruct Hin as [->|[]]. reflexivity.
  - exfalso. inversion Hs as [|? ? _ Hall]; subst. inversion Hall as [|? ? Hxy _]; subst.
    pose proof (Hsame x y (or_introl eq_refl) (or_intror (or_introl eq_refl))). lia.
Qed.

(* the file whose attributes are reported for a sample present in the data is the file holding it *)
Theorem properties_of_sample (fs : list (rfile V)) f k : FilesInv c fs -> In f fs ->
  file_abs f k <> None -> properties_file ExactRational c fs k = PFile f.
Proof.
  intros Hinv Hf Habs. pose proof Hinv as (_ & Hall & Hs).
  destruct Hc as (Hn & Hd & Hfc & Hsc & Hdiv).
  pose proof (file_list_complete c fs f k k k Hinv Hf Habs ltac:(lia)) as Hcand.
  assert (Hl : get_file_list ExactRational c k k = [(file_sub f, file_ms f)]).
  { apply (sorted_same_single snd); auto.
    - apply get_file_list_sorted. exact Hc.
    - intros p q Hp Hq. apply get_file_list_point in Hp, Hq.
      destruct (Z.lt_trichotomy (snd p) (snd q)) as [L|[L|L]]; auto; exfalso.
      + pose proof (mult_step (snd p) (snd q) (fcad c) Hfc ltac:(tauto) ltac:(tauto) L). lia.
      + pose proof (mult_step (snd q) (snd p) (fcad c) Hfc ltac:(tauto) ltac:(tauto) L). lia. }
  unfold properties_file. rewrite Hl.
  destruct (find_file fs (file_sub f, file_ms f)) as [f'|] eqn:E.
  - apply find_file_some in E. destruct E as (Hin' & _ & E2). simpl in E2.
    f_equal. symmetry. apply (ms_unique fs); auto.
  - exfalso. unfold find_file in E. pose proof (find_none _ _ E f Hf) as Hn'.
    simpl in Hn'. rewrite !Z.eqb_refl in Hn'. discriminate.
Qed.
End SampleProperties.
