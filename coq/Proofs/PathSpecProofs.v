(* Facts about the component-wise Spec `listable` (Model/PathSpec.v): os.path.split, the union over
   channel kinds, and "a tmp. name is never listable" for ALL directories and names. *)
From Coq Require Import ZArith List Bool Lia.
From DRF Require Import Base.Regex Base.RegexSound Base.WordLit Gen.Grammar Model.PathSpec Proofs.GrammarProofs.
Import ListNotations.
Local Open Scope Z_scope.

Lemma split_last_aux_nosep : forall s acc best, ~ In sep s -> split_last_aux s acc best = best.
Proof.
  induction s as [|x s IH]; intros acc best Hn; cbn; [reflexivity|].
  destruct (x =? sep) eqn:E.
  - apply Z.eqb_eq in E. exfalso. apply Hn. left. auto.
  - apply IH. intro Hin. apply Hn. right. exact Hin.
Qed.

Lemma split_last_aux_app : forall a b acc best, ~ In sep b ->
  split_last_aux (a ++ sep :: b) acc best = Some (rev acc ++ a, b).
Proof.
  induction a as [|x a IH]; intros b acc best Hn.
  - cbn [app split_last_aux]. rewrite Z.eqb_refl. rewrite split_last_aux_nosep by exact Hn.
    rewrite app_nil_r. reflexivity.
  - cbn [app split_last_aux]. destruct (x =? sep); rewrite IH by exact Hn; cbn [rev];
      rewrite <- app_assoc; reflexivity.
Qed.

(* os.path.split(d + "/" + base) = (d, base) when base has no separator *)
Lemma split_last_join d base : ~ In sep base -> split_last (d ++ sep :: base) = Some (d, base).
Proof. intro Hn. unfold split_last. rewrite split_last_aux_app by exact Hn. reflexivity. Qed.

Lemma matches_none ci r s : rmatch ci r s = None -> matches ci r s = false.
Proof. unfold matches. intros ->. reflexivity. Qed.

(* for every directory d and every name: a name starting with tmp. is never listable, whatever
   the flags and the window *)
Theorem listable_never_tmp f st en d base :
  ~ In sep base -> starts_with (W "tmp.") base = true ->
  listable f st en (d ++ sep :: base) = false.
Proof.
  intros Hn Ht. unfold listable, linfo_of. rewrite (split_last_join d base Hn).
  unfold match_time, listing_ci.
  rewrite (data_file_never_tmp l_re_drffile base), (data_file_never_tmp l_re_dmdfile base),
          (data_file_never_tmp l_re_file base); auto.
  rewrite (matches_none _ _ _ (prop_file_never_tmp l_re_drfpropfile base (or_introl eq_refl) Ht)).
  rewrite (matches_none _ _ _ (prop_file_never_tmp l_re_dmdpropfile base (or_intror (or_introl eq_refl)) Ht)).
  rewrite (matches_none _ _ _ (prop_file_never_tmp l_re_propfile base (or_intror (or_intror eq_refl)) Ht)).
  unfold listable_core, listable_data_core, listable_prop_core, timed_ok. cbn.
  rewrite !andb_false_r. destruct (eff_drfp f && eff_dmdp f), (eff_drfp f), (eff_dmdp f); reflexivity.
Qed.

(* the data half of `listable` is the union, over the three kinds of channel directory, of what the
   listing's own pattern choice (file_regex) accepts there *)
Lemma listable_data_union f st en li :
  listable_data_core f st en li =
  li_depth2 li && li_sub_ok li &&
  existsb (fun k : bool * bool =>
             match file_sel (fst k) (snd k) f with
             | Some (x, _) => timed_ok st en (li_sel li x)
             | None => false
             end) chan_kinds.
Proof.
  unfold listable_data_core, chan_kinds, file_sel. cbn.
  destruct (li_depth2 li), (li_sub_ok li), (inc_drf f), (inc_dmd f); cbn; try reflexivity;
    destruct (timed_ok st en (li_file li)), (timed_ok st en (li_drf li)), (timed_ok st en (li_dmd li)); reflexivity.
Qed.

(* dropping the window can only add files *)
Lemma timed_ok_mono st en o : timed_ok st en o = true -> timed_ok None None o = true.
Proof. destruct o as [[|t|]|]; cbn; auto. Qed.

Lemma listable_core_mono f st en li :
  listable_core f st en li = true -> listable_core f None None li = true.
Proof.
  unfold listable_core, listable_data_core.
  rewrite !orb_true_iff, !andb_true_iff, !orb_true_iff, !andb_true_iff.
  intros [[Hd [[H | H] | H]] | H]; auto.
  - left. split; auto. left. left. destruct H as [H1 H2]. split; auto. eapply timed_ok_mono; eauto.
  - left. split; auto. left. right. destruct H as [H1 H2]. split; auto. eapply timed_ok_mono; eauto.
  - left. split; auto. right. destruct H as [H1 H2]. split; auto. eapply timed_ok_mono; eauto.
Qed.

Lemma listable_mono f st en p : listable f None None p = false -> listable f st en p = false.
Proof.
  unfold listable. intro H. destruct (listable_core f st en (linfo_of p)) eqn:E; [|reflexivity].
  apply listable_core_mono in E. congruence.
Qed.
