(* C19: the counters count.  For histories of single-block Spec steps -- every rf_write in every mode,
   and rf_write_blocks in continuous mode (the extension splits it into such steps) -- the total of
   samples written is the NUMBER OF WRITTEN INDICES below the cursor and the total of gap samples is
   the NUMBER OF SKIPPED INDICES (indices below the cursor that were never written). *)
From Coq Require Import ZArith List Bool Lia.
From DRF Require Import Model.IndexCalc Model.WriterCore Model.PyWriter
  Proofs.WriterBasics Proofs.WriterInv Proofs.WriterInvU Proofs.WriterMultiIdx Proofs.WriterMulti
  Proofs.PyWriterProofs Proofs.PyApiHistory.
Import ListNotations.
Local Open Scope Z_scope.

(* number of k in [lo, lo + n) with f k defined *)
Fixpoint cnt (f : Z -> option Z) (lo : Z) (n : nat) : Z :=
  match n with
  | O => 0
  | S n' => (match f lo with Some _ => 1 | None => 0 end) + cnt f (lo + 1) n'
  end.

Lemma cnt_ext f g : forall n lo, (forall k, lo <= k < lo + Z.of_nat n -> f k = g k) -> cnt f lo n = cnt g lo n.
Proof.
  induction n as [|n IH]; intros lo H; cbn [cnt]; [reflexivity|].
  rewrite (H lo) by lia. f_equal. apply IH. intros k Hk. apply H. lia.
Qed.

Lemma cnt_app f : forall n m lo, cnt f lo (n + m) = cnt f lo n + cnt f (lo + Z.of_nat n) m.
Proof.
  induction n as [|n IH]; intros m lo.
  - cbn [cnt plus]. replace (lo + Z.of_nat 0) with lo by lia. lia.
  - cbn [cnt plus]. rewrite IH. replace (lo + 1 + Z.of_nat n) with (lo + Z.of_nat (S n)) by lia. lia.
Qed.

Lemma cnt_none f : forall n lo, (forall k, lo <= k < lo + Z.of_nat n -> f k = None) -> cnt f lo n = 0.
Proof.
  induction n as [|n IH]; intros lo H; cbn [cnt]; [reflexivity|].
  rewrite (H lo) by lia. rewrite IH; [reflexivity|]. intros k Hk. apply H. lia.
Qed.

Lemma cnt_some f : forall n lo, (forall k, lo <= k < lo + Z.of_nat n -> f k <> None) -> cnt f lo n = Z.of_nat n.
Proof.
  induction n as [|n IH]; intros lo H; cbn [cnt]; [reflexivity|].
  specialize (H lo ltac:(lia)) as H0. destruct (f lo); [|congruence].
  rewrite IH; [lia|]. intros k Hk. apply H. lia.
Qed.

Lemma cnt_bounds f : forall n lo, 0 <= cnt f lo n <= Z.of_nat n.
Proof. induction n as [|n IH]; intros lo; cbn [cnt]; [lia|]. specialize (IH (lo + 1)). destruct (f lo); lia. Qed.

Ltac range_false k lo :=
  apply andb_false_iff; destruct (Z_lt_le_dec k lo); [left; apply Z.leb_gt; lia|right; apply Z.ltb_ge; lia].

(* the Spec keeps nothing at or above its cursor, and its cursor never decreases *)
Definition SpecOk (c : cfg) (s : spec) : Prop :=
  0 <= s_cur s /\ forall k, c_start c + s_cur s <= k -> s_map s k = None.

Definition written_count (c : cfg) (s : spec) : Z := cnt (s_map s) (c_start c) (Z.to_nat (s_cur s)).

Lemma spec_step_count c s g vec : SpecOk c s -> 0 <= g ->
  SpecOk c (spec_step c s (g, vec)) /\
  written_count c (spec_step c s (g, vec)) = written_count c s + (if g <? s_cur s then 0 else zlen vec).
Proof.
  intros (H0 & Hn) Hg. unfold spec_step. destruct (g <? s_cur s) eqn:El; [split; [split; assumption|lia]|].
  apply Z.ltb_ge in El. unfold written_count, SpecOk. cbn [s_cur s_map].
  destruct (zlen vec =? 0) eqn:E0.
  - apply Z.eqb_eq in E0. split.
    + split; [exact H0|]. intros k Hk.
      assert (E : (c_start c + g <=? k) && (k <? c_start c + g + zlen vec) = false) by (range_false k (c_start c + g)).
      rewrite E. apply Hn, Hk.
    + rewrite (cnt_ext _ (s_map s)); [lia|]. intros k Hk.
      assert (E : (c_start c + g <=? k) && (k <? c_start c + g + zlen vec) = false) by (range_false k (c_start c + g)).
      rewrite E. reflexivity.
  - apply Z.eqb_neq in E0. assert (HL : 0 < zlen vec) by (unfold zlen in *; lia). split.
    + split; [lia|]. intros k Hk.
      assert (E : (c_start c + g <=? k) && (k <? c_start c + g + zlen vec) = false) by (range_false k (c_start c + g)).
      rewrite E. apply Hn. lia.
    + set (f' := fun k => if (c_start c + g <=? k) && (k <? c_start c + g + zlen vec)
                          then nth_error vec (Z.to_nat (k - c_start c - g)) else s_map s k).
      replace (Z.to_nat (g + zlen vec)) with (Z.to_nat (s_cur s) + (Z.to_nat (g - s_cur s) + Z.to_nat (zlen vec)))%nat by lia.
      rewrite !cnt_app. rewrite !Z2Nat.id by lia.
      rewrite (cnt_ext f' (s_map s) (Z.to_nat (s_cur s)) (c_start c)).
      2:{ intros k Hk. unfold f'. rewrite Z2Nat.id in Hk by lia.
          assert (E : (c_start c + g <=? k) && (k <? c_start c + g + zlen vec) = false) by (range_false k (c_start c + g)).
          rewrite E. reflexivity. }
      rewrite (cnt_none f' (Z.to_nat (g - s_cur s))).
      2:{ intros k Hk. unfold f'. rewrite Z2Nat.id in Hk by lia.
          assert (E : (c_start c + g <=? k) && (k <? c_start c + g + zlen vec) = false) by (range_false k (c_start c + g)).
          rewrite E. apply Hn. lia. }
      rewrite (cnt_some f' (Z.to_nat (zlen vec))).
      2:{ intros k Hk. unfold f'. rewrite Z2Nat.id in Hk by lia.
          assert (E : (c_start c + g <=? k) && (k <? c_start c + g + zlen vec) = true)
            by (apply andb_true_iff; split; [apply Z.leb_le|apply Z.ltb_lt]; lia).
          rewrite E. apply nth_error_Some. unfold zlen in *. lia. }
      rewrite Z2Nat.id by lia. lia.
Qed.

Lemma spec_steps_count c bs : forall s, SpecOk c s -> Forall (fun b => 0 <= fst b) bs ->
  SpecOk c (fold_left (spec_step c) bs s).
Proof.
  induction bs as [|[g v] bs IH]; intros s Hs Hb; cbn [fold_left]; [exact Hs|].
  inversion Hb; subst. apply IH; [|assumption]. exact (proj1 (spec_step_count c s g v Hs ltac:(assumption))).
Qed.

(* ---- rf_write histories (every mode): the invariant linking the counters to the Spec *)
Section Count.
  Variable c : cfg.
  Variable R : wstate -> spec -> Prop.
  Hypothesis R_cur : forall st s, R st s -> w_gi st = s_cur s.
  Hypothesis R_call : forall st s g vec, 0 <= g -> R st s ->
    if g <? w_gi st then write_one c st g vec = (-3, st)
    else exists st', write_one c st g vec = (0, st') /\ R st' (spec_step c s (g, vec)).

  Definition CountInv (ps : pystate) (s : spec) : Prop :=
    PyInv R ps s /\ SpecOk c s /\ p_written ps = written_count c s /\ p_gap ps = s_cur s - written_count c s.

  Lemma count_write_step ps s ns vec : CountInv ps s ->
    match ns with Some x => 0 <= x | None => True end ->
    CountInv (snd (py_rf_write FromCursor c ps ns vec)) (spec_step c s (resolve s ns, vec)).
  Proof.
    intros (HI & Hs & Hw & Hgp) Hns.
    assert (Hg : 0 <= resolve s ns) by (destruct ns; cbn; [exact Hns|destruct Hs; assumption]).
    pose proof (py_write_step c R R_cur R_call ps s ns vec HI Hg) as H.
    pose proof (spec_step_count c s (resolve s ns) vec Hs Hg) as (Hs' & Hc').
    pose proof (counters_sum_all_histories) as _.
    remember (py_rf_write FromCursor c ps ns vec) as r eqn:Er. destruct r as [[cls ret] ps'].
    cbv beta iota zeta in H. cbn [snd].
    destruct (resolve s ns <? s_cur s) eqn:El.
    - destruct H as (_ & ->). unfold spec_step. rewrite El. repeat split; try assumption; apply HI || apply Hs.
    - destruct H as (_ & _ & HI').
      split; [exact HI'|]. split; [exact Hs'|].
      (* the counters of the successor: from the definition of py_rf_write *)
      assert (Hcur : p_next ps' = s_cur (spec_step c s (resolve s ns, vec))) by (destruct HI' as (_ & _ & H & _); exact H).
      assert (Hwr : p_written ps' = p_written ps + zlen vec /\ p_written ps' + p_gap ps' = p_next ps').
      { destruct HI as (Hcl & HR & Hn & H0).
        unfold py_rf_write in Er.
        assert (Eg : match ns with Some x => x | None => p_next ps end = resolve s ns)
          by (unfold resolve; destruct ns; [reflexivity|exact Hn]).
        rewrite Eg, Hn, El, Hcl in Er.
        pose proof (R_call (p_w ps) s (resolve s ns) vec Hg HR) as Hc. rewrite (R_cur _ _ HR), El in Hc.
        destruct Hc as (st' & Hwo & _). rewrite Hwo in Er. cbn [Z.eqb negb] in Er.
        inversion Er; subst. cbn [p_written p_gap p_next]. unfold zlen. lia. }
      destruct Hwr as (Hw1 & Hsum). rewrite Hc', <- Hw. split; [lia|]. rewrite Hcur in Hsum. lia.
  Qed.
End Count.

(* ---- blocks: the lengths of the blocks of a valid call add up to the length of the data *)
Definition sum_len (bs : list (Z * list Z)) : Z := fold_right (fun b acc => zlen (snd b) + acc) 0 bs.

Lemma sum_len_cons b bs : sum_len (b :: bs) = zlen (snd b) + sum_len bs.
Proof. reflexivity. Qed.

Lemma blocks_of_total vec : forall G1 D1 g1 d1 tl1 top, length G1 = length D1 -> combine G1 D1 = tl1 ->
  rows_wf ((g1, d1) :: tl1) (zlen vec) top -> 0 <= d1 ->
  sum_len (blocks_of (g1 :: G1) (d1 :: D1) vec (zlen vec)) = zlen vec - d1.
Proof.
  induction G1 as [|g' G1 IH]; intros D1 g1 d1 tl1 top Hl Ec Hw Hd.
  - destruct D1; [|discriminate]. cbn [combine] in Ec. subst tl1. cbn [rows_wf] in Hw.
    cbn [blocks_of sum_len fold_right snd]. rewrite slice_length by lia. lia.
  - destruct D1 as [|d' D1]; [discriminate|]. cbn [combine] in Ec. subst tl1.
    change (rows_wf ((g1, d1) :: (g', d') :: combine G1 D1) (zlen vec) top) in Hw.
    cbn [rows_wf] in Hw. destruct Hw as (H1 & H2 & H3).
    pose proof (rows_wf_offset_lt (combine G1 D1) (zlen vec) top g' d' H3) as Hod.
    change (blocks_of (g1 :: g' :: G1) (d1 :: d' :: D1) vec (zlen vec))
      with ((g1, slice vec d1 (d' - d1)) :: blocks_of (g' :: G1) (d' :: D1) vec (zlen vec)).
    rewrite sum_len_cons. cbn [snd].
    rewrite (IH D1 g' d' (combine G1 D1) top); [|cbn in Hl; lia|reflexivity|exact H3|lia].
    rewrite slice_length by lia. lia.
Qed.

Lemma py_ok_total next vec G D : py_arrays_ok next (zlen vec) G D = true ->
  sum_len (blocks_of G D vec (zlen vec)) = zlen vec.
Proof.
  intros Hok.
  pose proof (py_valid_implies_c_valid _ _ _ _ Hok) as Hv.
  destruct (valid_arrays_wf _ _ _ Hv) as (g0 & tl & E & Hge & Hvl & Hwf).
  unfold py_arrays_ok in Hok. destruct G as [|g G]; [discriminate|]. destruct D as [|d0 D]; [discriminate|].
  repeat (apply andb_true_iff in Hok as [Hok ?]).
  match goal with Hx : Nat.eqb _ _ = true |- _ => apply Nat.eqb_eq in Hx; rename Hx into Hlen end.
  cbn [combine] in E. injection E as Eg Ed Etl. subst g0. subst d0.
  rewrite (blocks_of_total vec G D g 0 tl _ ltac:(cbn in Hlen; lia) Etl Hwf ltac:(lia)). lia.
Qed.

(* ascending blocks all take effect: the written count grows by the total of their lengths *)
Lemma ascending_count c : forall bs s, SpecOk c s -> ascending (s_cur s) bs ->
  SpecOk c (fold_left (spec_step c) bs s) /\
  written_count c (fold_left (spec_step c) bs s) = written_count c s + sum_len bs.
Proof.
  induction bs as [|[g v] bs IH]; intros s Hs Ha; [cbn; split; [exact Hs|lia]|]. cbn [fold_left]. rewrite sum_len_cons.
  cbn [ascending] in Ha. destruct Ha as (Hcur & Hg & Hlen & Hrest).
  destruct (spec_step_count c s g v Hs Hg) as (Hs1 & Hc1).
  assert (El : (g <? s_cur s) = false) by (apply Z.ltb_ge; lia). rewrite El in Hc1.
  assert (Hcur1 : s_cur (spec_step c s (g, v)) = g + zlen v).
  { unfold spec_step. rewrite El. cbn [s_cur]. assert (E0 : (zlen v =? 0) = false) by (apply Z.eqb_neq; lia). rewrite E0. reflexivity. }
  rewrite <- Hcur1 in Hrest. destruct (IH _ Hs1 Hrest) as (Hs2 & Hc2).
  split; [exact Hs2|]. rewrite Hc2, Hc1. cbn [snd]. lia.
Qed.

(* ---- histories *)
Section CountHist.
  Variable c : cfg.
  Variable R : wstate -> spec -> Prop.
  Hypothesis R_cur : forall st s, R st s -> w_gi st = s_cur s.
  Hypothesis R_call : forall st s g vec, 0 <= g -> R st s ->
    if g <? w_gi st then write_one c st g vec = (-3, st)
    else exists st', write_one c st g vec = (0, st') /\ R st' (spec_step c s (g, vec)).

  Lemma CountInv_counters ps s : CountInv c R ps s -> counters_ok ps.
  Proof. intros ((_ & _ & Hn & _) & _ & Hw & Hg). unfold counters_ok. lia. Qed.

  (* rf_write_blocks in continuous mode *)
  Lemma count_blocks_step ps s G D vec : c_cont c = true -> CountInv c R ps s -> first_nonneg (combine G D) ->
    CountInv c R (snd (py_rf_write_blocks c ps G D vec)) (api_spec_cont c s (ABlocks G D vec)).
  Proof.
    intros Hco HC Hnn. pose proof HC as (HI & Hs & Hw & Hgp).
    pose proof (blocks_call c R R_cur R_call Hco ps s G D vec HI Hnn) as H.
    cbn [api_spec_cont]. destruct (py_arrays_ok (s_cur s) (zlen vec) G D) eqn:Eok.
    - destruct H as (Hok & Hret & HI').
      destruct (ascending_count c (blocks_of G D vec (zlen vec)) s Hs (py_ok_ascending _ vec G D Eok Hnn)) as (Hs' & Hc').
      rewrite (py_ok_total _ vec G D Eok) in Hc'.
      pose proof (api_written_step c ps (ABlocks G D vec)) as Hwr.
      unfold api_state, accepted_len in Hwr. cbn [api_call] in Hwr. rewrite Hok in Hwr. cbn [Z.eqb OK] in Hwr.
      pose proof (py_step_counters c ps (OpBlocks G D vec) (CountInv_counters ps s HC)) as Hsum.
      unfold counters_ok in Hsum. cbn [py_step] in Hsum.
      split; [exact HI'|]. split; [exact Hs'|].
      assert (Hnx : p_next (snd (py_rf_write_blocks c ps G D vec)) = s_cur (fold_left (spec_step c) (blocks_of G D vec (zlen vec)) s))
        by (destruct HI' as (_ & _ & Hx & _); exact Hx).
      split; lia.
    - destruct H as (code & ->). cbn [snd]. exact HC.
  Qed.

  Lemma CountInv_init : R init_state spec_init -> CountInv c R py_init spec_init.
  Proof.
    intros HR. split; [|split; [|split]].
    - unfold PyInv. cbn. split; [reflexivity|]. split; [exact HR|]. split; [reflexivity|lia].
    - split; [cbn; lia|]. intros k _. reflexivity.
    - reflexivity.
    - reflexivity.
  Qed.

  Theorem count_api_history_cont ops : c_cont c = true -> forall ps s, CountInv c R ps s -> Forall api_arg_ok ops ->
    CountInv c R (fold_left (api_state c) ops ps) (fold_left (api_spec_cont c) ops s).
  Proof.
    intros Hco. induction ops as [|op ops IH]; intros ps s HC Hops; cbn [fold_left]; [exact HC|].
    inversion Hops as [|? ? Hop Hops']; subst. apply IH; [|exact Hops'].
    destruct op as [ns vec|G D vec]; unfold api_state; cbn [api_call api_spec_cont].
    - apply (count_write_step c R R_cur R_call ps s ns vec HC). destruct ns; exact Hop.
    - apply count_blocks_step; assumption.
  Qed.

  (* rf_write-only histories, any mode *)
  Theorem count_rf_write_history ops : forall ps s, CountInv c R ps s ->
    Forall (fun op => match fst op with Some x => 0 <= x | None => True end) ops ->
    CountInv c R (fold_left (py_write_state c) ops ps) (fold_left (spec_step_opt c) ops s).
  Proof.
    induction ops as [|[ns vec] ops IH]; intros ps s HC Hops; cbn [fold_left]; [exact HC|].
    inversion Hops as [|? ? Hop Hops']; subst. cbn [fst] in Hop. apply IH; [|exact Hops'].
    unfold py_write_state, spec_step_opt. cbn [fst snd].
    apply (count_write_step c R R_cur R_call ps s ns vec HC Hop).
  Qed.
End CountHist.

(* instances *)
Theorem counters_count_continuous_unchunked c ops : vcfg c -> c_chunk c = false -> c_cont c = true ->
  Forall api_arg_ok ops ->
  let ps := fold_left (api_state c) ops py_init in
  let s := fold_left (api_spec_cont c) ops spec_init in
  p_next ps = s_cur s /\ p_written ps = written_count c s /\ p_gap ps = s_cur s - written_count c s.
Proof.
  intros Hc Hch Hco Hops ps s.
  assert (HR : refines_u c init_state spec_init)
    by (constructor; cbn; try discriminate; [apply InvU_init|reflexivity|intros a []|exact I]).
  pose proof (count_api_history_cont c (refines_u c) (fun st s0 H => ru_cur _ _ _ H) (unchunked_R_call c Hc Hch Hco) ops Hco
                py_init spec_init (CountInv_init c (refines_u c) HR) Hops) as ((_ & _ & Hn & _) & _ & Hw & Hg).
  auto.
Qed.

Theorem counters_count_continuous_chunked c ops : vcfg c -> c_chunk c = true -> c_cont c = true ->
  Forall api_arg_ok ops ->
  let ps := fold_left (api_state c) ops py_init in
  let s := fold_left (api_spec_cont c) ops spec_init in
  p_next ps = s_cur s /\ p_written ps = written_count c s /\ p_gap ps = s_cur s - written_count c s.
Proof.
  intros Hc Hch Hco Hops ps s.
  assert (HR : refines c init_state spec_init)
    by (split; [apply Inv_init|]; split; [reflexivity|]; split; [reflexivity|exact I]).
  pose proof (count_api_history_cont c (refines c) (fun st s0 H => proj1 (proj2 H)) (chunked_R_call c Hc Hch) ops Hco
                py_init spec_init (CountInv_init c (refines c) HR) Hops) as ((_ & _ & Hn & _) & _ & Hw & Hg).
  auto.
Qed.

(* gapped mode (and any chunked layout): histories of rf_write *)
Theorem counters_count_rf_write c ops : vcfg c -> c_chunk c = true ->
  Forall (fun op => match fst op with Some x => 0 <= x | None => True end) ops ->
  let ps := fold_left (py_write_state c) ops py_init in
  let s := fold_left (spec_step_opt c) ops spec_init in
  p_next ps = s_cur s /\ p_written ps = written_count c s /\ p_gap ps = s_cur s - written_count c s.
Proof.
  intros Hc Hch Hops ps s.
  assert (HR : refines c init_state spec_init)
    by (split; [apply Inv_init|]; split; [reflexivity|]; split; [reflexivity|exact I]).
  pose proof (count_rf_write_history c (refines c) (fun st s0 H => proj1 (proj2 H)) (chunked_R_call c Hc Hch) ops
                py_init spec_init (CountInv_init c (refines c) HR) Hops) as ((_ & _ & Hn & _) & _ & Hw & Hg).
  auto.
Qed.

Example counters_example :
  let c := mkCfg 150000000003 100 1 1 100 false true in
  let ops := [(None, [1; 2]); (Some 5, [3]); (Some 1, [9]); (Some 30, [4; 5])] in
  let s := fold_left (spec_step_opt c) ops spec_init in
  s_cur s = 32 /\ written_count c s = 5 /\ s_cur s - written_count c s = 27.
Proof. vm_compute. repeat split. Qed.

(* ------------------------------------------------------------------ the Spec of a multi-block call is the
   sequence of the Spec steps of its blocks: same cursor, same map (pointwise).  So the gapped-mode Spec
   (spec_step_blocks) and the continuous-mode Spec (one step per block, as the extension splits the
   call) describe a valid rf_write_blocks call identically. *)
Lemma blocks_spec_equiv c vec : forall G1 D1 g1 d1 tl1 top s, length G1 = length D1 -> combine G1 D1 = tl1 ->
  rows_wf ((g1, d1) :: tl1) (zlen vec) top -> 0 <= d1 -> s_cur s <= g1 -> 0 <= g1 ->
  let s' := fold_left (spec_step c) (blocks_of (g1 :: G1) (d1 :: D1) vec (zlen vec)) s in
  s_cur s' = rows_end g1 d1 tl1 (zlen vec) /\
  forall k, s_map s' k = match rows_lookup ((g1, d1) :: tl1) vec (k - c_start c) with
                         | Some v => Some v
                         | None => s_map s k
                         end.
Proof.
  induction G1 as [|g' G1 IH]; intros D1 g1 d1 tl1 top s Hl Ec Hw Hd Hcur Hg.
  - destruct D1; [|discriminate]. cbn [combine] in Ec. subst tl1. rewrite rows_wf_one in Hw.
    cbn [blocks_of fold_left]. cbv zeta. unfold spec_step.
    assert (El : (g1 <? s_cur s) = false) by (apply Z.ltb_ge; lia). rewrite El.
    rewrite (slice_length vec d1 (zlen vec - d1)) by lia.
    assert (E0 : (zlen vec - d1 =? 0) = false) by (apply Z.eqb_neq; lia). rewrite E0.
    cbn [s_cur s_map rows_end]. split; [reflexivity|]. intros k. rewrite rl_one.
    destruct ((c_start c + g1 <=? k) && (k <? c_start c + g1 + (zlen vec - d1))) eqn:E.
    + apply andb_true_iff in E as [E1 E2]. apply Z.leb_le in E1. apply Z.ltb_lt in E2.
      assert (E' : (g1 <=? k - c_start c) && (k - c_start c <? g1 + (zlen vec - d1)) = true)
        by (apply andb_true_iff; split; [apply Z.leb_le|apply Z.ltb_lt]; lia).
      rewrite E'. replace (k - c_start c - g1) with (k - c_start c - g1) by lia.
      rewrite (slice_nth vec d1 (zlen vec - d1) (k - c_start c - g1)) by lia.
      replace (d1 + (k - c_start c - g1)) with (d1 + (k - c_start c - g1)) by lia.
      destruct (nth_error_in_range vec (d1 + (k - c_start c - g1)) ltac:(lia)) as (v & Hv). rewrite Hv. reflexivity.
    + assert (E' : (g1 <=? k - c_start c) && (k - c_start c <? g1 + (zlen vec - d1)) = false).
      { apply andb_false_iff in E as [E|E]; apply andb_false_iff; [left; apply Z.leb_gt; apply Z.leb_gt in E; lia
                                                                 |right; apply Z.ltb_ge; apply Z.ltb_ge in E; lia]. }
      rewrite E'. reflexivity.
  - destruct D1 as [|d' D1]; [discriminate|]. cbn [combine] in Ec. subst tl1.
    apply wf_two_inv in Hw as (A & B & C & D & E).
    change (blocks_of (g1 :: g' :: G1) (d1 :: d' :: D1) vec (zlen vec))
      with ((g1, slice vec d1 (d' - d1)) :: blocks_of (g' :: G1) (d' :: D1) vec (zlen vec)).
    cbn [fold_left]. cbv zeta.
    set (s1 := spec_step c s (g1, slice vec d1 (d' - d1))).
    assert (Hs1 : s_cur s1 = g1 + (d' - d1) /\
                  forall k, s_map s1 k = if (c_start c + g1 <=? k) && (k <? c_start c + g1 + (d' - d1))
                                         then nth_error (slice vec d1 (d' - d1)) (Z.to_nat (k - c_start c - g1)) else s_map s k).
    { unfold s1, spec_step. assert (El : (g1 <? s_cur s) = false) by (apply Z.ltb_ge; lia). rewrite El.
      rewrite (slice_length vec d1 (d' - d1)) by lia.
      assert (E0 : (d' - d1 =? 0) = false) by (apply Z.eqb_neq; lia). rewrite E0. cbn [s_cur s_map].
      split; [reflexivity|]. intros k. reflexivity. }
    destruct Hs1 as (Hc1 & Hm1).
    destruct (IH D1 g' d' (combine G1 D1) top s1 ltac:(cbn in Hl; lia) eq_refl E ltac:(lia) ltac:(lia) ltac:(lia))
      as (Hc' & Hm').
    cbn [rows_end]. split; [exact Hc'|]. intros k. rewrite Hm', rl_two, Hm1.
    destruct ((c_start c + g1 <=? k) && (k <? c_start c + g1 + (d' - d1))) eqn:E1.
    + apply andb_true_iff in E1 as [E1 E2]. apply Z.leb_le in E1. apply Z.ltb_lt in E2.
      assert (E' : (g1 <=? k - c_start c) && (k - c_start c <? g1 + (d' - d1)) = true)
        by (apply andb_true_iff; split; [apply Z.leb_le|apply Z.ltb_lt]; lia).
      rewrite E'.
      rewrite (rows_lookup_below (combine G1 D1) g' d' vec top (k - c_start c) E) by lia.
      rewrite (slice_nth vec d1 (d' - d1) (k - c_start c - g1)) by lia.
      destruct (nth_error_in_range vec (d1 + (k - c_start c - g1)) ltac:(lia)) as (v & Hv). rewrite Hv. reflexivity.
    + assert (E' : (g1 <=? k - c_start c) && (k - c_start c <? g1 + (d' - d1)) = false).
      { apply andb_false_iff in E1 as [E1|E1]; apply andb_false_iff; [left; apply Z.leb_gt; apply Z.leb_gt in E1; lia
                                                                   |right; apply Z.ltb_ge; apply Z.ltb_ge in E1; lia]. }
      rewrite E'. reflexivity.
Qed.

Theorem blocks_spec_is_sequence c s G D vec :
  c_cont c && multi (combine G D) = false ->
  py_arrays_ok (s_cur s) (zlen vec) G D = true -> first_nonneg (combine G D) ->
  let a := spec_step_blocks c s (combine G D, vec) in
  let b := fold_left (spec_step c) (blocks_of G D vec (zlen vec)) s in
  s_cur a = s_cur b /\ forall k, s_map a k = s_map b k.
Proof.
  intros Hm Hok Hnn a b.
  pose proof (py_valid_implies_c_valid _ _ _ _ Hok) as Hv.
  assert (Ha : accepted c (s_cur s) (combine G D) vec = true).
  { unfold accepted. rewrite Hv, Hm. reflexivity. }
  destruct (valid_arrays_wf _ _ _ Hv) as (g0 & tl & E & Hge & Hvl & Hwf).
  unfold py_arrays_ok in Hok. destruct G as [|g G]; [discriminate|]. destruct D as [|d0 D]; [discriminate|].
  repeat (apply andb_true_iff in Hok as [Hok ?]).
  match goal with Hx : Nat.eqb _ _ = true |- _ => apply Nat.eqb_eq in Hx; rename Hx into Hlen end.
  pose proof E as E2. cbn [combine] in E2. injection E2 as Eg Ed Etl. subst g0. subst d0.
  cbn [combine first_nonneg] in Hnn.
  destruct (blocks_spec_equiv c vec G D g 0 tl _ s ltac:(cbn in Hlen; lia) Etl Hwf ltac:(lia) Hge Hnn) as (Hc & Hmp).
  unfold a, b, spec_step_blocks. rewrite Ha. cbn [s_cur s_map]. rewrite E. cbn [blocks_end].
  split; [symmetry; exact Hc|]. intros k. rewrite Hmp. reflexivity.
Qed.

(* ---- gapped mode: the counters count for histories mixing rf_write and rf_write_blocks *)
Lemma written_count_ext c a b : s_cur a = s_cur b -> (forall k, s_map a k = s_map b k) -> written_count c a = written_count c b.
Proof. intros Hc Hm. unfold written_count. rewrite Hc. apply cnt_ext. intros k _. apply Hm. Qed.

Lemma SpecOk_ext c a b : s_cur a = s_cur b -> (forall k, s_map a k = s_map b k) -> SpecOk c b -> SpecOk c a.
Proof. intros Hc Hm (H0 & Hn). split; [lia|]. intros k Hk. rewrite Hm. apply Hn. lia. Qed.

Lemma count_blocks_step_gapped c ps s G D vec : vcfg c -> c_chunk c = true -> c_cont c = false ->
  CountInv c (refines c) ps s -> first_nonneg (combine G D) ->
  CountInv c (refines c) (snd (py_rf_write_blocks c ps G D vec)) (api_spec_gapped c s (ABlocks G D vec)).
Proof.
  intros Hc Hch Hco HC Hnn. pose proof HC as (HI & Hs & Hw & Hgp).
  pose proof (py_rf_write_blocks_gapped c ps s G D vec Hc Hch Hco HI Hnn) as H.
  cbn [api_spec_gapped]. destruct (py_arrays_ok (s_cur s) (zlen vec) G D) eqn:Eok.
  - destruct H as (Hret & HI').
    destruct (blocks_spec_is_sequence c s G D vec ltac:(rewrite Hco; reflexivity) Eok Hnn) as (Hce & Hme).
    destruct (ascending_count c (blocks_of G D vec (zlen vec)) s Hs (py_ok_ascending _ vec G D Eok Hnn)) as (Hs' & Hc').
    rewrite (py_ok_total _ vec G D Eok) in Hc'.
    pose proof (api_written_step c ps (ABlocks G D vec)) as Hwr.
    unfold api_state, accepted_len in Hwr. cbn [api_call] in Hwr. rewrite Hret in Hwr. cbn [fst Z.eqb OK] in Hwr.
    pose proof (py_step_counters c ps (OpBlocks G D vec) (CountInv_counters c (refines c) ps s HC)) as Hsum.
    unfold counters_ok in Hsum. cbn [py_step] in Hsum.
    assert (Hnx : p_next (snd (py_rf_write_blocks c ps G D vec)) = s_cur (spec_step_blocks c s (combine G D, vec)))
      by (destruct HI' as (_ & _ & Hx & _); exact Hx).
    unfold CountInv. split; [exact HI'|]. split; [exact (SpecOk_ext c _ _ Hce Hme Hs')|].
    rewrite (written_count_ext c _ _ Hce Hme). split; lia.
  - destruct H as (code & ->). cbn [snd]. exact HC.
Qed.

Lemma count_api_history_gapped c : vcfg c -> c_chunk c = true -> c_cont c = false ->
  forall ops ps s, CountInv c (refines c) ps s -> Forall api_arg_ok ops ->
  CountInv c (refines c) (fold_left (api_state c) ops ps) (fold_left (api_spec_gapped c) ops s).
Proof.
  intros Hc Hch Hco. induction ops as [|op ops IH]; intros ps s HC Hops; cbn [fold_left]; [exact HC|].
  inversion Hops as [|? ? Hop Hops']; subst. apply IH; [|exact Hops'].
  destruct op as [ns vec|G D vec]; unfold api_state; cbn [api_call api_spec_gapped].
  - apply (count_write_step c (refines c) (fun st s0 H => proj1 (proj2 H)) (chunked_R_call c Hc Hch) ps s ns vec HC).
    destruct ns; exact Hop.
  - apply count_blocks_step_gapped; assumption.
Qed.

Theorem counters_count_gapped c ops : vcfg c -> c_chunk c = true -> c_cont c = false ->
  Forall api_arg_ok ops ->
  let ps := fold_left (api_state c) ops py_init in
  let s := fold_left (api_spec_gapped c) ops spec_init in
  p_next ps = s_cur s /\ p_written ps = written_count c s /\ p_gap ps = s_cur s - written_count c s.
Proof.
  intros Hc Hch Hco Hops ps s.
  assert (HR : refines c init_state spec_init)
    by (split; [apply Inv_init|]; split; [reflexivity|]; split; [reflexivity|exact I]).
  destruct (count_api_history_gapped c Hc Hch Hco ops py_init spec_init (CountInv_init c (refines c) HR) Hops)
    as ((_ & _ & Hn & _) & _ & Hw & Hg).
  auto.
Qed.

(* ------------------------------------------------------------------ C05: a sample, once written, never
   changes value -- along ANY history of public API calls.  Spec level, then the files. *)
Lemma spec_step_keeps c s g vec k v : SpecOk c s -> s_map s k = Some v -> s_map (spec_step c s (g, vec)) k = Some v.
Proof.
  intros (H0 & Hn) Hk. unfold spec_step. destruct (g <? s_cur s) eqn:El; [exact Hk|]. apply Z.ltb_ge in El.
  cbn [s_map].
  assert (Hlt : k < c_start c + s_cur s).
  { destruct (Z_lt_le_dec k (c_start c + s_cur s)); [assumption|]. rewrite Hn in Hk by lia. discriminate. }
  assert (E : (c_start c + g <=? k) && (k <? c_start c + g + zlen vec) = false)
    by (apply andb_false_iff; left; apply Z.leb_gt; lia).
  rewrite E. exact Hk.
Qed.

Lemma spec_steps_keep c bs : forall s k v, SpecOk c s -> Forall (fun b => 0 <= fst b) bs ->
  s_map s k = Some v -> s_map (fold_left (spec_step c) bs s) k = Some v.
Proof.
  induction bs as [|[g vec] bs IH]; intros s k v Hs Hb Hk; cbn [fold_left]; [exact Hk|].
  inversion Hb as [|? ? Hg Hb']; subst. cbn [fst] in Hg.
  apply IH; [exact (proj1 (spec_step_count c s g vec Hs Hg))|exact Hb'|].
  apply spec_step_keeps; assumption.
Qed.

Lemma ascending_nonneg cur bs : ascending cur bs -> Forall (fun b => 0 <= fst b) bs.
Proof.
  revert cur. induction bs as [|[g v] bs IH]; intros cur H; [constructor|].
  cbn [ascending] in H. destruct H as (_ & Hg & _ & Hr). constructor; [exact Hg|]. eapply IH; exact Hr.
Qed.

Lemma api_spec_gapped_keeps c s op k v : SpecOk c s -> api_arg_ok op -> s_map s k = Some v ->
  s_map (api_spec_gapped c s op) k = Some v /\ SpecOk c (api_spec_gapped c s op).
Proof.
  intros Hs Hop Hk. destruct op as [ns vec|G D vec]; cbn [api_spec_gapped].
  - assert (Hg : 0 <= resolve s ns) by (destruct ns; cbn; [exact Hop|destruct Hs; assumption]).
    split; [apply spec_step_keeps; assumption|exact (proj1 (spec_step_count c s _ vec Hs Hg))].
  - cbn [api_arg_ok] in Hop. destruct (py_arrays_ok (s_cur s) (zlen vec) G D) eqn:Eok; [|split; assumption].
    destruct (c_cont c && multi (combine G D)) eqn:Em.
    + (* the C library refuses multi-block calls in continuous mode: the Spec step is the identity *)
      unfold spec_step_blocks, accepted. rewrite Em. cbn [negb]. rewrite andb_false_r. split; assumption.
    + destruct (blocks_spec_is_sequence c s G D vec Em Eok Hop) as (Hce & Hme).
      pose proof (py_ok_ascending _ vec G D Eok Hop) as Hasc.
      destruct (ascending_count c _ s Hs Hasc) as (Hs' & _).
      split; [rewrite Hme; apply spec_steps_keep; [exact Hs|exact (ascending_nonneg _ _ Hasc)|exact Hk]
             |exact (SpecOk_ext c _ _ Hce Hme Hs')].
Qed.

Lemma api_spec_cont_keeps c s op k v : SpecOk c s -> api_arg_ok op -> s_map s k = Some v ->
  s_map (api_spec_cont c s op) k = Some v /\ SpecOk c (api_spec_cont c s op).
Proof.
  intros Hs Hop Hk. destruct op as [ns vec|G D vec]; cbn [api_spec_cont].
  - assert (Hg : 0 <= resolve s ns) by (destruct ns; cbn; [exact Hop|destruct Hs; assumption]).
    split; [apply spec_step_keeps; assumption|exact (proj1 (spec_step_count c s _ vec Hs Hg))].
  - cbn [api_arg_ok] in Hop. destruct (py_arrays_ok (s_cur s) (zlen vec) G D) eqn:Eok; [|split; assumption].
    pose proof (py_ok_ascending _ vec G D Eok Hop) as Hasc.
    destruct (ascending_count c _ s Hs Hasc) as (Hs' & _).
    split; [apply spec_steps_keep; [exact Hs|exact (ascending_nonneg _ _ Hasc)|exact Hk]|exact Hs'].
Qed.

Lemma SpecOk_init c : SpecOk c spec_init.
Proof. split; [cbn; lia|]. intros k _. reflexivity. Qed.

Theorem api_spec_never_rewritten_gapped c ops1 ops2 k v : Forall api_arg_ok (ops1 ++ ops2) ->
  s_map (fold_left (api_spec_gapped c) ops1 spec_init) k = Some v ->
  s_map (fold_left (api_spec_gapped c) (ops1 ++ ops2) spec_init) k = Some v.
Proof.
  intros Hops. apply Forall_app in Hops as (H1 & H2). rewrite fold_left_app.
  assert (Hs : SpecOk c (fold_left (api_spec_gapped c) ops1 spec_init)).
  { generalize (SpecOk_init c). generalize spec_init. induction ops1 as [|op tl IH]; intros s Hs; cbn [fold_left]; [exact Hs|].
    inversion H1 as [|? ? Hop Htl]; subst. apply (IH Htl).
    destruct op as [ns vec|G D vec]; cbn [api_spec_gapped].
    - assert (Hg : 0 <= resolve s ns) by (destruct ns; cbn; [exact Hop|destruct Hs; assumption]).
      exact (proj1 (spec_step_count c s _ vec Hs Hg)).
    - destruct (py_arrays_ok (s_cur s) (zlen vec) G D) eqn:Eok; [|exact Hs].
      destruct (c_cont c && multi (combine G D)) eqn:Em.
      + unfold spec_step_blocks, accepted. rewrite Em. cbn [negb]. rewrite andb_false_r. exact Hs.
      + destruct (blocks_spec_is_sequence c s G D vec Em Eok Hop) as (Hce & Hme).
        destruct (ascending_count c _ s Hs (py_ok_ascending _ vec G D Eok Hop)) as (Hs' & _).
        exact (SpecOk_ext c _ _ Hce Hme Hs'). }
  revert Hs. generalize (fold_left (api_spec_gapped c) ops1 spec_init).
  induction ops2 as [|op tl IH]; intros s Hs Hk; cbn [fold_left]; [exact Hk|].
  inversion H2 as [|? ? Hop Htl]; subst.
  destruct (api_spec_gapped_keeps c s op k v Hs Hop Hk) as (Hk' & Hs'). apply (IH Htl); assumption.
Qed.

Theorem api_sample_never_changes_gapped c ops1 ops2 k v : vcfg c -> c_chunk c = true -> c_cont c = false ->
  Forall api_arg_ok (ops1 ++ ops2) ->
  lookup_st (p_w (fold_left (api_state c) ops1 py_init)) k = Some v ->
  lookup_st (p_w (fold_left (api_state c) (ops1 ++ ops2) py_init)) k = Some v.
Proof.
  intros Hc Hch Hco Hops Hk.
  pose proof Hops as Hops'. apply Forall_app in Hops' as (H1 & _).
  destruct (api_history_gapped c ops1 Hc Hch Hco H1) as (_ & (_ & _ & Hl1 & _) & _).
  destruct (api_history_gapped c (ops1 ++ ops2) Hc Hch Hco Hops) as (_ & (_ & _ & Hl2 & _) & _).
  rewrite Hl2. apply api_spec_never_rewritten_gapped; [exact Hops|]. rewrite <- Hl1. exact Hk.
Qed.

Theorem api_spec_never_rewritten_cont c ops1 ops2 k v : Forall api_arg_ok (ops1 ++ ops2) ->
  s_map (fold_left (api_spec_cont c) ops1 spec_init) k = Some v ->
  s_map (fold_left (api_spec_cont c) (ops1 ++ ops2) spec_init) k = Some v.
Proof.
  intros Hops. apply Forall_app in Hops as (H1 & H2). rewrite fold_left_app.
  assert (Hs : SpecOk c (fold_left (api_spec_cont c) ops1 spec_init)).
  { generalize (SpecOk_init c). generalize spec_init. induction ops1 as [|op tl IH]; intros s Hs; cbn [fold_left]; [exact Hs|].
    inversion H1 as [|? ? Hop Htl]; subst. apply (IH Htl).
    destruct op as [ns vec|G D vec]; cbn [api_spec_cont].
    - assert (Hg : 0 <= resolve s ns) by (destruct ns; cbn; [exact Hop|destruct Hs; assumption]).
      exact (proj1 (spec_step_count c s _ vec Hs Hg)).
    - destruct (py_arrays_ok (s_cur s) (zlen vec) G D) eqn:Eok; [|exact Hs].
      exact (proj1 (ascending_count c _ s Hs (py_ok_ascending _ vec G D Eok Hop))). }
  revert Hs. generalize (fold_left (api_spec_cont c) ops1 spec_init).
  induction ops2 as [|op tl IH]; intros s Hs Hk; cbn [fold_left]; [exact Hk|].
  inversion H2 as [|? ? Hop Htl]; subst.
  destruct (api_spec_cont_keeps c s op k v Hs Hop Hk) as (Hk' & Hs'). apply (IH Htl); assumption.
Qed.

(* continuous mode without compression / checksums: what was written stays readable with its value
   (slots that were never written read as fill and may of course be written later) *)
Theorem api_sample_never_changes_continuous_unchunked c ops1 ops2 k v :
  vcfg c -> c_chunk c = false -> c_cont c = true -> Forall api_arg_ok (ops1 ++ ops2) ->
  s_map (fold_left (api_spec_cont c) ops1 spec_init) k = Some v ->
  lookup_st (p_w (fold_left (api_state c) ops1 py_init)) k = Some v /\
  lookup_st (p_w (fold_left (api_state c) (ops1 ++ ops2) py_init)) k = Some v.
Proof.
  intros Hc Hch Hco Hops Hk.
  pose proof Hops as Hops'. apply Forall_app in Hops' as (H1 & _).
  destruct (api_history_continuous_unchunked c ops1 Hc Hch Hco H1) as (_ & HR1 & _).
  destruct (api_history_continuous_unchunked c (ops1 ++ ops2) Hc Hch Hco Hops) as (_ & HR2 & _).
  split; [exact (ru_written _ _ _ HR1 k v Hk)|].
  apply (ru_written _ _ _ HR2 k v). apply api_spec_never_rewritten_cont; assumption.
Qed.

Theorem api_sample_never_changes_continuous_chunked c ops1 ops2 k v :
  vcfg c -> c_chunk c = true -> c_cont c = true -> Forall api_arg_ok (ops1 ++ ops2) ->
  lookup_st (p_w (fold_left (api_state c) ops1 py_init)) k = Some v ->
  lookup_st (p_w (fold_left (api_state c) (ops1 ++ ops2) py_init)) k = Some v.
Proof.
  intros Hc Hch Hco Hops Hk.
  pose proof Hops as Hops'. apply Forall_app in Hops' as (H1 & _).
  destruct (api_history_continuous_chunked c ops1 Hc Hch Hco H1) as (_ & (_ & _ & Hl1 & _) & _).
  destruct (api_history_continuous_chunked c (ops1 ++ ops2) Hc Hch Hco Hops) as (_ & (_ & _ & Hl2 & _) & _).
  rewrite Hl2. apply api_spec_never_rewritten_cont; [exact Hops|]. rewrite <- Hl1. exact Hk.
Qed.
