(* The block merge of the reader model (Base/Runs.v: combine for read, combine_len for get_continuous_blocks) is
   the state machine regenerated from DigitalRFReader._combine_blocks (Gen/CombineGen.v, translator T18), run over
   the pieces in the order of sorted(cont_data_dict.items()). *)
From Coq Require Import ZArith List Lia.
From DRF Require Import Base.Runs Gen.CombineGen.
Import ListNotations.
Local Open Scope Z_scope.

Section Generic.
Context {X : Type} (cat : X -> X -> X) (size : X -> Z).
Hypothesis size_cat : forall a b, size (cat a b) = size a + size b.

Fixpoint combine_from_g (cur : Z * X) (bs : list (Z * X)) : list (Z * X) :=
  match bs with
  | [] => [cur]
  | b :: r => if fst b =? fst cur + size (snd cur) then combine_from_g (fst cur, cat (snd cur) (snd b)) r
              else cur :: combine_from_g b r
  end.

Lemma step_some pk pa out b :
  gen_combine_step cat size (mkC (Some (pk, pa)) (Some (pk + size pa)) out) b =
  if fst b =? pk + size pa then mkC (Some (pk, cat pa (snd b))) (Some (fst b + size (snd b))) out
  else mkC (Some (fst b, snd b)) (Some (fst b + size (snd b))) (out ++ [(pk, pa)]).
Proof. reflexivity. Qed.

Lemma step_none out b :
  gen_combine_step cat size (mkC None None out) b = mkC (Some (fst b, snd b)) (Some (fst b + size (snd b))) out.
Proof. reflexivity. Qed.

Lemma fold_from : forall l cur out,
  let st := fold_left (gen_combine_step cat size) l (mkC (Some cur) (Some (fst cur + size (snd cur))) out) in
  c_out st ++ (match c_pres st with Some b => [b] | None => [] end) = out ++ combine_from_g cur l.
Proof.
  induction l as [|b r IH]; intros [pk pa] out; cbn [fold_left combine_from_g].
  - reflexivity.
  - cbn [fst snd]. rewrite step_some.
    destruct (fst b =? pk + size pa) eqn:E.
    + apply Z.eqb_eq in E.
      replace (fst b + size (snd b)) with (fst (pk, cat pa (snd b)) + size (snd (pk, cat pa (snd b))))
        by (cbn [fst snd]; rewrite size_cat; lia).
      apply IH.
    + specialize (IH (fst b, snd b) (out ++ [(pk, pa)])). cbn [fst snd] in IH. cbn zeta in IH.
      rewrite IH. rewrite <- app_assoc. destruct b; reflexivity.
Qed.

Theorem gen_combine_is_combine_g : forall l,
  gen_combine cat size l = match l with [] => [] | b :: r => combine_from_g b r end.
Proof.
  intros [|b r]; [reflexivity|]. unfold gen_combine. cbn [fold_left].
  rewrite step_none.
  pose proof (fold_from r (fst b, snd b) []) as H. cbn [fst snd app] in H. cbn zeta in H.
  rewrite H. destruct b; reflexivity.
Qed.
End Generic.

Section Inst.
Context {V : Type}.

Lemma combine_from_g_blocks : forall (bs : list (@block V)) cur,
  combine_from_g (@app V) (fun d => Z.of_nat (length d)) cur bs = combine_from cur bs.
Proof. induction bs as [|b r IH]; intro cur; cbn; [reflexivity|]. unfold bend, blen. destruct (_ =? _); rewrite ?IH; reflexivity. Qed.

(* read: payload = the rows of a piece, cat = np.concatenate, size = len *)
Theorem combine_blocks_regen : forall bs : list (@block V),
  combine bs = gen_combine (@app V) (fun d => Z.of_nat (length d)) bs.
Proof.
  intro bs. rewrite gen_combine_is_combine_g by (intros; rewrite app_length; lia).
  destruct bs as [|b r]; [reflexivity|]. cbn [combine]. symmetry. apply combine_from_g_blocks.
Qed.
End Inst.

Lemma combine_from_g_lens : forall bs cur, combine_from_g Z.add (fun x => x) cur bs = combine_len_from cur bs.
Proof. induction bs as [|b r IH]; intro cur; cbn; [reflexivity|]. destruct (_ =? _); rewrite ?IH; reflexivity. Qed.

(* get_continuous_blocks: payload = a length, cat = +, size = the length itself *)
Theorem combine_len_regen : forall bs, combine_len bs = gen_combine Z.add (fun x => x) bs.
Proof.
  intro bs. rewrite gen_combine_is_combine_g by (intros; reflexivity).
  destruct bs as [|b r]; [reflexivity|]. cbn [combine_len]. symmetry. apply combine_from_g_lens.
Qed.

Example combine_regen_example :
  gen_combine Z.add (fun x => x) [(0, 10); (10, 5); (20, 3)] = [(0, 15); (20, 3)].
Proof. reflexivity. Qed.
